(* C10 / C05: the text the renderer model writes is read back by the lexer model as the tokens it was written from.
   Part 1: one token.  For a token of each class the renderer writes -- a keyword or identifier, decimal digits, a character
   string, blanks, a line break, the comment "( * empty * )", a symbol -- followed by a continuation that cannot extend it, the
   longest match of the lexer model at that place is that token.  The facts about the regenerated token tables that the
   argument needs (no pattern contains a blank; a pattern that starts like a word is a word; ...) are checked by computation
   over the tables as they are regenerated from token.rs on every run. *)
From Coq Require Import List NArith Bool String Ascii Lia Arith.
From Verif Require Import Base.Text Gen.GenTokens Model.Lexer.
From Verif Require Proofs.GenObligations.
Import ListNotations.
Close Scope string_scope.
Open Scope list_scope.
Close Scope N_scope.
Open Scope nat_scope.

(* ---- the longest match as a fold ---- *)
Definition cand := option (nat * tok_kind).
Definition clen (c : cand) : nat := match c with Some (n, _) => n | None => 0 end.

Definition cands (t : text) : list cand := map (lit_candidate t) literal_tokens ++ map (rx_candidate t) regex_tokens.

Lemma lex_one_with_app lits rxs t :
  lex_one_with lits rxs t = fold_left better (map (lit_candidate t) lits ++ map (rx_candidate t) rxs) None.
Proof. unfold lex_one_with. rewrite fold_left_app. reflexivity. Qed.
Lemma lex_one_with_cands t : lex_one_with literal_tokens regex_tokens t = fold_left better (cands t) None.
Proof. exact (lex_one_with_app literal_tokens regex_tokens t). Qed.

(* candidates are never Some (0, _) *)
Definition pos_cand (c : cand) : Prop := match c with Some (n, _) => 0 < n | None => True end.

Lemma better_keep (a b : cand) : clen b <= clen a -> pos_cand b -> a <> None \/ b = None -> better a b = a.
Proof.
  destruct a as [[n k]|]; destruct b as [[m k']|]; cbn [better clen pos_cand]; intros H Hp Hn; try reflexivity.
  - destruct (Nat.ltb n m) eqn:E; [apply Nat.ltb_lt in E; lia | reflexivity].
  - destruct Hn as [Hn|Hn]; [contradiction | discriminate].
Qed.

Lemma fold_keep l : forall acc, acc <> None -> Forall (fun c => clen c <= clen acc /\ pos_cand c) l -> fold_left better l acc = acc.
Proof.
  induction l as [|c l IH]; intros acc Ha H; [reflexivity|]. inversion H as [|? ? [H1 H2] Hr]; subst. cbn [fold_left].
  rewrite (better_keep acc c H1 H2 (or_introl Ha)). apply IH; assumption.
Qed.

(* a candidate strictly longer than everything before it and at least as long as everything after it wins *)
Lemma fold_pick l1 : forall acc n k l2, 0 < n -> clen acc < n -> Forall (fun c => clen c < n) l1 ->
  Forall (fun c => clen c <= n /\ pos_cand c) l2 -> fold_left better (l1 ++ Some (n, k) :: l2) acc = Some (n, k).
Proof.
  induction l1 as [|c l1 IH]; intros acc n k l2 Hn Ha H1 H2.
  - cbn [app fold_left]. assert (E : better acc (Some (n, k)) = Some (n, k)).
    { destruct acc as [[m k']|]; cbn [better clen] in *; [|reflexivity]. destruct (Nat.ltb m n) eqn:E; [reflexivity | apply Nat.ltb_ge in E; lia]. }
    rewrite E. apply fold_keep; [discriminate | exact H2].
  - inversion H1 as [|? ? Hc Hr]; subst. cbn [app fold_left]. apply IH; try assumption.
    destruct acc as [[m k']|]; destruct c as [[m2 k2]|]; cbn [better clen] in *; try lia.
    destruct (Nat.ltb m m2) eqn:E; cbn [clen]; lia.
Qed.

(* ---- facts about the tables (recomputed whenever token.rs changes) ---- *)
Definition pat (row : list N * bool * tok_kind) : text := fst (fst row).
Definition is_blankish (c : N) : bool := N.eqb c 32 || N.eqb c 9 || N.eqb c 10 || N.eqb c 13 || N.eqb c 12.
Definition wordy (p : text) : bool := match p with c :: _ => is_ident_start c && forallb is_ident_char p | [] => false end.
Definition symbolic (p : text) : bool := negb (existsb is_ident_char p) && negb (existsb is_blankish p) &&
  negb (existsb (fun c => N.eqb c 39 || N.eqb c 34) p) && match p with [] => false | _ => true end.

Lemma table_patterns : forallb (fun row => wordy (pat row) || symbolic (pat row)) literal_tokens = true.
Proof. vm_compute. reflexivity. Qed.

(* wordy patterns are matched without regard to letter case, symbolic ones exactly (their characters have no case) *)
Lemma table_case : forallb (fun row => if wordy (pat row) then snd (fst row) else true) literal_tokens = true.
Proof. vm_compute. reflexivity. Qed.

(* ---- the regular expressions, as the list of their recognisers ---- *)
Definition matchers : list (matcher * tok_kind) :=
  [(m_crlf, KNewline); (m_lf, KNewline); (m_ff, KNewline); (m_ws, KWhitespace); (m_comment, KComment); (m_line_comment, KComment);
   (m_quoted 39, KSingleByteString); (m_quoted 34, KDoubleByteString); (m_ident, KIdentifier);
   (m_based (text_of_string "16#") is_hex, KHexDigits); (m_based (text_of_string "8#") is_oct, KOctDigits);
   (m_based (text_of_string "2#") is_bin, KBinDigits); (m_float, KFloatingPoint); (m_fixed, KFixedPoint); (m_digits, KDigits);
   (m_addr_incomplete, KDirectAddressIncomplete); (m_addr, KDirectAddress)].
Definition mcand (t : text) (mk : matcher * tok_kind) : cand :=
  match fst mk t with Some (S n) => Some (S n, snd mk) | _ => None end.

Lemma regex_table_is_matchers :
  map (fun row => (regex_matcher (fst (fst row)) (snd (fst row)), snd row)) regex_tokens = map (fun mk => (Some (fst mk), snd mk)) matchers.
Proof. vm_compute. reflexivity. Qed.

Lemma rx_cands t : map (rx_candidate t) regex_tokens = map (mcand t) matchers.
Proof.
  pose proof regex_table_is_matchers as H. revert H. generalize matchers. generalize regex_tokens.
  induction l as [|[[p ic] k] l IH]; intros ms H; destruct ms as [|[m k'] ms]; try discriminate H; [reflexivity|].
  cbn [map fst snd] in H. inversion H as [[H1 H2 H3]]. cbn [map]. f_equal; [|apply IH; exact H3].
  unfold rx_candidate, mcand. cbn [fst snd]. rewrite H1. reflexivity.
Qed.

Lemma pos_lit t row : pos_cand (lit_candidate t row).
Proof.
  destruct row as [[p ic] k]. unfold lit_candidate. destruct p as [|c p]; [exact I|].
  destruct (if ic then prefix_ci (c :: p) t else prefix_eq (c :: p) t); cbn; [lia | exact I].
Qed.
Lemma pos_mc t mk : pos_cand (mcand t mk).
Proof. unfold mcand. destruct (fst mk t) as [[|n]|]; cbn; try exact I. lia. Qed.

(* the decision of the lexer from a description of the candidates *)
Lemma lex_one_pick t n k l1 l2 : unclosed_comment t = false -> 0 < n ->
  map (lit_candidate t) literal_tokens ++ map (mcand t) matchers = l1 ++ Some (n, k) :: l2 ->
  Forall (fun c => clen c < n) l1 -> Forall (fun c => clen c <= n) l2 -> lex_one t = Some (n, k).
Proof.
  intros Hu Hn E H1 H2. unfold lex_one. rewrite Hu, lex_one_with_cands. unfold cands. rewrite rx_cands, E.
  apply fold_pick; [exact Hn | cbn; lia | exact H1|].
  assert (Hp : Forall pos_cand (l1 ++ Some (n, k) :: l2)).
  { rewrite <- E. apply Forall_app. split; apply Forall_forall; intros c Hc; apply in_map_iff in Hc; destruct Hc as (x & <- & _); [apply pos_lit | apply pos_mc]. }
  apply Forall_app in Hp. destruct Hp as [_ Hp]. inversion Hp as [|? ? _ Hp2]; subst.
  rewrite Forall_forall in *. intros c Hc. split; [apply H2; exact Hc | apply Hp2; exact Hc].
Qed.

(* ---- characters ---- *)
Lemma ident_char_cases c : is_ident_char c = true <->
  ((65 <= c /\ c <= 90) \/ (97 <= c /\ c <= 122) \/ (48 <= c /\ c <= 57) \/ c = 95)%N.
Proof.
  unfold is_ident_char, is_alpha, is_upper, is_lower, is_digit.
  rewrite !orb_true_iff, !andb_true_iff, !N.leb_le, N.eqb_eq. tauto.
Qed.

Lemma lower_of_ident a : is_ident_char a = true -> is_ident_char (lower a) = true.
Proof.
  intro H. apply ident_char_cases in H. apply ident_char_cases. unfold lower, is_upper.
  destruct (N.leb_spec 65 a); destruct (N.leb_spec a 90); cbn [andb]; lia.
Qed.

Lemma lower_of_nonident c : is_ident_char c = false -> lower c = c.
Proof.
  intro H. unfold lower, is_upper. destruct (N.leb_spec 65 c); destruct (N.leb_spec c 90); cbn [andb]; try reflexivity.
  exfalso. assert (Hi : is_ident_char c = true) by (apply ident_char_cases; lia). congruence.
Qed.

(* an identifier character never matches a character that is none, with or without regard to letter case *)
Lemma ident_vs_nonident a c : is_ident_char a = true -> is_ident_char c = false -> (lower a =? lower c)%N = false /\ (a =? c)%N = false.
Proof.
  intros Ha Hc. split; apply N.eqb_neq; intro E.
  - rewrite (lower_of_nonident c Hc) in E. apply lower_of_ident in Ha. rewrite E in Ha. congruence.
  - subst. congruence.
Qed.

Lemma ident_start_char c : is_ident_start c = true -> is_ident_char c = true.
Proof. unfold is_ident_start, is_ident_char. intro H. apply orb_true_iff in H. destruct H as [H|H]; rewrite H, ?orb_true_r; reflexivity. Qed.

(* ---- patterns against a word ---- *)
Definition pmatch (ic : bool) (p t : text) : bool := if ic then prefix_ci p t else prefix_eq p t.

Lemma lit_candidate_eq t p ic k : lit_candidate t (p, ic, k) = match p with [] => None | _ => if pmatch ic p t then Some (List.length p, k) else None end.
Proof. reflexivity. Qed.

Lemma pmatch_cons ic a p x t : pmatch ic (a :: p) (x :: t) = (if ic then (lower a =? lower x)%N else (a =? x)%N) && pmatch ic p t.
Proof. destruct ic; reflexivity. Qed.
Lemma pmatch_nil ic t : pmatch ic [] t = true.
Proof. destruct ic; destruct t; reflexivity. Qed.
Lemma pmatch_empty ic a p : pmatch ic (a :: p) [] = false.
Proof. destruct ic; reflexivity. Qed.

Definition next_not_ident (rest : text) : Prop := match rest with [] => True | c :: _ => is_ident_char c = false end.

(* a pattern of identifier characters that matches at a word followed by something else is no longer than the word *)
Lemma word_pattern_bound ic rest : next_not_ident rest -> forall w p, forallb is_ident_char p = true ->
  pmatch ic p (w ++ rest) = true -> List.length p <= List.length w.
Proof.
  intros Hr. induction w as [|x w IH]; intros p Hp Hm.
  - destruct p as [|a p]; [cbn; lia|]. cbn [app] in Hm. destruct rest as [|c r]; [rewrite pmatch_empty in Hm; discriminate|].
    rewrite pmatch_cons in Hm. cbn [forallb] in Hp. apply andb_true_iff in Hp. destruct Hp as [Ha _].
    destruct (ident_vs_nonident a c Ha Hr) as [E1 E2]. destruct ic; rewrite ?E1, ?E2 in Hm; discriminate.
  - destruct p as [|a p]; [cbn; lia|]. cbn [app] in Hm. rewrite pmatch_cons in Hm. apply andb_true_iff in Hm. destruct Hm as [_ Hm].
    cbn [forallb] in Hp. apply andb_true_iff in Hp. destruct Hp as [_ Hp]. specialize (IH p Hp Hm). cbn [List.length]. lia.
Qed.

(* of the same length, it matches the word itself; and what matches the word matches every continuation *)
Lemma pmatch_same_length ic rest : forall w p, List.length p = List.length w -> pmatch ic p (w ++ rest) = pmatch ic p w.
Proof.
  induction w as [|x w IH]; intros p Hl; destruct p as [|a p]; try discriminate Hl; [rewrite !pmatch_nil; reflexivity|].
  cbn [app]. rewrite !pmatch_cons. f_equal. apply IH. cbn in Hl. lia.
Qed.

(* a pattern without identifier characters does not match where a word starts *)
Lemma symbol_vs_word ic p w rest : symbolic p = true -> wordy w = true -> pmatch ic p (w ++ rest) = false.
Proof.
  intros Hs Hw. destruct p as [|a p]; [unfold symbolic in Hs; rewrite andb_false_r in Hs; discriminate|].
  destruct w as [|x w]; [discriminate Hw|]. cbn [app]. rewrite pmatch_cons.
  unfold symbolic in Hs. cbn [existsb] in Hs. repeat (apply andb_true_iff in Hs; destruct Hs as [Hs ?]).
  apply negb_true_iff in Hs. apply orb_false_iff in Hs. destruct Hs as [Ha _].
  unfold wordy in Hw. apply andb_true_iff in Hw. destruct Hw as [Hx _]. apply ident_start_char in Hx.
  destruct (ident_vs_nonident x a Hx Ha) as [E1 E2]. rewrite N.eqb_sym in E1, E2. destruct ic; rewrite ?E1, ?E2; reflexivity.
Qed.

Lemma find_split {A} (f : A -> bool) (l : list A) :
  match find f l with
  | Some x => exists la lb, l = la ++ x :: lb /\ f x = true /\ Forall (fun y => f y = false) la
  | None => Forall (fun y => f y = false) l
  end.
Proof.
  induction l as [|y l IH]; cbn [find]; [constructor|]. destruct (f y) eqn:E.
  - exists [], l. split; [reflexivity|]. split; [exact E | constructor].
  - destruct (find f l) as [x|].
    + destruct IH as (la & lb & El & Hx & Hla). exists (y :: la), lb. split; [rewrite El; reflexivity|]. split; [exact Hx | constructor; assumption].
    + constructor; assumption.
Qed.

(* the keyword a word is, if any: the first pattern of its List.length that matches it *)
Definition is_kw_row (w : text) (row : list N * bool * tok_kind) : bool :=
  Nat.eqb (List.length (pat row)) (List.length w) && pmatch (snd (fst row)) (pat row) w.
Definition kw_kind (w : text) : option tok_kind :=
  match find (is_kw_row w) literal_tokens with Some row => Some (snd row) | None => None end.

Lemma row_in_table_shape row : In row literal_tokens -> wordy (pat row) = true \/ symbolic (pat row) = true.
Proof.
  intro H. pose proof table_patterns as T. rewrite forallb_forall in T. specialize (T row H). apply orb_true_iff in T. exact T.
Qed.

Lemma wordy_all p : wordy p = true -> forallb is_ident_char p = true.
Proof. unfold wordy. destruct p; [discriminate|]. intro H. apply andb_true_iff in H. exact (proj2 H). Qed.

(* what a literal row says about a word followed by something else *)
Lemma lit_on_word w rest row : wordy w = true -> next_not_ident rest -> In row literal_tokens ->
  clen (lit_candidate (w ++ rest) row) <= List.length w /\
  (is_kw_row w row = false -> clen (lit_candidate (w ++ rest) row) < List.length w) /\
  (is_kw_row w row = true -> lit_candidate (w ++ rest) row = Some (List.length w, snd row)).
Proof.
  intros Hw Hr Hin. destruct row as [[p ic] k]. rewrite lit_candidate_eq. unfold is_kw_row, pat. cbn [fst snd].
  assert (Hwl : 0 < List.length w) by (destruct w; [discriminate Hw | cbn; lia]).
  destruct (row_in_table_shape _ Hin) as [Hp|Hp]; unfold pat in Hp; cbn [fst] in Hp.
  - pose proof (wordy_all p Hp) as Hall. destruct p as [|a p]; [discriminate Hp|].
    destruct (pmatch ic (a :: p) (w ++ rest)) eqn:E.
    + pose proof (word_pattern_bound ic rest Hr w (a :: p) Hall E) as Hb. cbn [clen]. split; [exact Hb|]. split.
      * intro Hk. destruct (Nat.eqb_spec (List.length (a :: p)) (List.length w)) as [El|Hne]; [|lia].
        rewrite (pmatch_same_length ic rest w (a :: p) El) in E. rewrite E in Hk. discriminate.
      * intro Hk. apply andb_true_iff in Hk. destruct Hk as [Hk _]. apply Nat.eqb_eq in Hk. rewrite Hk. reflexivity.
    + cbn [clen]. split; [lia|]. split; [intros _; lia|]. intro Hk. apply andb_true_iff in Hk. destruct Hk as [Hl Hm].
      apply Nat.eqb_eq in Hl. rewrite <- (pmatch_same_length ic rest w (a :: p) Hl) in Hm. congruence.
  - rewrite (symbol_vs_word ic p w rest Hp Hw). destruct p; cbn [clen]; (split; [lia|]); (split; [intros _; lia|]);
      intro Hk; apply andb_true_iff in Hk; destruct Hk as [Hl Hm]; apply Nat.eqb_eq in Hl.
    + destruct w; [discriminate Hw | discriminate Hl].
    + rewrite <- (pmatch_same_length ic rest w (n :: p) Hl), (symbol_vs_word ic (n :: p) w rest Hp Hw) in Hm. discriminate.
Qed.

(* ---- the recognisers where a word starts ---- *)
Definition ident_starts : list N := map N.of_nat (seq 65 26 ++ seq 97 26 ++ [95]).

Lemma in_range lo n c : (N.of_nat lo <= c)%N -> (c < N.of_nat (lo + n))%N -> In c (map N.of_nat (seq lo n)).
Proof.
  intros H1 H2. apply in_map_iff. exists (N.to_nat c). split; [apply N2Nat.id|]. apply in_seq. lia.
Qed.

Lemma ident_start_enum c : is_ident_start c = true -> In c ident_starts.
Proof.
  unfold is_ident_start, is_alpha, is_upper, is_lower. rewrite !orb_true_iff, !andb_true_iff, !N.leb_le, N.eqb_eq.
  unfold ident_starts. rewrite !map_app. intros [[[H1 H2]|[H1 H2]]|E]; [| |subst c].
  - apply in_or_app. left. apply in_range; lia.
  - apply in_or_app. right. apply in_or_app. left. apply in_range; lia.
  - apply in_or_app. right. apply in_or_app. right. left. reflexivity.
Qed.

Definition others (c0 : N) (r : text) : list (option nat) := map (fun mk => fst mk (c0 :: r)) (firstn 8 matchers ++ skipn 9 matchers).

Lemma others_none_word : forall c0, In c0 ident_starts -> forall r, others c0 r = repeat None 16.
Proof.
  intros c0 Hin r. unfold ident_starts in Hin. cbn [seq app map N.of_nat] in Hin.
  repeat (destruct Hin as [<-|Hin]; [reflexivity|]). destruct Hin.
Qed.

Lemma span_word (p : N -> bool) w rest : forallb p w = true -> (match rest with [] => True | c :: _ => p c = false end) ->
  span_while p (w ++ rest) = List.length w.
Proof.
  intros Hw Hr. induction w as [|x w IH]; cbn [app span_while List.length].
  - destruct rest as [|c r]; [reflexivity|]. cbn. rewrite Hr. reflexivity.
  - cbn [forallb] in Hw. apply andb_true_iff in Hw. destruct Hw as [Hx Hw]. rewrite Hx, (IH Hw). reflexivity.
Qed.

Lemma matchers_split : matchers = firstn 8 matchers ++ (m_ident, KIdentifier) :: skipn 9 matchers.
Proof. reflexivity. Qed.

Lemma app_split_len {A} (l1 l2 r1 r2 : list A) : l1 ++ l2 = r1 ++ r2 -> List.length l1 = List.length r1 -> l1 = r1 /\ l2 = r2.
Proof.
  revert r1. induction l1 as [|x l1 IH]; intros r1 E Hl; destruct r1 as [|y r1]; try discriminate Hl; [split; [reflexivity | exact E]|].
  cbn [app] in E. inversion E as [[Ex Er]]. cbn in Hl. destruct (IH r1 Er ltac:(lia)) as [H1 H2]. subst. split; reflexivity.
Qed.

Lemma mcand_none_of t l : map (fun mk : matcher * tok_kind => fst mk t) l = repeat None (List.length l) ->
  map (mcand t) l = repeat None (List.length l).
Proof.
  induction l as [|mk l IH]; intro H; [reflexivity|]. cbn [map List.length repeat] in *. inversion H as [[H1 H2]].
  f_equal; [unfold mcand; rewrite H1; reflexivity | apply IH; rewrite H2, H1; reflexivity].
Qed.

Lemma mcands_word w rest : wordy w = true -> next_not_ident rest ->
  map (mcand (w ++ rest)) matchers = repeat None 8 ++ Some (List.length w, KIdentifier) :: repeat None 8.
Proof.
  intros Hw Hr. destruct w as [|c0 w]; [discriminate Hw|].
  unfold wordy in Hw. apply andb_true_iff in Hw. destruct Hw as [Hc0 Hall].
  pose proof (others_none_word c0 (ident_start_enum c0 Hc0) (w ++ rest)) as Ho. unfold others in Ho.
  rewrite map_app in Ho. change (repeat None 16) with (@repeat (option nat) None 8 ++ repeat None 8) in Ho.
  apply app_split_len in Ho; [|reflexivity]. destruct Ho as [Ha Hb].
  rewrite matchers_split at 1. rewrite map_app. cbn [map]. cbn [app].
  f_equal; [exact (mcand_none_of (c0 :: w ++ rest) (firstn 8 matchers) Ha)|]. f_equal; [|exact (mcand_none_of (c0 :: w ++ rest) (skipn 9 matchers) Hb)].
  unfold mcand, m_ident. cbn [fst snd]. rewrite Hc0. cbn [forallb] in Hall. apply andb_true_iff in Hall. destruct Hall as [_ Hall].
  rewrite (span_word is_ident_char w rest Hall Hr). reflexivity.
Qed.

(* ---- one word: a keyword if some pattern of its length matches it, an identifier otherwise ---- *)
Lemma unclosed_word w rest : wordy w = true -> unclosed_comment (w ++ rest) = false.
Proof.
  destruct w as [|c0 w]; [discriminate|]. unfold wordy. intro H. apply andb_true_iff in H. destruct H as [H _].
  pose proof (ident_start_enum c0 H) as Hin. unfold ident_starts in Hin. cbn [seq app map N.of_nat] in Hin.
  cbn [app]. repeat (destruct Hin as [<-|Hin]; [reflexivity|]). destruct Hin.
Qed.

Lemma clen_none_repeat n m : 0 < m -> Forall (fun c : cand => clen c < m) (repeat None n).
Proof. intro H. apply Forall_forall. intros c Hc. apply repeat_spec in Hc. subst. exact H. Qed.
Lemma clen_none_repeat_le n m : Forall (fun c : cand => clen c <= m) (repeat None n).
Proof. apply Forall_forall. intros c Hc. apply repeat_spec in Hc. subst. cbn. lia. Qed.

Theorem lex_word w rest : wordy w = true -> next_not_ident rest ->
  lex_one (w ++ rest) = Some (List.length w, match kw_kind w with Some k => k | None => KIdentifier end).
Proof.
  intros Hw Hr.
  assert (Hwl : 0 < List.length w) by (destruct w; [discriminate Hw | cbn; lia]).
  pose proof (find_split (is_kw_row w) literal_tokens) as Hf. unfold kw_kind.
  assert (Hrows : forall rows, incl rows literal_tokens ->
            Forall (fun c => clen c <= List.length w) (map (lit_candidate (w ++ rest)) rows)).
  { intros rows Hi. apply Forall_forall. intros c Hc. apply in_map_iff in Hc. destruct Hc as (row & <- & Hrow).
    exact (proj1 (lit_on_word w rest row Hw Hr (Hi _ Hrow))). }
  assert (Hnk : forall rows, incl rows literal_tokens -> Forall (fun y => is_kw_row w y = false) rows ->
            Forall (fun c => clen c < List.length w) (map (lit_candidate (w ++ rest)) rows)).
  { intros rows Hi Hno. apply Forall_forall. intros c Hc. apply in_map_iff in Hc. destruct Hc as (row & <- & Hrow).
    rewrite Forall_forall in Hno. exact (proj1 (proj2 (lit_on_word w rest row Hw Hr (Hi _ Hrow))) (Hno _ Hrow)). }
  destruct (find (is_kw_row w) literal_tokens) as [row0|].
  - destruct Hf as (la & lb & El & H0 & Hla).
    assert (Ia : incl la literal_tokens) by (rewrite El; intros x Hx; apply in_or_app; left; exact Hx).
    assert (Ib : incl lb literal_tokens) by (rewrite El; intros x Hx; apply in_or_app; right; right; exact Hx).
    assert (I0 : In row0 literal_tokens) by (rewrite El; apply in_or_app; right; left; reflexivity).
    apply (lex_one_pick (w ++ rest) (List.length w) (snd row0) (map (lit_candidate (w ++ rest)) la)
             (map (lit_candidate (w ++ rest)) lb ++ map (mcand (w ++ rest)) matchers)); [apply unclosed_word; exact Hw | exact Hwl | | |].
    + rewrite El at 1. rewrite map_app. cbn [map]. rewrite (proj2 (proj2 (lit_on_word w rest row0 Hw Hr I0)) H0).
      rewrite <- app_assoc. reflexivity.
    + exact (Hnk la Ia Hla).
    + apply Forall_app. split; [exact (Hrows lb Ib)|]. rewrite (mcands_word w rest Hw Hr).
      apply Forall_app. split; [apply clen_none_repeat_le|]. constructor; [cbn; lia | apply clen_none_repeat_le].
  - apply (lex_one_pick (w ++ rest) (List.length w) KIdentifier (map (lit_candidate (w ++ rest)) literal_tokens ++ repeat None 8) (repeat None 8));
      [apply unclosed_word; exact Hw | exact Hwl | | |].
    + rewrite (mcands_word w rest Hw Hr), <- app_assoc. reflexivity.
    + apply Forall_app. split; [exact (Hnk literal_tokens (incl_refl _) Hf) | apply clen_none_repeat; exact Hwl].
    + apply clen_none_repeat_le.
Qed.

(* ---- where no pattern starts: digits, quotes, blanks, line breaks ---- *)
Definition no_pattern_starts (c0 : N) : bool :=
  forallb (fun row => match pat row with a :: _ => negb (lower a =? lower c0)%N && negb (a =? c0)%N | [] => true end) literal_tokens.

Lemma lits_none_at c0 r : no_pattern_starts c0 = true -> map (lit_candidate (c0 :: r)) literal_tokens = repeat None (List.length literal_tokens).
Proof.
  unfold no_pattern_starts. generalize literal_tokens. induction l as [|[[p ic] k] l IH]; intro H; [reflexivity|].
  cbn [forallb] in H. apply andb_true_iff in H. destruct H as [H1 H2]. cbn [map List.length repeat]. f_equal; [|exact (IH H2)].
  rewrite lit_candidate_eq. unfold pat in H1. cbn [fst] in H1. destruct p as [|a p]; [reflexivity|].
  rewrite pmatch_cons. apply andb_true_iff in H1. destruct H1 as [E1 E2]. apply negb_true_iff in E1, E2.
  destruct ic; rewrite ?E1, ?E2; reflexivity.
Qed.

Lemma lex_one_no_literal c0 r n k l1 l2 : no_pattern_starts c0 = true -> unclosed_comment (c0 :: r) = false -> 0 < n ->
  map (mcand (c0 :: r)) matchers = l1 ++ Some (n, k) :: l2 -> Forall (fun c => clen c < n) l1 -> Forall (fun c => clen c <= n) l2 ->
  lex_one (c0 :: r) = Some (n, k).
Proof.
  intros Hno Hu Hn E H1 H2.
  apply (lex_one_pick (c0 :: r) n k (repeat None (List.length literal_tokens) ++ l1) l2 Hu Hn).
  - rewrite (lits_none_at c0 r Hno), E, <- app_assoc. reflexivity.
  - apply Forall_app. split; [apply clen_none_repeat; exact Hn | exact H1].
  - exact H2.
Qed.

(* ---- decimal digits ---- *)
Definition digit_chars : list N := map N.of_nat (seq 48 10).
Lemma digit_enum c : is_digit c = true -> In c digit_chars.
Proof. unfold is_digit. rewrite andb_true_iff, !N.leb_le. intros [H1 H2]. apply in_range; lia. Qed.

Definition digits_next (rest : text) : Prop :=
  match rest with
  | [] => True
  | c :: r => is_digit c = false /\ c <> 95%N /\ c <> 35%N /\
              (c = 46%N -> match r with [] => True | c2 :: _ => is_digit c2 = false /\ c2 <> 95%N end)
  end.

Lemma digits_table : forallb no_pattern_starts digit_chars = true.
Proof. vm_compute. reflexivity. Qed.

Definition others_d (c0 : N) (r : text) : list (option nat) := map (fun mk => fst mk (c0 :: r)) (firstn 9 matchers ++ skipn 15 matchers).
Lemma others_none_digit : forall c0, In c0 digit_chars -> forall r, others_d c0 r = repeat None 11 /\ unclosed_comment (c0 :: r) = false.
Proof.
  intros c0 Hin r. unfold digit_chars in Hin. cbn [seq map N.of_nat] in Hin.
  repeat (destruct Hin as [<-|Hin]; [split; reflexivity|]). destruct Hin.
Qed.

Lemma or_us_digit_false c : is_digit c = false -> c <> 95%N -> or_us is_digit c = false.
Proof. intros H1 H2. unfold or_us. rewrite H1. apply N.eqb_neq in H2. rewrite H2. reflexivity. Qed.
(* decimal digits as the expression has them: a digit, then digits and '_' *)
Definition digits_word (w : text) : bool := match w with d :: ws => is_digit d && forallb (or_us is_digit) ws | [] => false end.

Lemma digits_word_all w : digits_word w = true -> forallb (or_us is_digit) w = true.
Proof. destruct w as [|d ws]; [discriminate|]. cbn [digits_word forallb]. intro H. apply andb_true_iff in H. destruct H as [H1 H2]. unfold or_us at 1. rewrite H1, H2. reflexivity. Qed.

Lemma m_digits_on w rest : digits_word w = true -> digits_next rest -> m_digits (w ++ rest) = Some (List.length w).
Proof.
  intros Hw Hr. destruct w as [|d w]; [discriminate Hw|]. cbn [app m_digits digits_word] in *. apply andb_true_iff in Hw. destruct Hw as [Hd Hw].
  rewrite Hd. f_equal. cbn [List.length]. f_equal. apply span_word; [exact Hw|].
  destruct rest as [|c r]; [exact I|]. destruct Hr as (H1 & H2 & _). apply or_us_digit_false; assumption.
Qed.

Lemma skipn_app_exact {A} (w rest : list A) : skipn (List.length w) (w ++ rest) = rest.
Proof. induction w; [reflexivity | assumption]. Qed.
Lemma firstn_app_exact {A} (w rest : list A) : firstn (List.length w) (w ++ rest) = w.
Proof. induction w as [|x w IH]; [reflexivity|]. cbn. f_equal. exact IH. Qed.

Lemma m_fixed_on w rest : digits_word w = true -> digits_next rest -> m_fixed (w ++ rest) = None.
Proof.
  intros Hw Hr. unfold m_fixed. rewrite (m_digits_on w rest Hw Hr), skipn_app_exact.
  destruct rest as [|c r]; [reflexivity|]. destruct Hr as (_ & _ & _ & H46).
  destruct (N.eq_dec c 46) as [->|Hc].
  - specialize (H46 eq_refl). destruct r as [|c2 r]; [reflexivity|]. destruct H46 as [H1 H2]. cbn [span_while]. rewrite (or_us_digit_false c2 H1 H2). reflexivity.
  - destruct c as [|p]; [reflexivity|]. repeat (destruct p as [p|p|]; try reflexivity). contradiction Hc. reflexivity.
Qed.

Lemma m_float_on w rest : digits_word w = true -> digits_next rest -> m_float (w ++ rest) = None.
Proof. intros. unfold m_float. rewrite m_fixed_on by assumption. reflexivity. Qed.

Lemma or_us_not_hash x : or_us is_digit x = true -> (35 =? x)%N = false.
Proof.
  unfold or_us, is_digit. intro H. apply orb_true_iff in H. apply N.eqb_neq. destruct H as [H|H].
  - apply andb_true_iff in H. rewrite !N.leb_le in H. lia.
  - apply N.eqb_eq in H. subst. discriminate.
Qed.

(* "16#" and the like are no prefix of digits (and '_') followed by something that is neither a digit nor '#' *)
Lemma prefix_hash rest : digits_next rest -> forall ds w, forallb is_digit ds = true -> forallb (or_us is_digit) w = true ->
  prefix_eq (ds ++ [35%N]) (w ++ rest) = false.
Proof.
  intro Hr. induction ds as [|a ds IH]; intros w Hds Hw.
  - cbn [app]. destruct w as [|x w]; cbn [app prefix_eq].
    + destruct rest as [|c r]; [reflexivity|]. destruct Hr as (_ & _ & H35 & _). apply not_eq_sym in H35. apply N.eqb_neq in H35. rewrite H35. reflexivity.
    + cbn [forallb] in Hw. apply andb_true_iff in Hw. destruct Hw as [Hx _]. rewrite (or_us_not_hash x Hx). reflexivity.
  - cbn [forallb] in Hds. apply andb_true_iff in Hds. destruct Hds as [Ha Hds]. cbn [app]. destruct w as [|x w]; cbn [app prefix_eq].
    + destruct rest as [|c r]; [reflexivity|]. destruct Hr as (Hc & _). assert (E : (a =? c)%N = false) by (apply N.eqb_neq; intro; subst; congruence).
      rewrite E. reflexivity.
    + cbn [forallb] in Hw. apply andb_true_iff in Hw. destruct Hw as [_ Hw]. rewrite (IH w Hds Hw), andb_false_r. reflexivity.
Qed.

Lemma m_based_on pre d w rest ds : pre = ds ++ [35%N] -> forallb is_digit ds = true -> forallb (or_us is_digit) w = true -> digits_next rest ->
  m_based pre d (w ++ rest) = None.
Proof. intros -> Hds Hw Hr. unfold m_based. rewrite (prefix_hash rest Hr ds w Hds Hw). reflexivity. Qed.

Theorem lex_digits w rest : digits_word w = true -> digits_next rest ->
  lex_one (w ++ rest) = Some (List.length w, KDigits).
Proof.
  intros Hw Hr. destruct w as [|c0 w'] eqn:Ew; [discriminate Hw|]. rewrite <- Ew in *.
  assert (Hc0 : is_digit c0 = true) by (rewrite Ew in Hw; cbn [digits_word] in Hw; apply andb_true_iff in Hw; exact (proj1 Hw)).
  pose proof (digits_word_all w Hw) as Hall.
  pose proof (digit_enum c0 Hc0) as Hin.
  pose proof digits_table as Ht. rewrite forallb_forall in Ht. specialize (Ht c0 Hin).
  destruct (others_none_digit c0 Hin (w' ++ rest)) as [Ho Hu]. unfold others_d in Ho.
  rewrite map_app in Ho. change (repeat None 11) with (@repeat (option nat) None 9 ++ repeat None 2) in Ho.
  apply app_split_len in Ho; [|reflexivity]. destruct Ho as [Ha Hb].
  assert (E : w ++ rest = c0 :: w' ++ rest) by (rewrite Ew; reflexivity).
  rewrite E. apply (lex_one_no_literal c0 (w' ++ rest) (List.length w) KDigits (repeat None 14) (repeat None 2) Ht Hu).
  - rewrite Ew. cbn. lia.
  - rewrite <- E.
    assert (Hm : matchers = firstn 9 matchers ++ [(m_based (text_of_string "16#") is_hex, KHexDigits); (m_based (text_of_string "8#") is_oct, KOctDigits);
                                                   (m_based (text_of_string "2#") is_bin, KBinDigits); (m_float, KFloatingPoint); (m_fixed, KFixedPoint); (m_digits, KDigits)]
                                                ++ skipn 15 matchers) by reflexivity.
    rewrite Hm at 1. rewrite !map_app. rewrite E at 1. rewrite (mcand_none_of (c0 :: w' ++ rest) (firstn 9 matchers) Ha).
    rewrite E at 2. rewrite (mcand_none_of (c0 :: w' ++ rest) (skipn 15 matchers) Hb).
    cbn [map]. unfold mcand. cbn [fst snd].
    rewrite (m_based_on (text_of_string "16#") is_hex w rest [49%N; 54%N] eq_refl eq_refl Hall Hr).
    rewrite (m_based_on (text_of_string "8#") is_oct w rest [56%N] eq_refl eq_refl Hall Hr).
    rewrite (m_based_on (text_of_string "2#") is_bin w rest [50%N] eq_refl eq_refl Hall Hr).
    rewrite (m_float_on w rest Hw Hr), (m_fixed_on w rest Hw Hr), (m_digits_on w rest Hw Hr).
    destruct (List.length w) eqn:El; [rewrite Ew in El; discriminate El|]. reflexivity.
  - apply clen_none_repeat. rewrite Ew. cbn. lia.
  - apply clen_none_repeat_le.
Qed.

(* ---- character strings: a quote, characters other than that quote, the quote; whatever follows ---- *)
Lemma quote_table : no_pattern_starts 39%N = true /\ no_pattern_starts 34%N = true.
Proof. vm_compute. split; reflexivity. Qed.

Definition others_q (c0 : N) (r : text) (i : nat) : list (option nat) := map (fun mk => fst mk (c0 :: r)) (firstn i matchers ++ skipn (S i) matchers).
Lemma others_none_quote r : others_q 39%N r 6 = repeat None 16 /\ others_q 34%N r 7 = repeat None 16 /\
  unclosed_comment (39%N :: r) = false /\ unclosed_comment (34%N :: r) = false.
Proof. repeat split; reflexivity. Qed.

Lemma m_quoted_on q body rest : forallb (fun x => negb (x =? q)%N) body = true ->
  m_quoted q (q :: body ++ q :: rest) = Some (List.length body + 2).
Proof.
  intro Hb. unfold m_quoted. rewrite N.eqb_refl.
  assert (Hs : span_while (fun x => negb (x =? q)%N) (body ++ q :: rest) = List.length body).
  { apply span_word; [exact Hb|]. cbn. rewrite N.eqb_refl. reflexivity. }
  rewrite Hs, skipn_app_exact. reflexivity.
Qed.

Theorem lex_string q body rest : (q = 39%N \/ q = 34%N) -> forallb (fun x => negb (x =? q)%N) body = true ->
  lex_one ((q :: body ++ [q]) ++ rest) = Some (List.length (q :: body ++ [q]), if (q =? 39)%N then KSingleByteString else KDoubleByteString).
Proof.
  intros Hq Hb. destruct quote_table as [T1 T2]. destruct (others_none_quote (body ++ q :: rest)) as (O1 & O2 & U1 & U2).
  assert (El : List.length (q :: body ++ [q]) = List.length body + 2) by (cbn [List.length]; rewrite app_length; cbn; lia).
  assert (Et : (q :: body ++ [q]) ++ rest = q :: body ++ q :: rest) by (cbn [app]; rewrite <- app_assoc; reflexivity).
  rewrite Et, El. destruct Hq as [-> | ->]; cbn [N.eqb Pos.eqb].
  - unfold others_q in O1. rewrite map_app in O1. change (repeat None 16) with (@repeat (option nat) None 6 ++ repeat None 10) in O1.
    apply app_split_len in O1; [|reflexivity]. destruct O1 as [Ha Hb'].
    apply (lex_one_no_literal 39%N (body ++ 39%N :: rest) (List.length body + 2) KSingleByteString (repeat None 6) (repeat None 10) T1 U1); [lia | | apply clen_none_repeat; lia | apply clen_none_repeat_le].
    assert (Hm : matchers = firstn 6 matchers ++ (m_quoted 39, KSingleByteString) :: skipn 7 matchers) by reflexivity.
    rewrite Hm at 1. rewrite map_app. cbn [map].
    rewrite (mcand_none_of _ (firstn 6 matchers) Ha), (mcand_none_of _ (skipn 7 matchers) Hb').
    unfold mcand. cbn [fst snd]. rewrite (m_quoted_on 39%N body rest Hb). replace (List.length body + 2) with (S (S (List.length body))) by lia. reflexivity.
  - unfold others_q in O2. rewrite map_app in O2. change (repeat None 16) with (@repeat (option nat) None 7 ++ repeat None 9) in O2.
    apply app_split_len in O2; [|reflexivity]. destruct O2 as [Ha Hb'].
    apply (lex_one_no_literal 34%N (body ++ 34%N :: rest) (List.length body + 2) KDoubleByteString (repeat None 7) (repeat None 9) T2 U2); [lia | | apply clen_none_repeat; lia | apply clen_none_repeat_le].
    assert (Hm : matchers = firstn 7 matchers ++ (m_quoted 34, KDoubleByteString) :: skipn 8 matchers) by reflexivity.
    rewrite Hm at 1. rewrite map_app. cbn [map].
    rewrite (mcand_none_of _ (firstn 7 matchers) Ha), (mcand_none_of _ (skipn 8 matchers) Hb').
    unfold mcand. cbn [fst snd]. rewrite (m_quoted_on 34%N body rest Hb). replace (List.length body + 2) with (S (S (List.length body))) by lia. reflexivity.
Qed.

(* ---- blanks, a line break, the comment the renderer writes for an empty group of a CASE ---- *)
Lemma blank_table : no_pattern_starts 32%N = true /\ no_pattern_starts 9%N = true.
Proof. vm_compute. split; reflexivity. Qed.

Lemma others_none_blank r : others_q 32%N r 3 = repeat None 16 /\ others_q 9%N r 3 = repeat None 16 /\
  unclosed_comment (32%N :: r) = false /\ unclosed_comment (9%N :: r) = false.
Proof. repeat split; reflexivity. Qed.

Definition next_not_blank (rest : text) : Prop := match rest with [] => True | c :: _ => is_blank c = false end.

Theorem lex_blanks w rest : w <> [] -> forallb is_blank w = true -> next_not_blank rest ->
  lex_one (w ++ rest) = Some (List.length w, KWhitespace).
Proof.
  intros Hne Hw Hr. destruct w as [|c0 w']; [contradiction|]. cbn [forallb] in Hw. apply andb_true_iff in Hw. destruct Hw as [Hc0 Hw].
  destruct blank_table as [T1 T2]. destruct (others_none_blank (w' ++ rest)) as (O1 & O2 & U1 & U2).
  assert (Hm : matchers = firstn 3 matchers ++ (m_ws, KWhitespace) :: skipn 4 matchers) by reflexivity.
  assert (Hws : forall c, is_blank c = true -> m_ws (c :: w' ++ rest) = Some (S (List.length w'))).
  { intros c Hc. unfold m_ws. cbn [span_while]. rewrite Hc. rewrite (span_word is_blank w' rest Hw Hr). reflexivity. }
  unfold is_blank in Hc0. apply orb_true_iff in Hc0. rewrite !N.eqb_eq in Hc0. cbn [app List.length].
  destruct Hc0 as [-> | ->].
  - unfold others_q in O1. rewrite map_app in O1. change (repeat None 16) with (@repeat (option nat) None 3 ++ repeat None 13) in O1.
    apply app_split_len in O1; [|reflexivity]. destruct O1 as [Ha Hb].
    apply (lex_one_no_literal 32%N (w' ++ rest) (S (List.length w')) KWhitespace (repeat None 3) (repeat None 13) T1 U1); [lia | | apply clen_none_repeat; lia | apply clen_none_repeat_le].
    rewrite Hm at 1. rewrite map_app. cbn [map]. rewrite (mcand_none_of _ (firstn 3 matchers) Ha), (mcand_none_of _ (skipn 4 matchers) Hb).
    unfold mcand. cbn [fst snd]. rewrite (Hws 32%N eq_refl). reflexivity.
  - unfold others_q in O2. rewrite map_app in O2. change (repeat None 16) with (@repeat (option nat) None 3 ++ repeat None 13) in O2.
    apply app_split_len in O2; [|reflexivity]. destruct O2 as [Ha Hb].
    apply (lex_one_no_literal 9%N (w' ++ rest) (S (List.length w')) KWhitespace (repeat None 3) (repeat None 13) T2 U2); [lia | | apply clen_none_repeat; lia | apply clen_none_repeat_le].
    rewrite Hm at 1. rewrite map_app. cbn [map]. rewrite (mcand_none_of _ (firstn 3 matchers) Ha), (mcand_none_of _ (skipn 4 matchers) Hb).
    unfold mcand. cbn [fst snd]. rewrite (Hws 9%N eq_refl). reflexivity.
Qed.

Theorem lex_newline rest : lex_one (10%N :: rest) = Some (1, KNewline).
Proof. vm_compute. reflexivity. Qed.

Definition empty_comment_text : text := map N.of_nat [40; 42; 32; 101; 109; 112; 116; 121; 32; 42; 41].
Theorem lex_empty_comment rest : lex_one (empty_comment_text ++ rest) = Some (11, KComment).
Proof. vm_compute. reflexivity. Qed.

Theorem lex_crlf rest : lex_one (13%N :: 10%N :: rest) = Some (2, KNewline).
Proof. vm_compute. reflexivity. Qed.
Theorem lex_ff rest : lex_one (12%N :: rest) = Some (1, KNewline).
Proof. vm_compute. reflexivity. Qed.

(* any block comment: "( *", a body over which the comment expression's automaton runs without closing, closed by its last two
   characters (so a body ending in '*' before the closing "* )" is none: the recorded finding about "** )") *)
Definition comment_ok (w : text) : bool :=
  match w with
  | 40%N :: 42%N :: b => match comment_body false b 2 with Some n => Nat.eqb n (List.length w) | None => false end
  | _ => false
  end.

Lemma comment_body_app rest : forall b st n m, comment_body st b n = Some m -> comment_body st (b ++ rest) n = Some m.
Proof.
  induction b as [|c b IH]; intros st n m H; [discriminate H|]. cbn [app comment_body] in *.
  destruct st; [destruct (c =? 41)%N; [exact H | apply IH; exact H] | destruct (c =? 42)%N; apply IH; exact H].
Qed.

Lemma lits_at_comment r : Forall (fun c => clen c <= 1) (map (lit_candidate (40%N :: 42%N :: r)) literal_tokens).
Proof. unfold literal_tokens. cbn [map]. repeat (constructor; [vm_compute; lia|]). constructor. Qed.

Lemma others_none_paren r : others_q 40%N r 4 = repeat None 16.
Proof. reflexivity. Qed.

Theorem lex_comment w rest : comment_ok w = true -> lex_one (w ++ rest) = Some (List.length w, KComment).
Proof.
  unfold comment_ok. destruct w as [|c0 [|c1 b]]; [discriminate| |].
  { intro H. exfalso. destruct c0 as [|p0]; [discriminate H|]. repeat (destruct p0 as [p0|p0|]; try discriminate H). }
  intro H.
  destruct c0 as [|p0]; [discriminate H|]. repeat (destruct p0 as [p0|p0|]; try discriminate H).
  destruct c1 as [|p1]; [discriminate H|]. repeat (destruct p1 as [p1|p1|]; try discriminate H).
  destruct (comment_body false b 2) as [n|] eqn:Eb; [|discriminate H]. apply Nat.eqb_eq in H. subst n.
  pose proof (comment_body_app rest b false 2 _ Eb) as Eb'.
  set (w := 40%N :: 42%N :: b) in *.
  assert (Hm : m_comment (w ++ rest) = Some (List.length w)) by (unfold w; cbn [app m_comment]; exact Eb').
  assert (Hlen : 4 <= List.length w).
  { unfold w. destruct b as [|x [|y b']]; [discriminate Eb | |cbn; lia].
    cbn [comment_body] in Eb. destruct (x =? 42)%N; discriminate Eb. }
  pose proof (others_none_paren (42%N :: b ++ rest)) as Ho. unfold others_q in Ho. rewrite map_app in Ho.
  change (repeat None 16) with (@repeat (option nat) None 4 ++ repeat None 12) in Ho.
  apply app_split_len in Ho; [|reflexivity]. destruct Ho as [Ha Hb].
  apply (lex_one_pick (w ++ rest) (List.length w) KComment
           (map (lit_candidate (w ++ rest)) literal_tokens ++ repeat None 4) (repeat None 12)).
  - unfold unclosed_comment. unfold w at 1. cbn [app]. fold w. change (40%N :: 42%N :: b ++ rest) with (w ++ rest). rewrite Hm. reflexivity.
  - lia.
  - assert (Hmm : matchers = firstn 4 matchers ++ (m_comment, KComment) :: skipn 5 matchers) by reflexivity.
    rewrite Hmm at 1. rewrite map_app. cbn [map].
    change (w ++ rest) with (40%N :: 42%N :: b ++ rest) at 2 4.
    rewrite (mcand_none_of _ (firstn 4 matchers) Ha), (mcand_none_of _ (skipn 5 matchers) Hb).
    unfold mcand at 1. cbn [fst snd]. change (40%N :: 42%N :: b ++ rest) with (w ++ rest). rewrite Hm.
    destruct (List.length w) as [|n]; [lia|]. rewrite <- app_assoc. reflexivity.
  - apply Forall_app. split; [|apply clen_none_repeat; lia].
    pose proof (lits_at_comment (b ++ rest)) as Hl. change (40%N :: 42%N :: b ++ rest) with (w ++ rest) in Hl.
    eapply Forall_impl; [|exact Hl]. intros c Hc. cbn beta in Hc. lia.
  - apply clen_none_repeat_le.
Qed.

(* ---- symbols: every pattern without identifier characters, followed by a blank, a line break, or nothing ---- *)
Definition sym_then (cs : text) (row : list N * bool * tok_kind) : Prop :=
  symbolic (pat row) = true -> forall rest, lex_one (pat row ++ cs ++ rest) = Some (List.length (pat row), snd row).

Ltac sym_table :=
  unfold literal_tokens;
  repeat (constructor; [intros Hs rest; first [ (vm_compute in Hs; discriminate Hs) | (vm_compute; reflexivity) ] |]);
  constructor.

Lemma symbols_then_blank : Forall (sym_then [32%N]) literal_tokens.
Proof. sym_table. Qed.
Lemma symbols_then_newline : Forall (sym_then [10%N]) literal_tokens.
Proof. sym_table. Qed.

(* the places where the renderer writes two tokens without a blank between them *)
Lemma dot_then_word : forall c, In c ident_starts -> forall rest, lex_one (46%N :: c :: rest) = Some (1, KPeriod).
Proof.
  intros c Hin rest. unfold ident_starts in Hin. cbn [seq app map N.of_nat] in Hin.
  repeat (destruct Hin as [<-|Hin]; [vm_compute; reflexivity|]). destruct Hin.
Qed.
Lemma hash_then : forall c, In c (ident_starts ++ digit_chars ++ [45%N]) -> forall rest, lex_one (35%N :: c :: rest) = Some (1, KHash).
Proof.
  intros c Hin rest. unfold ident_starts, digit_chars in Hin. cbn [seq app map N.of_nat] in Hin.
  repeat (destruct Hin as [<-|Hin]; [vm_compute; reflexivity|]). destruct Hin.
Qed.
Lemma minus_then_digit : forall c, In c digit_chars -> forall rest, lex_one (45%N :: c :: rest) = Some (1, KMinus).
Proof.
  intros c Hin rest. unfold digit_chars in Hin. cbn [seq map N.of_nat] in Hin.
  repeat (destruct Hin as [<-|Hin]; [vm_compute; reflexivity|]). destruct Hin.
Qed.
Lemma range_then_minus rest : lex_one (46%N :: 46%N :: 45%N :: rest) = Some (2, KRange).
Proof. vm_compute. reflexivity. Qed.
Lemma bracket_then_dot rest : lex_one (93%N :: 46%N :: rest) = Some (1, KRightBracket).
Proof. vm_compute. reflexivity. Qed.
Lemma semicolon_any_symbol_free rest : lex_one (59%N :: rest) = Some (1, KSemicolon).
Proof. vm_compute. reflexivity. Qed.

(* ---- Part 2: a list of tokens ---- *)
(* the text of a token: what it carries, or -- for the keyword tokens the renderer model writes without text -- the pattern
   of its kind in the table *)
Definition spell (t : token) : text := match t_text t with [] => canonical (t_kind t) | w => w end.
Definition spell_all (toks : list token) : text := flat_map spell toks.

Definition lexes_as (t : token) (rest : text) : Prop :=
  spell t <> [] /\ lex_one (spell t ++ rest) = Some (List.length (spell t), t_kind t).

Fixpoint all_lex (toks : list token) : Prop :=
  match toks with
  | [] => True
  | t :: r => lexes_as t (spell_all r) /\ all_lex r
  end.

Definition view (t : token) : tok_kind * text := (t_kind t, spell t).
Definition item_view (i : lex_item) : option (tok_kind * text) :=
  match i with LTok t => Some (t_kind t, t_text t) | LErr _ _ _ _ _ => None end.

Lemma spell_all_length toks : all_lex toks -> List.length toks <= List.length (spell_all toks).
Proof.
  induction toks as [|t r IH]; intro H; [cbn; lia|]. destruct H as [[Hne _] Hr]. cbn [spell_all flat_map List.length].
  rewrite app_length. specialize (IH Hr). unfold spell_all in IH. destruct (spell t); [contradiction Hne; reflexivity | cbn; lia].
Qed.

Theorem lex_loop_tokens toks : forall fuel pos lc, all_lex toks -> List.length (spell_all toks) <= fuel ->
  map item_view (lex_loop fuel (spell_all toks) pos lc) = map (fun t => Some (view t)) toks.
Proof.
  induction toks as [|t r IH]; intros fuel pos lc H Hf.
  - destruct fuel; reflexivity.
  - destruct H as [[Hne Hl] Hr]. cbn [spell_all flat_map] in *. fold (spell_all r) in *. rewrite app_length in Hf.
    destruct fuel as [|fuel]; [destruct (spell t); [contradiction Hne; reflexivity | cbn in Hf; lia]|].
    unfold lex_loop. cbn [lex_loop_with]. fold lex_loop.
    destruct (spell t ++ spell_all r) as [|c0 tl] eqn:Et; [destruct (spell t); [contradiction Hne; reflexivity | discriminate Et]|].
    rewrite Hl. rewrite <- Et. rewrite firstn_app_exact, skipn_app_exact. cbn [map item_view t_kind t_text]. f_equal.
    apply IH; [exact Hr|]. destruct (spell t); [contradiction Hne; reflexivity | cbn in Hf; lia].
Qed.

Theorem lex_items_tokens toks : all_lex toks ->
  map item_view (lex_items (spell_all toks)) = map (fun t => Some (view t)) toks.
Proof. intro H. unfold lex_items. apply lex_loop_tokens; [exact H | lia]. Qed.

(* ---- symbols followed directly by something else: by evaluation, row by row and character by character ---- *)
Definition follow_chars : list N :=
  ident_starts ++ digit_chars ++ [9%N; 13%N; 12%N; 39%N; 34%N; 40; 41; 91; 93; 44; 59; 46; 35; 38; 60; 62; 47; 43; 45; 42; 58; 61]%N.
(* no pattern continues p with c, and p c does not open a comment *)
Definition pair_ok (p : text) (c : N) : bool :=
  negb (existsb (fun row => prefix_eq (p ++ [c]) (pat row)) literal_tokens) &&
  negb (text_eqb p [40%N] && (c =? 42)%N) && negb (text_eqb p [47%N] && (c =? 47)%N).
Definition sym_rows : list (list N * bool * tok_kind) := filter (fun row => symbolic (pat row)) literal_tokens.
Definition sym_then_char (c : N) (row : list N * bool * tok_kind) : Prop :=
  pair_ok (pat row) c = true -> forall rest, lex_one (pat row ++ c :: rest) = Some (List.length (pat row), snd row).

Ltac sym_char_table :=
  repeat (constructor; [intros Hp rest; first [ (vm_compute in Hp; discriminate Hp) | (vm_compute; reflexivity) ] |]);
  constructor.

Lemma sym_rows_value : sym_rows = ltac:(let v := eval vm_compute in sym_rows in exact v).
Proof. vm_compute. reflexivity. Qed.

Lemma symbols_then_char : forall c, In c follow_chars -> Forall (sym_then_char c) sym_rows.
Proof.
  intros c Hin. rewrite sym_rows_value. unfold follow_chars, ident_starts, digit_chars in Hin. cbn [seq app map N.of_nat] in Hin.
  repeat (destruct Hin as [<-|Hin]; [sym_char_table|]). destruct Hin.
Qed.

(* ---- a decidable condition on a token list under which every token is read back ---- *)
Definition nni_b (rest : text) : bool := match rest with [] => true | c :: _ => negb (is_ident_char c) end.
Definition dn_b (rest : text) : bool :=
  match rest with
  | [] => true
  | c :: r => negb (is_digit c) && negb (c =? 95)%N && negb (c =? 35)%N &&
              (negb (c =? 46)%N || match r with [] => true | c2 :: _ => negb (is_digit c2) && negb (c2 =? 95)%N end)
  end.
Definition nnb_b (rest : text) : bool := match rest with [] => true | c :: _ => negb (is_blank c) end.
Definition string_ok (q : N) (w : text) : bool :=
  match w with
  | c :: r => (c =? q)%N && match rev r with l :: b => (l =? q)%N && forallb (fun x => negb (x =? q)%N) b | [] => false end
  | [] => false
  end.
Definition glue (w : text) (c : N) : bool :=
  (text_eqb w [46%N] && is_ident_start c) || (text_eqb w [35%N] && (is_ident_start c || is_digit c || (c =? 45)%N)) ||
  (text_eqb w [45%N] && is_digit c) || (text_eqb w [46%N; 46%N] && (c =? 45)%N) || (text_eqb w [93%N] && (c =? 46)%N) || text_eqb w [59%N].
Definition sym_sep (w : text) (k : tok_kind) (rest : text) : bool :=
  match find (fun row => text_eqb (pat row) w) literal_tokens with
  | Some row => symbolic (pat row) && kind_eqb (snd row) k &&
                match rest with c :: _ => (c =? 32)%N || (c =? 10)%N || glue w c || (existsb (N.eqb c) follow_chars && pair_ok w c) | [] => false end
  | None => false
  end.
Definition tok_sep (t : token) (rest : text) : bool :=
  let w := spell t in let k := t_kind t in
  if wordy w then nni_b rest && kind_eqb (match kw_kind w with Some k' => k' | None => KIdentifier end) k
  else if digits_word w then dn_b rest && kind_eqb KDigits k
  else if string_ok 39 w then kind_eqb KSingleByteString k
  else if string_ok 34 w then kind_eqb KDoubleByteString k
  else if match w with [] => false | _ => forallb is_blank w end then nnb_b rest && kind_eqb KWhitespace k
  else if text_eqb w [10%N] || text_eqb w [13%N; 10%N] || text_eqb w [12%N] then kind_eqb KNewline k
  else if comment_ok w then kind_eqb KComment k
  else sym_sep w k rest.
Fixpoint sep_ok (toks : list token) : bool :=
  match toks with [] => true | t :: r => tok_sep t (spell_all r) && sep_ok r end.

Lemma keq a b : kind_eqb a b = true -> a = b.
Proof. apply GenObligations.kind_eqb_eq. Qed.

Lemma nni_sound rest : nni_b rest = true -> next_not_ident rest.
Proof. destruct rest as [|c r]; [intros _; exact I|]. cbn. intro H. apply negb_true_iff in H. exact H. Qed.
Lemma nnb_sound rest : nnb_b rest = true -> next_not_blank rest.
Proof. destruct rest as [|c r]; [intros _; exact I|]. cbn. intro H. apply negb_true_iff in H. exact H. Qed.
Lemma dn_sound rest : dn_b rest = true -> digits_next rest.
Proof.
  destruct rest as [|c r]; [intros _; exact I|]. cbn [dn_b digits_next]. intro H.
  apply andb_true_iff in H. destruct H as [H H4]. apply andb_true_iff in H. destruct H as [H H3]. apply andb_true_iff in H. destruct H as [H1 H2].
  apply negb_true_iff in H1, H2, H3. apply N.eqb_neq in H2, H3.
  split; [exact H1|]. split; [exact H2|]. split; [exact H3|]. intro E. subst c.
  apply orb_true_iff in H4. destruct H4 as [H4|H4]; [discriminate H4|].
  destruct r as [|c2 r]; [exact I|]. apply andb_true_iff in H4. destruct H4 as [A B]. apply negb_true_iff in A, B. apply N.eqb_neq in B. split; assumption.
Qed.

Lemma string_ok_shape q w : string_ok q w = true -> exists body, w = q :: body ++ [q] /\ forallb (fun x => negb (x =? q)%N) body = true.
Proof.
  unfold string_ok. destruct w as [|c r]; [discriminate|]. intro H. apply andb_true_iff in H. destruct H as [Hc H]. apply N.eqb_eq in Hc. subst c.
  destruct (rev r) as [|l b] eqn:Er; [discriminate|]. apply andb_true_iff in H. destruct H as [Hl Hb]. apply N.eqb_eq in Hl. subst l.
  exists (rev b). split.
  - f_equal. rewrite <- (rev_involutive r), Er. reflexivity.
  - rewrite forallb_forall in *. intros x Hx. apply Hb. apply in_rev. exact Hx.
Qed.

Lemma text_eqb_true a b : text_eqb a b = true -> a = b.
Proof. apply text_eqb_eq. Qed.

Lemma find_in {A} (f : A -> bool) l x : find f l = Some x -> In x l /\ f x = true.
Proof. apply find_some. Qed.

Lemma sym_sep_sound w k rest : w <> [] -> sym_sep w k rest = true -> lex_one (w ++ rest) = Some (List.length w, k).
Proof.
  intros Hne. unfold sym_sep. destruct (find (fun row => text_eqb (pat row) w) literal_tokens) as [row|] eqn:Ef; [|discriminate].
  apply find_in in Ef. destruct Ef as [Hin Hp]. apply text_eqb_true in Hp. intro H.
  apply andb_true_iff in H. destruct H as [H Hn]. apply andb_true_iff in H. destruct H as [Hs Hk]. apply keq in Hk. subst k.
  destruct rest as [|c r]; [discriminate|].
  apply orb_true_iff in Hn. destruct Hn as [Hn|Hf].
  2:{ apply andb_true_iff in Hf. destruct Hf as [Hc Hpo]. apply existsb_exists in Hc. destruct Hc as (c' & Hin' & Ec). apply N.eqb_eq in Ec. subst c'.
      pose proof (symbols_then_char c Hin') as T. rewrite Forall_forall in T.
      assert (Hsr : In row sym_rows) by (unfold sym_rows; apply filter_In; split; [exact Hin | exact Hs]).
      specialize (T row Hsr). unfold sym_then_char in T. rewrite Hp in T. exact (T Hpo r). }
  apply orb_true_iff in Hn. destruct Hn as [Hn|Hg]; [apply orb_true_iff in Hn; destruct Hn as [Hn|Hn]; apply N.eqb_eq in Hn; subst c|].
  - pose proof symbols_then_blank as T. rewrite Forall_forall in T. specialize (T row Hin Hs r). rewrite Hp in T. exact T.
  - pose proof symbols_then_newline as T. rewrite Forall_forall in T. specialize (T row Hin Hs r). rewrite Hp in T. exact T.
  - (* the glued pairs: the kind is that of the first row with this pattern *)
    assert (Hrow : forall p kk, w = p -> lex_one (p ++ c :: r) = Some (List.length p, kk) ->
                   (forall rest', lex_one (p ++ 32%N :: rest') = Some (List.length p, kk)) -> snd row = kk).
    { intros p kk -> _ Hb. pose proof symbols_then_blank as T. rewrite Forall_forall in T. specialize (T row Hin Hs []). rewrite Hp in T.
      cbn [app] in T. rewrite (Hb []) in T. inversion T. reflexivity. }
    unfold glue in Hg. repeat (apply orb_true_iff in Hg; destruct Hg as [Hg|Hg]).
    + apply andb_true_iff in Hg. destruct Hg as [Hw Hc]. apply text_eqb_true in Hw. rewrite Hw in *. cbn [app List.length].
      pose proof (dot_then_word c (ident_start_enum c Hc) r) as L. rewrite L. f_equal. f_equal. symmetry.
      apply (Hrow [46%N] KPeriod eq_refl L). intro rest'. vm_compute. reflexivity.
    + apply andb_true_iff in Hg. destruct Hg as [Hw Hc]. apply text_eqb_true in Hw. rewrite Hw in *. cbn [app List.length].
      assert (Hin' : In c (ident_starts ++ digit_chars ++ [45%N])).
      { apply orb_true_iff in Hc. destruct Hc as [Hc|Hc]; [apply orb_true_iff in Hc; destruct Hc as [Hc|Hc]|].
        - apply in_or_app. left. apply ident_start_enum. exact Hc.
        - apply in_or_app. right. apply in_or_app. left. apply digit_enum. exact Hc.
        - apply N.eqb_eq in Hc. subst c. apply in_or_app. right. apply in_or_app. right. left. reflexivity. }
      pose proof (hash_then c Hin' r) as L. rewrite L. f_equal. f_equal. symmetry.
      apply (Hrow [35%N] KHash eq_refl L). intro rest'. vm_compute. reflexivity.
    + apply andb_true_iff in Hg. destruct Hg as [Hw Hc]. apply text_eqb_true in Hw. rewrite Hw in *. cbn [app List.length].
      pose proof (minus_then_digit c (digit_enum c Hc) r) as L. rewrite L. f_equal. f_equal. symmetry.
      apply (Hrow [45%N] KMinus eq_refl L). intro rest'. vm_compute. reflexivity.
    + apply andb_true_iff in Hg. destruct Hg as [Hw Hc]. apply text_eqb_true in Hw. apply N.eqb_eq in Hc. rewrite Hw in *. rewrite Hc in *. cbn [app List.length].
      pose proof (range_then_minus r) as L. rewrite L. f_equal. f_equal. symmetry.
      apply (Hrow [46%N; 46%N] KRange eq_refl L). intro rest'. vm_compute. reflexivity.
    + apply andb_true_iff in Hg. destruct Hg as [Hw Hc]. apply text_eqb_true in Hw. apply N.eqb_eq in Hc. rewrite Hw in *. rewrite Hc in *. cbn [app List.length].
      pose proof (bracket_then_dot r) as L. rewrite L. f_equal. f_equal. symmetry.
      apply (Hrow [93%N] KRightBracket eq_refl L). intro rest'. vm_compute. reflexivity.
    + apply text_eqb_true in Hg. rewrite Hg in *. cbn [app List.length].
      pose proof (semicolon_any_symbol_free (c :: r)) as L. rewrite L. f_equal. f_equal. symmetry.
      apply (Hrow [59%N] KSemicolon eq_refl L). intro rest'. vm_compute. reflexivity.
Qed.

Theorem tok_sep_sound t rest : tok_sep t rest = true -> lexes_as t rest.
Proof.
  unfold tok_sep, lexes_as. set (w := spell t). set (k := t_kind t).
  destruct (wordy w) eqn:Ew.
  { intro H. apply andb_true_iff in H. destruct H as [Hn Hk]. apply keq in Hk. split; [destruct w; [discriminate Ew | discriminate]|].
    rewrite (lex_word w rest Ew (nni_sound rest Hn)), Hk. reflexivity. }
  destruct (digits_word w) eqn:Ed.
  { intro H. apply andb_true_iff in H. destruct H as [Hn Hk]. apply keq in Hk.
    split; [destruct w; [discriminate Ed | discriminate]|]. rewrite (lex_digits w rest Ed (dn_sound rest Hn)), Hk. reflexivity. }
  destruct (string_ok 39 w) eqn:E1.
  { intro Hk. apply keq in Hk. destruct (string_ok_shape 39%N w E1) as (body & Hw & Hb). rewrite Hw. split; [discriminate|].
    rewrite (lex_string 39%N body rest (or_introl eq_refl) Hb). cbn [N.eqb Pos.eqb]. rewrite Hk. reflexivity. }
  destruct (string_ok 34 w) eqn:E2.
  { intro Hk. apply keq in Hk. destruct (string_ok_shape 34%N w E2) as (body & Hw & Hb). rewrite Hw. split; [discriminate|].
    rewrite (lex_string 34%N body rest (or_intror eq_refl) Hb). cbn [N.eqb Pos.eqb]. rewrite Hk. reflexivity. }
  destruct (match w with [] => false | _ => forallb is_blank w end) eqn:Eb.
  { intro H. apply andb_true_iff in H. destruct H as [Hn Hk]. apply keq in Hk.
    assert (Hne : w <> []) by (destruct w; [discriminate Eb | discriminate]).
    assert (Hd : forallb is_blank w = true) by (destruct w; [discriminate Eb | exact Eb]).
    split; [exact Hne|]. rewrite (lex_blanks w rest Hne Hd (nnb_sound rest Hn)), Hk. reflexivity. }
  destruct (text_eqb w [10%N] || text_eqb w [13%N; 10%N] || text_eqb w [12%N]) eqn:En.
  { intro Hk. apply keq in Hk. apply orb_true_iff in En. destruct En as [En|En]; [apply orb_true_iff in En; destruct En as [En|En]|];
      apply text_eqb_true in En; rewrite En; (split; [discriminate|]); cbn [app].
    - rewrite lex_newline, Hk. reflexivity.
    - rewrite lex_crlf, Hk. reflexivity.
    - rewrite lex_ff, Hk. reflexivity. }
  destruct (comment_ok w) eqn:Ec.
  { intro Hk. apply keq in Hk. split; [destruct w; [discriminate Ec | discriminate]|]. rewrite (lex_comment w rest Ec), Hk. reflexivity. }
  intro H. assert (Hne : w <> []).
  { intro E. rewrite E in H. unfold sym_sep in H. destruct (find (fun row => text_eqb (pat row) []) literal_tokens) as [row|] eqn:Ef; [|discriminate].
    apply find_in in Ef. destruct Ef as [_ Hp]. apply text_eqb_true in Hp. apply andb_true_iff in H. destruct H as [H _]. apply andb_true_iff in H. destruct H as [Hs _].
    rewrite Hp in Hs. discriminate Hs. }
  split; [exact Hne | exact (sym_sep_sound w k rest Hne H)].
Qed.

Theorem sep_ok_sound toks : sep_ok toks = true -> all_lex toks.
Proof.
  induction toks as [|t r IH]; [intros _; exact I|]. cbn [sep_ok all_lex]. intro H. apply andb_true_iff in H. destruct H as [H1 H2].
  split; [apply tok_sep_sound; exact H1 | apply IH; exact H2].
Qed.

(* the text of a token list that passes the check is read back, by the lexer model, as these tokens: their kinds and texts *)
Theorem spelled_tokens_are_read_back toks : sep_ok toks = true ->
  map item_view (lex_items (spell_all toks)) = map (fun t => Some (view t)) toks.
Proof. intro H. apply lex_items_tokens. apply sep_ok_sound. exact H. Qed.
