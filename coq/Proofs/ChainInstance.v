(* The chain of Proofs/ChainDepth.v on the real tokens: for every binary operator of the regenerated table and every
   integer constant token, the expression parser model reads the chain of n operators (2n+1 tokens, no parenthesis) as a
   tree n+1 deep. *)
From Coq Require Import List Arith Lia Bool NArith.
From Verif Require Import Base.Res Gen.GenTokens Model.Lexer Model.ExprParser Proofs.ExprParserProofs Proofs.ExprInstance Proofs.ChainDepth.
Import ListNotations.
Close Scope N_scope.
Open Scope nat_scope.

Notation rchain t lv o x := (chain token binop unop leaf t lv o x (LInt (t_text x))).
Notation rdepth := (depth binop unop leaf).
Notation rparens := (parens token binop unop leaf).

Theorem chain_is_deep : forall k lv o (t x : token) n rest,
  In (k, lv, o) op_kinds -> t_kind t = k -> t_kind x = KDigits ->
  follow_lt token binop tok_triv tok_bop lv rest ->
  rparens (rchain t lv o x n) = 0 /\
  length (flat token binop unop leaf (rchain t lv o x n)) = 2 * n + 1 /\
  exists f0, forall f, f0 <= f -> exists e,
    parse_expr f lv (flat token binop unop leaf (rchain t lv o x n) ++ rest) = Ok (e, rest) /\ rdepth e = S n.
Proof.
  intros k lv o t x n rest Hin Hk Hx Hf.
  destruct (op_kind_ok k lv o t Hin Hk) as (Hb & Ht & Hn).
  destruct (digits_ok x Hx) as (Hxt & Hxa & Hxu).
  split; [apply chain_parens|]. split; [apply chain_length|].
  destruct (parse_expr_spelled (rchain t lv o x n) lv rest) as [f0 H].
  - apply (chain_wf token binop unop leaf tok_triv tok_bop tok_uop tok_atom tok_lp tok_rp tok_noafter t lv o x (LInt (t_text x)) Ht Hb Hn Hxt Hxa Hxu n lv (le_n lv)).
  - exact Hf.
  - unfold follow_ok. rewrite chain_ends. discriminate.
  - exists f0. intros f Hle. eexists. split; [apply H; exact Hle|]. apply chain_depth.
Qed.

(* a concrete one: 1 + 1 + 1 + 1 (three operators) *)
Example chain_example :
  let p := mkToken KPlus 0%N 0%N 0%N 0%N [] in
  let d := mkToken KDigits 0%N 0%N 0%N 0%N [49%N] in
  exists e, parse_expr 40 5 (flat token binop unop leaf (rchain p 5 BAdd d 3)) = Ok (e, []) /\ rdepth e = 4.
Proof. eexists. split; [vm_compute; reflexivity|reflexivity]. Qed.

(* ... and that tree is the one that leans to the left: a chain of any length of one operator associates to the left
   (x o x o x is (x o x) o x), as Annex B.3.1 says of every operator *)
Theorem chain_associates_left : forall k lv o (t x : token) n rest,
  In (k, lv, o) op_kinds -> t_kind t = k -> t_kind x = KDigits ->
  follow_lt token binop tok_triv tok_bop lv rest ->
  exists f0, forall f, f0 <= f ->
    parse_expr f lv (flat token binop unop leaf (rchain t lv o x n) ++ rest)
    = Ok (left_tree binop unop leaf o (LInt (t_text x)) n, rest).
Proof.
  intros k lv o t x n rest Hin Hk Hx Hf.
  destruct (op_kind_ok k lv o t Hin Hk) as (Hb & Ht & Hn).
  destruct (digits_ok x Hx) as (Hxt & Hxa & Hxu).
  destruct (parse_expr_spelled (rchain t lv o x n) lv rest) as [f0 H].
  - apply (chain_wf token binop unop leaf tok_triv tok_bop tok_uop tok_atom tok_lp tok_rp tok_noafter t lv o x (LInt (t_text x)) Ht Hb Hn Hxt Hxa Hxu n lv (le_n lv)).
  - exact Hf.
  - unfold follow_ok. rewrite chain_ends. discriminate.
  - exists f0. intros f Hle. rewrite (H f Hle). rewrite chain_erase. reflexivity.
Qed.
