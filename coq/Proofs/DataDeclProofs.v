(* The alias resolution of data types (Model/DataDecl.v).  Proved here: soundness -- an alias is only ever given the kind of
   a declared type its chain of bases reaches: when the transformation answers with kinds, every alias n with kind k comes
   with a path  root -> ... -> n  of alias declarations of the library whose root is a declaration of kind k.
   Completeness for a library with unique names whose bases come first -- every alias a path connects to a declared type is
   resolved to that type's kind -- is proved in DataDeclComplete.v, with the completeness of the search `reach` (the fuel
   suffices) in ReachProofs.v. *)
From Coq Require Import List NArith Bool Lia.
From Verif Require Import Base.Text Gen.GenRules Model.Rules Model.DataDecl.
Import ListNotations.

(* a path along alias declarations: step b a when  a : b;  is in the library *)
Inductive apath (fs : list dfact) : text -> text -> Prop :=
  | ap_refl n : apath fs n n
  | ap_step r b a : apath fs r b -> In (TyAlias a b) fs -> apath fs r a.

Lemma text_eqb_true a b : text_eqb a b = true -> a = b.
Proof. apply text_eqb_eq. Qed.

(* ---- the walk: where edges and roots come from ---- *)
Definition edges_ok (fs : list dfact) (s : dstate) : Prop := forall b a, In (b, a) (d_edges s) -> In (TyAlias a b) fs.
Definition kind_nodes_ok (fs : list dfact) (s : dstate) : Prop :=
  forall n k, node_data (d_nodes s) n = Some (NdKind k) -> (exists p, In (TyDecl n (Some k) p) fs) /\ mem n (d_decl s) = true.
Definition roots_ok (fs : list dfact) (s : dstate) : Prop :=
  forall n k, In (n, NdKind k) (d_roots s) -> exists p, In (TyDecl n (Some k) p) fs.

Lemma node_data_app nodes n m d : node_data (nodes ++ [(m, d)]) n =
  match node_data nodes n with Some x => Some x | None => if text_eqb m n then Some d else None end.
Proof. induction nodes as [|[m' d'] r IH]; cbn [app node_data]; [reflexivity|]. destruct (text_eqb m' n); [reflexivity | exact IH]. Qed.

Lemma add_node_data nodes m d n : node_data (add_node nodes m d) n =
  match node_data nodes n with Some x => Some x | None => if text_eqb m n then Some d else None end.
Proof.
  unfold add_node. destruct (node_data nodes m) as [x|] eqn:E.
  - destruct (node_data nodes n) as [y|] eqn:E2; [reflexivity|]. destruct (text_eqb m n) eqn:E3; [|reflexivity].
    apply text_eqb_true in E3. subst. congruence.
  - apply node_data_app.
Qed.

Lemma mem_cons n m l : mem n (m :: l) = text_eqb n m || mem n l.
Proof. reflexivity. Qed.

Lemma dstep_inv fs0 s f s' : In f fs0 -> edges_ok fs0 s -> kind_nodes_ok fs0 s -> roots_ok fs0 s -> dstep s f = inl s' ->
  edges_ok fs0 s' /\ kind_nodes_ok fs0 s' /\ roots_ok fs0 s'.
Proof.
  intros Hin He Hk Hr Hs. destruct f as [n [k|] p|n b]; cbn [dstep] in Hs.
  - destruct (node_data (d_nodes s) n) as [d|] eqn:En.
    + destruct (mem n (d_decl s)) eqn:Em; [discriminate|]. injection Hs as <-. split; [exact He|]. split.
      * intros m k' Hm. cbn [d_nodes d_decl] in *. destruct (Hk m k' Hm) as (H1 & H2). split; [exact H1|].
        rewrite mem_cons, H2. apply orb_true_r.
      * intros m k' Hm. cbn [d_roots] in Hm. apply in_app_or in Hm. destruct Hm as [Hm | [Hm | []]]; [apply Hr; exact Hm|].
        injection Hm as <- ->. destruct (Hk n k' En) as (_ & H2). congruence.
    + injection Hs as <-. split; [exact He|]. split.
      * intros m k' Hm. cbn [d_nodes d_decl] in *. rewrite node_data_app in Hm. rewrite mem_cons.
        destruct (node_data (d_nodes s) m) as [x|] eqn:Em.
        -- injection Hm as ->. destruct (Hk m k' Em) as (H1 & H2). split; [exact H1 | rewrite H2; apply orb_true_r].
        -- destruct (text_eqb n m) eqn:E; [|discriminate]. apply text_eqb_true in E. subst m. injection Hm as <-.
           split; [exists p; exact Hin | rewrite text_eqb_refl; reflexivity].
      * intros m k' Hm. cbn [d_roots] in Hm. apply in_app_or in Hm. destruct Hm as [Hm | [Hm | []]]; [apply Hr; exact Hm|].
        injection Hm as <- <-. exists p. exact Hin.
  - injection Hs as <-. split; [exact He | split; [exact Hk | exact Hr]].
  - injection Hs as <-. split; [|split].
    + intros b' a' Hba. cbn [d_edges] in Hba. apply in_app_or in Hba. destruct Hba as [Hba | [Hba | []]]; [apply He; exact Hba|].
      injection Hba as <- <-. exact Hin.
    + intros m k' Hm. cbn [d_nodes d_decl] in *. rewrite !add_node_data in Hm.
      destruct (node_data (d_nodes s) m) as [x|] eqn:Em.
      * injection Hm as ->. apply Hk. exact Em.
      * destruct (text_eqb b m); [discriminate|]. destruct (text_eqb n m); discriminate.
    + exact Hr.
Qed.

Lemma dwalk_inv fs0 fs s s' : incl fs fs0 -> edges_ok fs0 s -> kind_nodes_ok fs0 s -> roots_ok fs0 s -> dwalk s fs = inl s' ->
  edges_ok fs0 s' /\ roots_ok fs0 s'.
Proof.
  revert s. induction fs as [|f fs IH]; intros s Hi He Hk Hr Hw; cbn [dwalk] in Hw.
  - injection Hw as <-. split; assumption.
  - destruct (dstep s f) as [s1|d] eqn:E; [|discriminate].
    destruct (dstep_inv fs0 s f s1 (Hi f (or_introl eq_refl)) He Hk Hr E) as (He1 & Hk1 & Hr1).
    apply (IH s1); try assumption. intros x Hx. apply Hi. right. exact Hx.
Qed.

(* ---- the search only finds what a path leads to ---- *)
Lemma succs_in edges n x : In x (succs edges n) -> In (n, x) edges.
Proof.
  unfold succs. intro H. apply in_map_iff in H. destruct H as ([b a] & <- & Hf). apply filter_In in Hf. destruct Hf as (Hin & E).
  cbn [fst snd] in *. apply text_eqb_true in E. subst. exact Hin.
Qed.

Lemma reach_sound fs edges r : (forall b a, In (b, a) edges -> In (TyAlias a b) fs) ->
  forall fuel frontier seen, (forall x, In x frontier -> apath fs r x) -> (forall x, In x seen -> apath fs r x) ->
  forall x, In x (reach edges fuel frontier seen) -> apath fs r x.
Proof.
  intro He. induction fuel as [|fuel IH]; intros frontier seen Hf Hs x Hx; cbn [reach] in Hx; [apply Hs; exact Hx|].
  destruct (filter (fun n => negb (mem n seen)) frontier) as [|y fresh] eqn:E; [apply Hs; exact Hx|].
  rewrite <- E in Hx. apply (IH _ _) in Hx; [exact Hx | |].
  - intros z Hz. apply in_flat_map in Hz. destruct Hz as (w & Hw & Hz). apply filter_In in Hw. destruct Hw as (Hw & _).
    eapply ap_step; [apply Hf; exact Hw | apply He; apply succs_in; exact Hz].
  - intros z Hz. apply in_app_or in Hz. destruct Hz as [Hz | Hz]; [apply Hs; exact Hz|]. apply filter_In in Hz. apply Hf. exact (proj1 Hz).
Qed.

Lemma node_data_in res n d : node_data res n = Some d -> In (n, d) res.
Proof.
  induction res as [|[m d'] r IH]; cbn [node_data]; [discriminate|]. destruct (text_eqb m n) eqn:E.
  - intro H. injection H as ->. apply text_eqb_true in E. subst. left. reflexivity.
  - intro H. right. apply IH. exact H.
Qed.

Lemma resolved_in s n d : In (n, d) (resolved s) -> exists r, In (r, d) (d_roots s) /\ In n (reach_from s r).
Proof.
  unfold resolved. assert (G : forall roots acc, In (n, d) (fold_left (fun acc rd => map (fun n => (n, snd rd)) (reach_from s (fst rd)) ++ acc) roots acc) ->
                              In (n, d) acc \/ exists r, In (r, d) roots /\ In n (reach_from s r)).
  { induction roots as [|[r dr] roots IH]; intros acc H; cbn [fold_left] in H; [left; exact H|].
    destruct (IH _ H) as [Ha | (r' & Hr' & Hn)].
    - apply in_app_or in Ha. destruct Ha as [Ha | Ha]; [|left; exact Ha]. cbn [fst snd] in Ha. apply in_map_iff in Ha.
      destruct Ha as (x & Ex & Hx). injection Ex as -> ->. right. exists r. split; [left; reflexivity | exact Hx].
    - right. exists r'. split; [right; exact Hr' | exact Hn]. }
  intro H. destruct (G _ _ H) as [[] | X]; exact X.
Qed.

(* soundness: an alias that is given a kind has a path of alias declarations from a declaration of that kind *)
Theorem alias_kind_sound fs s n k : dwalk dinit0 fs = inl s -> alias_kind (resolved s) n = Some k ->
  exists r p, In (TyDecl r (Some k) p) fs /\ apath fs r n.
Proof.
  intros Hw Hk. unfold alias_kind in Hk. destruct (node_data (resolved s) n) as [[k'| |]|] eqn:E; try discriminate. injection Hk as ->.
  destruct (dwalk_inv fs fs dinit0 s (incl_refl _)) as (He & Hr); try assumption.
  - intros b a [].
  - intros m k' H. discriminate H.
  - intros m k' [].
  - apply node_data_in in E. destruct (resolved_in s n (NdKind k) E) as (r & Hroot & Hreach).
    destruct (Hr r k Hroot) as (p & Hp). exists r, p. split; [exact Hp|].
    unfold reach_from in Hreach. eapply reach_sound; [exact He | | | exact Hreach].
    + intros x [<- | []]. apply ap_refl.
    + intros x [].
Qed.

Theorem xform_data_decl_sound fs ks : xform_data_decl fs = inl ks ->
  exists s, dwalk dinit0 fs = inl s /\
    Forall2 (fun n k => exists r p, In (TyDecl r (Some k) p) fs /\ apath fs r n)
            (flat_map (fun f => match f with TyAlias n _ => [n] | _ => [] end) fs) ks.
Proof.
  unfold xform_data_decl. destruct (dwalk dinit0 fs) as [s|d] eqn:Hw; [|discriminate]. intro H. exists s. split; [reflexivity|].
  set (aliases := flat_map (fun f => match f with TyAlias n _ => [n] | _ => [] end) fs) in *.
  destruct (forallb _ _) eqn:Ha; [|discriminate]. injection H as <-.
  clearbody aliases. induction aliases as [|n al IH]; cbn [map flat_map forallb] in *; [constructor|].
  apply andb_prop in Ha. destruct Ha as (H1 & H2). destruct (alias_kind (resolved s) n) as [k|] eqn:E; [|discriminate].
  cbn [app]. constructor; [exact (alias_kind_sound fs s n k Hw E) | exact (IH H2)].
Qed.

(* a second declaration of a declared name is diagnosed, never collapsed (C03) *)
Theorem duplicate_declaration_diagnosed s n k p : mem n (d_decl s) = true -> node_data (d_nodes s) n <> None ->
  dstep s (TyDecl n (Some k) p) = inr (P_DeclarationNameDuplicated, p).
Proof. intros Hm Hn. cbn [dstep]. destruct (node_data (d_nodes s) n); [rewrite Hm; reflexivity | contradiction Hn; reflexivity]. Qed.

(* concrete: the chain  A2 : A1;  A1 : Col;  Col : (r, g);  sorted (bases first) resolves both aliases to an enumeration; written
   aliases first it is answered "not implemented" twice *)
Example ex_sorted :
  xform_data_decl [TyDecl [99%N] (Some DkEnum) 1%N; TyAlias [97%N; 49%N] [99%N]; TyAlias [97%N; 50%N] [97%N; 49%N]] = inl [DkEnum; DkEnum].
Proof. vm_compute. reflexivity. Qed.
Example ex_unsorted :
  xform_data_decl [TyAlias [97%N; 50%N] [97%N; 49%N]; TyAlias [97%N; 49%N] [99%N]; TyDecl [99%N] (Some DkEnum) 1%N] = inr [todo_diag; todo_diag].
Proof. vm_compute. reflexivity. Qed.
