(* The models of Model/DeclRules.v were written for this source: the tables regenerated on every run from the three rule files
   (Gen/GenDeclRules.v) are the ones the models were read off.  A name of the source stands for a component of the model:
     node.type_name -> nm        first -> i_id of the first element of the name (the set holds the reference inserted first)
     element.name   -> i_id of the current element           current -> i_node of the current value
     node.start.value / node.end.value -> the spans of the magnitudes of minimum and maximum
   and the set operations "get, insert" stand for `find_seen` / the `x :: seen` of `scan` (a `replace`, or an insert on the
   Some arm, is another function). *)
From Coq Require Import List String NArith Bool.
From Verif Require Import Base.Text Gen.GenRules Gen.GenDeclRules Model.Analyzer Model.DeclRules.
Import ListNotations.
Local Open Scope string_scope.

Inductive place := PlStructName | PlFirstId | PlCurId | PlCurNode.
Definition place_name (key : string) (p : place) : string :=
  match p with
  | PlStructName => "node.type_name"
  | PlFirstId => "first"
  | PlCurId => if String.eqb key "name" then "element.name" else "current.value"
  | PlCurNode => "current"
  end.
Definition place_span (nm : lspan) (f x : nitem) (p : place) : lspan :=
  match p with PlStructName => nm | PlFirstId => i_id f | PlCurId => i_id x | PlCurNode => i_node x end.

(* the labels of the two scans, as places *)
Definition struct_places : place * list place := (PlStructName, [PlFirstId; PlCurId]).
Definition enum_places : place * list place := (PlFirstId, [PlCurNode]).

Lemma struct_diag_places nm f x :
  struct_diag nm f x = mkLDiag P_StructureDuplicatedElement (place_span nm f x (fst struct_places)) (map (place_span nm f x) (snd struct_places)).
Proof. reflexivity. Qed.
Lemma enum_diag_places nm f x :
  enum_diag f x = mkLDiag P_EnumTypeDeclDuplicateItem (place_span nm f x (fst enum_places)) (map (place_span nm f x) (snd enum_places)).
Proof. reflexivity. Qed.

(* the arms of the comparison, as the model's is_less reads them *)
Definition model_sub_arms : list (string * string) :=
  [("((false, min), (false, max))", "min < max"); ("((true, min), (true, max))", "min > max"); ("((start_is_neg, _), _)", "start_is_neg")].
Lemma is_less_arms lo hi :
  is_less lo hi = match signed_of lo, signed_of hi with
                  | (false, a), (false, b) => N.ltb a b
                  | (true, a), (true, b) => N.ltb b a
                  | (sneg, _), _ => sneg
                  end.
Proof. reflexivity. Qed.
Lemma signed_of_reads s : signed_of s = (fst s && negb (N.eqb (snd s) 0), snd s).
Proof. reflexivity. Qed.

Theorem model_is_the_source :
  gen_struct_scan = (["get"; "insert"], "name", "StructureDuplicatedElement",
                     place_name "name" (fst struct_places), map (place_name "name") (snd struct_places)) /\
  gen_enum_scan = (["get"; "insert"], "value", "EnumTypeDeclDuplicateItem",
                   place_name "value" (fst enum_places), map (place_name "value") (snd enum_places)) /\
  gen_sub_signed = "v.is_neg && v.value.value != 0, v.value.value" /\
  gen_sub_arms = model_sub_arms /\
  gen_sub_labels = ("SubrangeMinStrictlyLessMax", "node.start.value", ["node.end.value"]).
Proof. repeat split; reflexivity. Qed.
