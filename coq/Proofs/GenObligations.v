(* Obligations over the tables regenerated from /repo on every run (coq/Gen).  They are finite
   data, so each is decided by computation; a source edit that changes a table changes the
   subject of these lemmas, and if one no longer holds the build of every property that needs
   it fails. *)
From Coq Require Import List NArith Bool String.
From Verif Require Import Base.Text Gen.GenPipeline Gen.GenTokens Model.Lexer.
Import ListNotations.

(* the steps between the caller's text and the tokens are exactly the ones Model/Lexer.v composes in
   [preprocess] and [tokenize_program] (the translator refuses any other shape of those functions) *)
Lemma gen_pipeline_steps :
  preprocess_steps = ["remove_oscat_comment"%string] /\
  tokenize_program_steps = ["preprocess"; "tokenize"; "insert_keyword_statement_terminators"]%string.
Proof. split; reflexivity. Qed.

(* every regular expression in token.rs is one of the patterns the lexer model implements *)
Definition regexes_known : bool :=
  forallb (fun row : string * bool * tok_kind =>
             let '(pat, ic, _) := row in
             match regex_matcher pat ic with Some _ => true | None => false end) regex_tokens.
Lemma gen_regexes_known : regexes_known = true.
Proof. vm_compute. reflexivity. Qed.

(* the generated kind enumeration is consistent: indices are positions in all_kinds *)
Lemma gen_kinds_indexed :
  map tok_index all_kinds = map N.of_nat (seq 0 (List.length all_kinds)).
Proof. vm_compute. reflexivity. Qed.

Lemma tok_index_inj a b : tok_index a = tok_index b -> a = b.
Proof.
  intro H.
  assert (R : forall k, nth_error all_kinds (N.to_nat (tok_index k)) = Some k)
    by (intro k; destruct k; reflexivity).
  pose proof (R a) as Ra. pose proof (R b) as Rb. rewrite H in Ra. congruence.
Qed.

Lemma kind_eqb_eq a b : kind_eqb a b = true <-> a = b.
Proof.
  unfold kind_eqb. rewrite N.eqb_eq. split; [apply tok_index_inj | intros ->; reflexivity].
Qed.

(* ------------------------------------------------------------------------------------ *)
(* lsp_project.rs legend table (Gen.GenLegend) *)
From Verif Require Import Gen.GenLegend Spec.LspClass.

(* the synthetic ';' inserted after END_IF must never be highlighted (it has no text) *)
Lemma gen_legend_semicolon : legend_of KSemicolon = None.
Proof. reflexivity. Qed.

(* every index is a legend entry whose name is acceptable for the kind; kinds with no
   acceptable class are not highlighted; kinds that must be highlighted are *)
Definition legend_entry_ok (k : tok_kind) : bool :=
  match legend_of k with
  | Some i =>
      match nth_error legend (N.to_nat i) with
      | Some name => existsb (String.eqb name) (allowed_classes k)
      | None => false
      end
  | None => negb (must_highlight k)
  end.
Definition legend_ok : bool := forallb legend_entry_ok all_kinds.
Lemma gen_legend_ok : legend_ok = true.
Proof. vm_compute. reflexivity. Qed.

Lemma all_kinds_complete k : In k all_kinds.
Proof. destruct k; vm_compute; tauto. Qed.

Lemma legend_entry_ok_all k : legend_entry_ok k = true.
Proof.
  pose proof gen_legend_ok as H. unfold legend_ok in H. rewrite forallb_forall in H.
  apply H. apply all_kinds_complete.
Qed.
