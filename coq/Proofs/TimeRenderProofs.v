(* The seconds of a time of day survive rendering: for every second below 60 and every number of microseconds below 10^6
   the rendered text is read back (fixed_parse, daytime) as exactly that many seconds and microseconds.  The digits-level
   fact is decided for all 10^6 values of the microseconds by evaluation (a finite domain, swept completely as
   1000 x 1000), the whole part by the theorem about fixed_parse (LitProofs.fixed_parse_spec). *)
From Coq Require Import List NArith Bool Lia Arith.
From Verif Require Import Base.Text Model.Literals Model.TimeRender Proofs.LitProofs Proofs.TimeSweep.
Import ListNotations.
Open Scope N_scope.

Lemma frac_ok_all micro : micro < 1000000 -> frac_ok micro = true.
Proof.
  intro H. pose proof (all_below_spec 1000 _ sweep (micro / 1000)) as A. cbv beta in A.
  assert (H1 : micro / 1000 < N.of_nat 1000) by (change (N.of_nat 1000) with 1000; apply N.div_lt_upper_bound; lia).
  specialize (A H1). pose proof (all_below_spec 1000 _ A (micro mod 1000)) as Bq. cbv beta in Bq.
  assert (H2 : micro mod 1000 < N.of_nat 1000) by (change (N.of_nat 1000) with 1000; apply N.mod_lt; lia).
  specialize (Bq H2). replace (micro / 1000 * 1000 + micro mod 1000) with micro in Bq; [exact Bq|].
  rewrite N.mul_comm. apply N.div_mod. lia.
Qed.

Lemma two_digits_ok sec : Forall (fun x => x < 10) (two_digits sec).
Proof. unfold two_digits. repeat constructor; apply N.mod_lt; lia. Qed.

Lemma two_digits_value sec : sec < 100 -> horner 10 (two_digits sec) = sec.
Proof.
  intro H. unfold two_digits, horner, horner_from. cbn [fold_left].
  rewrite (N.mod_small (sec / 10) 10) by (apply N.div_lt_upper_bound; lia).
  pose proof (N.div_mod sec 10). lia.
Qed.

Theorem seconds_text_read sec micro : sec < 100 -> micro < 1000000 ->
  fixed_parse (seconds_text sec micro) = Some (sec, micro * 1000000000).
Proof.
  intros Hs Hm. pose proof (frac_ok_all micro Hm) as F. unfold frac_ok in F.
  repeat (apply andb_prop in F; destruct F as [F ?]).
  match goal with H : (_ =? _) = true |- _ => apply N.eqb_eq in H; rename H into Hval end.
  match goal with H : Nat.leb (length _) 6 = true |- _ => apply Nat.leb_le in H; rename H into Hlen end.
  assert (Hd : Forall (fun x => x < 10) (fraction_of_second micro)).
  { apply Forall_forall. intros x Hx. pose proof (proj1 (forallb_forall _ _) F x Hx) as Q. unfold digit_ok in Q. apply N.ltb_lt. exact Q. }
  unfold seconds_text. change (map char_of_digit) with digits_text.
  rewrite (fixed_parse_spec (two_digits sec) (fraction_of_second micro) (two_digits_ok sec) Hd) by discriminate.
  destruct (Nat.ltb 15 (length (fraction_of_second micro))) eqn:E; [apply Nat.ltb_lt in E; lia|].
  rewrite (two_digits_value sec Hs).
  assert (Hlt : sec <? two64 = true) by (apply N.ltb_lt; unfold two64; lia). rewrite Hlt, Hval. reflexivity.
Qed.

Theorem time_of_day_round_trip h m sec micro : h < 24 -> m < 60 -> sec < 60 -> micro < 1000000 ->
  read_back h m sec micro = Some (h, m, sec, micro * 1000).
Proof.
  intros Hh Hmn Hs Hm. unfold read_back. rewrite (seconds_text_read sec micro) by lia. unfold daytime.
  apply N.ltb_lt in Hh, Hmn, Hs. rewrite Hh, Hmn, Hs. cbn [andb].
  replace (micro * 1000000000 / 1000000) with (micro * 1000); [reflexivity|].
  replace (micro * 1000000000) with (micro * 1000 * 1000000) by lia. rewrite N.div_mul by lia. reflexivity.
Qed.

(* the rendering keeps whole seconds as ".00" and never writes more than six digits *)
Example fraction_examples :
  fraction_of_second 0 = [0; 0] /\ fraction_of_second 5000 = [0; 0; 5] /\ fraction_of_second 500000 = [5; 0] /\
  fraction_of_second 250000 = [2; 5] /\ fraction_of_second 1 = [0; 0; 0; 0; 0; 1] /\ fraction_of_second 123450 = [1; 2; 3; 4; 5].
Proof. vm_compute. repeat split; reflexivity. Qed.

(* what the text written before the repair ("{:0>2}" of the microseconds: 5000 -> "5000") was read back as *)
Example old_text_was_wrong :
  match fixed_parse (map char_of_digit [0; 0] ++ 46 :: map char_of_digit [5; 0; 0; 0]) with
  | Some s => daytime 12 0 s
  | None => None
  end = Some (12, 0, 0, 500000000).
Proof. vm_compute. reflexivity. Qed.

(* ---- dates ---- *)
Definition reads (f : N -> text) (v : N) : bool := match integer_new (f v) with Some x => x =? v | None => false end.

Lemma year_sweep : all_below 100 (fun hi => all_below 100 (fun lo => reads year_text (hi * 100 + lo))) = true.
Proof. vm_cast_no_check (eq_refl true). Qed.
Lemma two_sweep : all_below 100 (reads two_text) = true.
Proof. vm_cast_no_check (eq_refl true). Qed.

Lemma reads_spec f v : reads f v = true -> integer_new (f v) = Some v.
Proof. unfold reads. destruct (integer_new (f v)) as [x|]; [|discriminate]. intro H. apply N.eqb_eq in H. congruence. Qed.

Lemma year_read y : y < 10000 -> integer_new (year_text y) = Some y.
Proof.
  intro H. apply reads_spec. pose proof (all_below_spec 100 _ year_sweep (y / 100)) as A. cbv beta in A.
  assert (H1 : y / 100 < N.of_nat 100) by (change (N.of_nat 100) with 100; apply N.div_lt_upper_bound; lia).
  specialize (A H1). pose proof (all_below_spec 100 _ A (y mod 100)) as Bq. cbv beta in Bq.
  assert (H2 : y mod 100 < N.of_nat 100) by (change (N.of_nat 100) with 100; apply N.mod_lt; lia).
  specialize (Bq H2). replace (y / 100 * 100 + y mod 100) with y in Bq; [exact Bq|].
  rewrite N.mul_comm. apply N.div_mod. lia.
Qed.

Lemma two_read v : v < 100 -> integer_new (two_text v) = Some v.
Proof. intro H. apply reads_spec. apply (all_below_spec 100 _ two_sweep v). change (N.of_nat 100) with 100. exact H. Qed.

Lemma days_in_month_le y m : days_in_month y m <= 31.
Proof.
  unfold days_in_month.
  repeat match goal with |- context [if ?c then _ else _] => destruct c end; lia.
Qed.

Theorem date_round_trip y m d : date_literal y m d = Some (y, m, d) -> date_read_back y m d = Some (y, m, d).
Proof.
  intro H. unfold date_read_back. pose proof H as H0. unfold date_literal in H0.
  destruct ((y <=? 9999) && (1 <=? m) && (m <=? 12) && (1 <=? d) && (d <=? days_in_month y m)) eqn:E; [|discriminate].
  repeat (apply andb_prop in E; destruct E as [E ?]).
  repeat match goal with Hx : (_ <=? _) = true |- _ => apply N.leb_le in Hx end.
  pose proof (days_in_month_le y m).
  rewrite (year_read y) by lia. rewrite (two_read m) by lia. rewrite (two_read d) by lia. exact H.
Qed.

Example date_examples :
  date_text 2024 2 29 = [50; 48; 50; 52; 45; 48; 50; 45; 50; 57] /\ date_read_back 2024 2 29 = Some (2024, 2, 29) /\
  date_text 1 1 1 = [48; 48; 48; 49; 45; 48; 49; 45; 48; 49] /\ date_literal 9999 12 31 = Some (9999, 12, 31).
Proof. vm_compute. repeat split; reflexivity. Qed.
