(* The seconds of a time of day survive rendering: for every second below 60 and every number of microseconds below 10^6
   the rendered text is read back (fixed_parse, daytime) as exactly that many seconds and microseconds.  The digits-level
   fact is Proofs/FractionDigits.v (general, no enumeration), the whole part the theorem about fixed_parse
   (LitProofs.fixed_parse_spec). *)
From Coq Require Import List ZArith NArith Bool Lia Arith ZifyBool ZifyN.
From Verif Require Import Base.Text Model.Literals Model.TimeRender Proofs.LitProofs Proofs.FractionDigits Proofs.DurRenderProofs.
Import ListNotations.
Open Scope N_scope.
Ltac Zify.zify_post_hook ::= Z.div_mod_to_equations.

Lemma two_digits_ok sec : Forall (fun x => x < 10) (two_digits sec).
Proof. unfold two_digits. repeat constructor; apply N.mod_lt; lia. Qed.

Lemma two_digits_value sec : sec < 100 -> horner 10 (two_digits sec) = sec.
Proof.
  intro H. unfold two_digits, horner, horner_from. cbn [fold_left].
  rewrite (N.mod_small (sec / 10) 10) by (apply N.div_lt_upper_bound; lia).
  pose proof (N.div_mod sec 10). lia.
Qed.

Theorem seconds_text_read sec micro : sec < 100 -> micro < 1000000 ->
  fixed_parse (seconds_text sec micro) = Some (sec, micro * 1000000000).
Proof.
  intros Hs Hm. destruct (fraction_facts micro Hm) as (Hd & [_ Hlen] & Hval).
  unfold seconds_text. change (map char_of_digit) with digits_text.
  rewrite (fixed_parse_spec (two_digits sec) (fraction_of_second micro) (two_digits_ok sec) Hd) by discriminate.
  destruct (Nat.ltb 15 (length (fraction_of_second micro))) eqn:E; [apply Nat.ltb_lt in E; lia|].
  rewrite (two_digits_value sec Hs).
  assert (Hlt : sec <? two64 = true) by (apply N.ltb_lt; unfold two64; lia). rewrite Hlt, Hval. reflexivity.
Qed.

Theorem time_of_day_round_trip h m sec micro : h < 24 -> m < 60 -> sec < 60 -> micro < 1000000 ->
  read_back h m sec micro = Some (h, m, sec, micro * 1000).
Proof.
  intros Hh Hmn Hs Hm. unfold read_back. rewrite (seconds_text_read sec micro) by lia. unfold daytime.
  apply N.ltb_lt in Hh, Hmn, Hs. rewrite Hh, Hmn, Hs. cbn [andb].
  replace (micro * 1000000000 / 1000000) with (micro * 1000); [reflexivity|].
  replace (micro * 1000000000) with (micro * 1000 * 1000000) by lia. rewrite N.div_mul by lia. reflexivity.
Qed.

(* the rendering keeps whole seconds as ".00" and never writes more than six digits *)
Example fraction_examples :
  fraction_of_second 0 = [0; 0] /\ fraction_of_second 5000 = [0; 0; 5] /\ fraction_of_second 500000 = [5; 0] /\
  fraction_of_second 250000 = [2; 5] /\ fraction_of_second 1 = [0; 0; 0; 0; 0; 1] /\ fraction_of_second 123450 = [1; 2; 3; 4; 5].
Proof. vm_compute. repeat split; reflexivity. Qed.

(* what the text written before the repair ("{:0>2}" of the microseconds: 5000 -> "5000") was read back as *)
Example old_text_was_wrong :
  match fixed_parse (map char_of_digit [0; 0] ++ 46 :: map char_of_digit [5; 0; 0; 0]) with
  | Some s => daytime 12 0 s
  | None => None
  end = Some (12, 0, 0, 500000000).
Proof. vm_compute. reflexivity. Qed.

(* ---- dates ---- *)
Lemma digits4_value y : y < 10000 -> horner 10 (digits4 y) = y.
Proof. intro H. unfold digits4, horner, horner_from. cbn [fold_left]. lia. Qed.
Lemma digits4_digits y : Forall (fun x => x < 10) (digits4 y).
Proof. unfold digits4. repeat constructor; apply N.mod_lt; lia. Qed.

Lemma year_read y : y < 10000 -> integer_new (year_text y) = Some y.
Proof.
  intro H. unfold year_text. change (map char_of_digit) with digits_text.
  rewrite (integer_new_spec (digits4 y) _ (digits_spelled _ (digits4_digits y))) by discriminate.
  rewrite (digits4_value y H). assert (E : y <? two128 = true) by (apply N.ltb_lt; unfold two128; lia). rewrite E. reflexivity.
Qed.

Lemma two_read v : v < 100 -> integer_new (two_text v) = Some v.
Proof.
  intro H. unfold two_text. change (map char_of_digit) with digits_text.
  rewrite (integer_new_spec (two_digits v) _ (digits_spelled _ (two_digits_ok v))) by discriminate.
  rewrite (two_digits_value v H). assert (E : v <? two128 = true) by (apply N.ltb_lt; unfold two128; lia). rewrite E. reflexivity.
Qed.

Lemma days_in_month_le y m : days_in_month y m <= 31.
Proof.
  unfold days_in_month.
  repeat match goal with |- context [if ?c then _ else _] => destruct c end; lia.
Qed.

Theorem date_round_trip y m d : date_literal y m d = Some (y, m, d) -> date_read_back y m d = Some (y, m, d).
Proof.
  intro H. unfold date_read_back. pose proof H as H0. unfold date_literal in H0.
  destruct ((y <=? 9999) && (1 <=? m) && (m <=? 12) && (1 <=? d) && (d <=? days_in_month y m)) eqn:E; [|discriminate].
  repeat (apply andb_prop in E; destruct E as [E ?]).
  repeat match goal with Hx : (_ <=? _) = true |- _ => apply N.leb_le in Hx end.
  pose proof (days_in_month_le y m).
  rewrite (year_read y) by lia. rewrite (two_read m) by lia. rewrite (two_read d) by lia. exact H.
Qed.

Example date_examples :
  date_text 2024 2 29 = [50; 48; 50; 52; 45; 48; 50; 45; 50; 57] /\ date_read_back 2024 2 29 = Some (2024, 2, 29) /\
  date_text 1 1 1 = [48; 48; 48; 49; 45; 48; 49; 45; 48; 49] /\ date_literal 9999 12 31 = Some (9999, 12, 31).
Proof. vm_compute. repeat split; reflexivity. Qed.
