(* C13: a path that does not exist fails every command wherever it stands in the argument list. *)
From Coq Require Import List NArith Bool Permutation.
From Verif Require Import Model.Cli.
Import ListNotations.
Open Scope N_scope.

Section More.
  Variable C : Type.
  Variable fs : path -> node C.
  Variable tok_errs : C -> list code.
  Variable parse_err : C -> option code.
  Variable analysis : list C -> list code.
  Variable render_err : C -> option code.

  Notation enumerate_all := (enumerate_all C fs).
  Notation create_project := (create_project C fs).

  Lemma enumerate_all_missing ps p : In p ps -> fs p = Missing C -> In (P_CANON) (snd (enumerate_all ps)).
  Proof.
    induction ps as [|q r IH]; intros Hin Hm; [contradiction|].
    cbn [Cli.enumerate_all]. destruct (enumerate_all r) as [fs' es] eqn:E. cbn [snd] in IH.
    destruct Hin as [->|Hin].
    - unfold enumerate. rewrite Hm. cbn. left. reflexivity.
    - specialize (IH Hin Hm). destruct (enumerate C fs q) as [l|e]; cbn [snd]; [exact IH | right; exact IH].
  Qed.

  (* a path that does not exist, at ANY position of the argument list, makes the project fail with the diagnostic about it *)
  Theorem missing_path_no_project ps p : In p ps -> fs p = Missing C ->
    exists ds, create_project ps = inr ds /\ In P_CANON ds.
  Proof.
    intros Hin Hm. pose proof (enumerate_all_missing ps p Hin Hm) as H.
    unfold Cli.create_project. destruct (enumerate_all ps) as [files eerrs]. cbn [snd] in H.
    destruct eerrs as [|e es]; [contradiction|]. exists (e :: es). split; [reflexivity | exact H].
  Qed.

  Theorem missing_path_fails ps p : In p ps -> fs p = Missing C ->
    let c := check C fs tok_errs parse_err analysis ps in
    let t := tokenize C fs tok_errs ps in
    let e := echo C fs tok_errs parse_err render_err ps in
    (exit c = 1 /\ ok_line c = false /\ In P_CANON (coded c)) /\
    (exit t = 1 /\ ok_line t = false /\ In P_CANON (coded t)) /\
    (exit e = 1 /\ ok_line e = false /\ In P_CANON (coded e)).
  Proof.
    intros Hin Hm. destruct (missing_path_no_project ps p Hin Hm) as (ds & E & Hd).
    cbv zeta. unfold check, tokenize, echo. rewrite E. cbn. repeat split; exact Hd.
  Qed.
End More.
