(* C13: the exit status of tokenize and echo does not depend on the order of the path arguments. *)
From Coq Require Import List NArith Bool Permutation.
From Verif Require Import Model.Cli Proofs.CliContract Proofs.CliOrder.
Import ListNotations.
Open Scope N_scope.

Section Order2.
  Variable C : Type.
  Variable fs : path -> node C.
  Variable tok_errs : C -> list code.
  Variable parse_err : C -> option code.
  Variable render_err : C -> option code.

  Theorem tokenize_order ps ps' : Permutation ps ps' ->
    (exit (tokenize C fs tok_errs ps) = 0 <-> exit (tokenize C fs tok_errs ps') = 0).
  Proof.
    intro P. pose proof (create_project_perm C fs ps ps' P) as Q.
    destruct (create_project C fs ps) as [cs|ds] eqn:E; destruct (create_project C fs ps') as [cs'|ds'] eqn:E'; try contradiction.
    - destruct (tokenize_contract C fs tok_errs ps cs E) as [T _]. destruct (tokenize_contract C fs tok_errs ps' cs' E') as [T' _].
      rewrite T, T'. split; intros H c Hc; apply H.
      + apply (Permutation_in c (Permutation_sym Q) Hc).
      + apply (Permutation_in c Q Hc).
    - unfold tokenize. rewrite E, E'. cbn. tauto.
  Qed.

  Theorem echo_order ps ps' : Permutation ps ps' ->
    (exit (echo C fs tok_errs parse_err render_err ps) = 0 <-> exit (echo C fs tok_errs parse_err render_err ps') = 0).
  Proof.
    intro P. pose proof (create_project_perm C fs ps ps' P) as Q.
    destruct (create_project C fs ps) as [cs|ds] eqn:E; destruct (create_project C fs ps') as [cs'|ds'] eqn:E'; try contradiction.
    - rewrite (echo_contract C fs tok_errs parse_err render_err ps cs E), (echo_contract C fs tok_errs parse_err render_err ps' cs' E').
      split; intros H c Hc; apply H.
      + apply (Permutation_in c (Permutation_sym Q) Hc).
      + apply (Permutation_in c Q Hc).
    - unfold echo. rewrite E, E'. cbn. tauto.
  Qed.
End Order2.
