(* The declaration layer of Model/DeclParser.v: every well-formed spelling of the variable declaration blocks of a
   function block is parsed to the declarations it denotes, leaving exactly the rest, with an explicit fuel bound.
   Spelled declarations record the tokens and the trivia at every slot. *)
From Coq Require Import List Arith Lia Bool NArith.
From Verif Require Import Base.Res Base.Text Model.ExprParser Model.StParser Model.DeclParser Proofs.StExprProofs.
Import ListNotations.
Close Scope N_scope.
Open Scope nat_scope.

Section G.
  Variable tk : Type.
  Variable cl : tk -> tcl.
  Variable txt : tk -> text.
  Variable num : tk -> N.
  Variable tyname : tk -> text.

  Notation skip := (StParser.skip tk cl).
  Notation next_is := (StParser.next_is tk cl).
  Notation ident := (StParser.ident tk cl txt).
  Notation leaf_of := (StParser.leaf_of tk txt num).
  Notation all_triv := (all_triv tk cl).
  Notation solid := (solid tk cl).
  Notation pconst := (pconst tk cl txt num).
  Notation names_more := (names_more tk cl txt).
  Notation names := (names tk cl txt).
  Notation names_colon := (names_colon tk cl txt).
  Notation spec_init := (spec_init tk cl txt num tyname).
  Notation var_init_decl := (var_init_decl tk cl txt num tyname).
  Notation edge_decl := (edge_decl tk cl txt).
  Notation input_decl := (input_decl tk cl txt num tyname).
  Notation inout_decl := (inout_decl tk cl txt tyname).
  Notation external_decl := (external_decl tk cl txt tyname).
  Notation decls_more := (decls_more tk cl).
  Notation semisep := (semisep tk cl).
  Notation block_rest := (block_rest tk cl).
  Notation retain_qual := (retain_qual tk cl).
  Notation const_qual := (const_qual tk cl).
  Notation block := (block tk cl txt num tyname).
  Notation blocks := (blocks tk cl txt num tyname).
  Notation semisep1 := (semisep1 tk cl).
  Notation block_rest1 := (block_rest1 tk cl).
  Notation fblock := (fblock tk cl txt num tyname).
  Notation fblocks := (fblocks tk cl txt num tyname).

  (* ---- spelled constants ---- *)
  Inductive sconst :=
    | ScTok (t : tk) (k : ckind)
    | ScPlus (p d : tk)
    | ScMinus (m d : tk)
    | ScBool (b h v : tk) (val : bool)
    | ScSignedR (sg d : tk) (neg : bool)                                             (* +1.5  -1.5 *)
    | ScTyped (k : tykw) (ty hs : tk) (sg : option (tk * bool)) (v : tk) (l : sleaf).  (* INT#5 INT#-5 REAL#1.5 WORD#16#FF *)
  Definition flat_c (c : sconst) : list tk :=
    match c with
    | ScTok t _ => [t] | ScPlus p d => [p; d] | ScMinus m d => [m; d] | ScBool b h v _ => [b; h; v]
    | ScSignedR sg d _ => [sg; d]
    | ScTyped _ ty hs sg v _ => ty :: hs :: match sg with Some (s, _) => [s; v] | None => [v] end
    end.
  Definition erase_c (c : sconst) : sleaf :=
    match c with
    | ScTok t k => leaf_of k t
    | ScPlus _ d => LfInt false (num d)
    | ScMinus _ d => LfInt true (num d)
    | ScBool _ _ _ val => LfBool val
    | ScSignedR _ d neg => LfReal None (Some neg) (txt d)
    | ScTyped _ _ _ _ _ l => l
    end.
  Definition wf_c (c : sconst) : Prop :=
    match c with
    | ScTok t k => cl t = CConst k
    | ScPlus p d => cl p = COp BAdd /\ cl d = CConst CkInt
    | ScMinus m d => cl m = CMinus /\ cl d = CConst CkInt
    | ScBool b h v val => cl b = CBoolT /\ cl h = CHash /\ cl v = CConst (if val then CkTrue else CkFalse)
    | ScSignedR sg d neg => cl sg = (if neg then CMinus else COp BAdd) /\ is_real_c (cl d) = true
    | ScTyped k ty hs sg v l =>
        cl ty = CTyKw k /\ cl hs = CHash /\
        match sg with
        | Some (s, b) => cl s = (if b then CMinus else COp BAdd) /\ StParser.typed_leaf tk cl txt num k (Some b) v = Some l
        | None => StParser.typed_leaf tk cl txt num k None v = Some l
        end
    end.

  Lemma pconst_at c r : wf_c c -> pconst (flat_c c ++ r) = Some (erase_c c, r).
  Proof.
    destruct c as [t k|p d|m d|b h v val|sg d neg|k ty hs sg v l]; cbn [wf_c flat_c erase_c app]; unfold DeclParser.pconst.
    - intro H. rewrite H. reflexivity.
    - intros (Hp & Hd). rewrite Hp, Hd. reflexivity.
    - intros (Hm & Hd). rewrite Hm, Hd. reflexivity.
    - intros (Hb & Hh & Hv). rewrite Hb, Hh, Hv. destruct val; reflexivity.
    - intros (H1 & H2). rewrite H1. unfold is_real_c in *.
      destruct (cl d) as [| |k| | | | | | | | | | | |o| | |kw| | |tk0|dk| |] eqn:Ed; try discriminate H2.
      destruct k; try discriminate H2; destruct neg; reflexivity.
    - intros (H1 & H2 & H3). rewrite H1. destruct sg as [[s b]|]; cbn [app].
      + destruct H3 as (Hs & Hl). rewrite H2.
        assert (Es : sign_of (cl s) = Some b) by (rewrite Hs; destruct b; reflexivity). rewrite Es, Hl. reflexivity.
      + rewrite H2. assert (Es : sign_of (cl v) = None).
        { unfold StParser.typed_leaf in H3. destruct (fam k); destruct (cl v) as [| |c| | | | | | | | | | | |o| | |kw| | |tk0|dk| |]; try discriminate H3; reflexivity. }
        rewrite Es, H3. reflexivity.
  Qed.

  Lemma flat_c_head c r : wf_c c -> exists t r', flat_c c ++ r = t :: r' /\ solid t /\ is_lp (cl t) = false.
  Proof.
    destruct c as [t k|p d|m d|b h v val|sg d neg|k ty hs sg v l]; cbn [wf_c flat_c app]; intro H.
    - exists t, r. unfold StExprProofs.solid. rewrite H. repeat split; discriminate.
    - destruct H as (H & _). eexists p, _. unfold StExprProofs.solid. rewrite H. repeat split; discriminate.
    - destruct H as (H & _). eexists m, _. unfold StExprProofs.solid. rewrite H. repeat split; discriminate.
    - destruct H as (H & _). eexists b, _. unfold StExprProofs.solid. rewrite H. repeat split; discriminate.
    - destruct H as (H & _). eexists sg, _. unfold StExprProofs.solid. rewrite H. destruct neg; repeat split; discriminate.
    - destruct H as (H & _). eexists ty, _. unfold StExprProofs.solid. rewrite H. repeat split; discriminate.
  Qed.

  (* ---- spelled name lists:  n1 _ , _ n2 ... ---- *)
  Inductive snmore := NmMore (w1 : list tk) (comma : tk) (w2 : list tk) (n : tk).
  Definition flat_nm (m : snmore) : list tk := match m with NmMore w1 comma w2 n => w1 ++ comma :: w2 ++ [n] end.
  Definition wf_nm (m : snmore) : Prop :=
    match m with NmMore w1 comma w2 n => all_triv w1 /\ cl comma = CComma /\ all_triv w2 /\ cl n = CId end.
  Definition erase_nm (m : snmore) : text := match m with NmMore _ _ _ n => txt n end.
  Definition flat_nms (ms : list snmore) : list tk := concat (map flat_nm ms).

  (* what may follow a name list: trivia, then a token that is no ',' *)
  Definition no_comma_next (rest : list tk) : Prop := next_is is_comma rest = None.

  Lemma names_more_at ms : Forall wf_nm ms -> forall acc rest f, no_comma_next rest -> length ms < f ->
    names_more f acc (flat_nms ms ++ rest) = DOk (acc ++ map erase_nm ms, rest).
  Proof.
    induction ms as [|[w1 comma w2 n] ms IH]; intros Hms acc rest f Hrest Hf.
    - destruct f as [|f]; [cbn in Hf; lia|]. cbn [flat_nms map concat app DeclParser.names_more]. rewrite Hrest, app_nil_r. reflexivity.
    - destruct f as [|f]; [cbn in Hf; lia|]. cbn [length] in Hf.
      pose proof (Forall_inv Hms) as (Hw1 & Hcomma & Hw2 & Hn). pose proof (Forall_inv_tail Hms) as Hms'.
      unfold flat_nms. cbn [map concat flat_nm]. fold (flat_nms ms).
      replace (((w1 ++ comma :: w2 ++ [n]) ++ flat_nms ms) ++ rest) with (w1 ++ comma :: w2 ++ n :: flat_nms ms ++ rest)
        by (repeat (rewrite <- app_assoc; cbn [app]); reflexivity).
      cbn [DeclParser.names_more].
      assert (Hsc : solid comma) by (unfold StExprProofs.solid; rewrite Hcomma; discriminate).
      assert (Hsn : solid n) by (unfold StExprProofs.solid; rewrite Hn; discriminate).
      rewrite (next_is_at tk cl _ w1 comma _ Hw1 Hsc) by (rewrite Hcomma; reflexivity).
      rewrite (skip_app_triv tk cl w2 _ Hw2), (skip_solid tk cl n _ Hsn), (ident_at tk cl txt n _ Hn).
      rewrite (IH Hms' (acc ++ [txt n]) rest f Hrest) by lia. cbn [map erase_nm]. rewrite <- app_assoc. reflexivity.
  Qed.

  Record snames := mkNames { nm_first : tk; nm_more : list snmore }.
  Definition flat_ns (ns : snames) : list tk := nm_first ns :: flat_nms (nm_more ns).
  Definition wf_ns (ns : snames) : Prop := cl (nm_first ns) = CId /\ Forall wf_nm (nm_more ns).
  Definition erase_ns (ns : snames) : list text := txt (nm_first ns) :: map erase_nm (nm_more ns).

  (* names _ ':' _ *)
  Lemma names_colon_at ns w1 colon w2 rest f : wf_ns ns -> all_triv w1 -> cl colon = CColon -> all_triv w2 ->
    skip rest = rest -> length (nm_more ns) < f ->
    names_colon f (flat_ns ns ++ w1 ++ colon :: w2 ++ rest) = DOk (erase_ns ns, rest).
  Proof.
    intros (Hn & Hms) Hw1 Hcolon Hw2 Hrest Hf. unfold DeclParser.names_colon, DeclParser.names, flat_ns, erase_ns.
    cbn [app]. rewrite (ident_at tk cl txt (nm_first ns) _ Hn).
    assert (Hsc : solid colon) by (unfold StExprProofs.solid; rewrite Hcolon; discriminate).
    assert (Hnc : no_comma_next (w1 ++ colon :: w2 ++ rest))
      by (unfold no_comma_next; apply (next_is_not tk cl _ w1 colon _ Hw1 Hsc); rewrite Hcolon; reflexivity).
    rewrite (names_more_at (nm_more ns) Hms [txt (nm_first ns)] _ f Hnc Hf). cbn [app].
    rewrite Hnc. rewrite (next_is_at tk cl _ w1 colon _ Hw1 Hsc) by (rewrite Hcolon; reflexivity).
    rewrite (skip_app_triv tk cl w2 _ Hw2), Hrest. reflexivity.
  Qed.

  (* ---- spelled specifications (what follows the ':' in VAR, VAR_INPUT, VAR_OUTPUT) ---- *)
  Inductive sspec :=
    | SpElem (t : tk)                                                         (* INT *)
    | SpElemInit (t : tk) (w1 : list tk) (a : tk) (w2 : list tk) (c : sconst)  (* INT := 5 *)
    | SpNamed (t : tk)                                                        (* T *)
    | SpNamedInit (t : tk) (w1 : list tk) (a : tk) (w2 : list tk) (c : sconst) (* T := 5 *)
    | SpNamedEnum (t : tk) (w1 : list tk) (a : tk) (w2 : list tk) (v : tk).    (* T := Red *)
  Definition flat_sp (s : sspec) : list tk :=
    match s with
    | SpElem t | SpNamed t => [t]
    | SpElemInit t w1 a w2 c | SpNamedInit t w1 a w2 c => t :: w1 ++ a :: w2 ++ flat_c c
    | SpNamedEnum t w1 a w2 v => t :: w1 ++ a :: w2 ++ [v]
    end.
  Definition erase_sp (s : sspec) : dinit :=
    match s with
    | SpElem t => DSimple (tyname t) None
    | SpElemInit t _ _ _ c => DSimple (tyname t) (Some (erase_c c))
    | SpNamed t => DLate (txt t)
    | SpNamedInit t _ _ _ c => DSimple (txt t) (Some (erase_c c))
    | SpNamedEnum t _ _ _ v => DEnumType (txt t) (txt v)
    end.
  Definition wf_sp (s : sspec) : Prop :=
    match s with
    | SpElem t => is_type (cl t) = true
    | SpElemInit t w1 a w2 c => is_type (cl t) = true /\ all_triv w1 /\ cl a = CAssign /\ all_triv w2 /\ wf_c c
    | SpNamed t => cl t = CId
    | SpNamedInit t w1 a w2 c => cl t = CId /\ all_triv w1 /\ cl a = CAssign /\ all_triv w2 /\ wf_c c
    | SpNamedEnum t w1 a w2 v => cl t = CId /\ all_triv w1 /\ cl a = CAssign /\ all_triv w2 /\ cl v = CId
    end.

  (* what follows a declaration: trivia and ';' *)
  Definition semi_follow (rest : list tk) : Prop := exists w semi r, rest = w ++ semi :: r /\ all_triv w /\ cl semi = CSemi.

  Lemma semi_follow_facts rest : semi_follow rest ->
    next_is is_assign rest = None /\ next_is is_lp rest = None /\ next_is is_comma rest = None /\
    next_is (is_dk DkREdge) rest = None /\ next_is (is_dk DkFEdge) rest = None.
  Proof.
    intros (w & semi & r & -> & Hw & Hsemi).
    assert (Hs : solid semi) by (unfold StExprProofs.solid; rewrite Hsemi; discriminate).
    repeat split; apply (next_is_not tk cl _ w semi r Hw Hs); rewrite Hsemi; reflexivity.
  Qed.

  Lemma is_type_not_id c : is_type c = true -> c <> CId.
  Proof. destruct c; try discriminate; intros _; discriminate. Qed.

  Lemma spec_init_at s rest : wf_sp s -> semi_follow rest -> spec_init (flat_sp s ++ rest) = DOk (erase_sp s, rest).
  Proof.
    intros Hs Hrest. destruct (semi_follow_facts rest Hrest) as (Fa & Fl & _).
    destruct s as [t|t w1 a w2 c|t|t w1 a w2 c|t w1 a w2 v]; cbn [wf_sp flat_sp erase_sp app] in *; unfold DeclParser.spec_init.
    - rewrite Hs, Fa. unfold DeclParser.next_lp. rewrite Fl. reflexivity.
    - destruct Hs as (Ht & Hw1 & Ha & Hw2 & Hc). rewrite Ht.
      assert (Hsa : solid a) by (unfold StExprProofs.solid; rewrite Ha; discriminate).
      rewrite <- !app_assoc. cbn [app]. rewrite <- !app_assoc.
      rewrite (next_is_at tk cl _ w1 a _ Hw1 Hsa) by (rewrite Ha; reflexivity).
      rewrite (skip_app_triv tk cl w2 _ Hw2).
      destruct (flat_c_head c rest Hc) as (t0 & r0 & E & St0 & _). rewrite E, (skip_solid tk cl t0 r0 St0), <- E.
      rewrite (pconst_at c rest Hc). reflexivity.
    - assert (Hnt : is_type (cl t) = false) by (rewrite Hs; reflexivity). rewrite Hnt, Hs, Fa. reflexivity.
    - destruct Hs as (Ht & Hw1 & Ha & Hw2 & Hc).
      assert (Hnt : is_type (cl t) = false) by (rewrite Ht; reflexivity). rewrite Hnt, Ht.
      assert (Hsa : solid a) by (unfold StExprProofs.solid; rewrite Ha; discriminate).
      rewrite <- !app_assoc. cbn [app]. rewrite <- !app_assoc.
      rewrite (next_is_at tk cl _ w1 a _ Hw1 Hsa) by (rewrite Ha; reflexivity).
      rewrite (skip_app_triv tk cl w2 _ Hw2).
      destruct (flat_c_head c rest Hc) as (t0 & r0 & E & St0 & _). rewrite E, (skip_solid tk cl t0 r0 St0), <- E.
      rewrite (pconst_at c rest Hc). reflexivity.
    - destruct Hs as (Ht & Hw1 & Ha & Hw2 & Hv).
      assert (Hnt : is_type (cl t) = false) by (rewrite Ht; reflexivity). rewrite Hnt, Ht.
      assert (Hsa : solid a) by (unfold StExprProofs.solid; rewrite Ha; discriminate).
      assert (Hsv : solid v) by (unfold StExprProofs.solid; rewrite Hv; discriminate).
      rewrite <- !app_assoc. cbn [app]. rewrite <- !app_assoc. cbn [app].
      rewrite (next_is_at tk cl _ w1 a _ Hw1 Hsa) by (rewrite Ha; reflexivity).
      rewrite (skip_app_triv tk cl w2 _ Hw2), (skip_solid tk cl v _ Hsv).
      unfold DeclParser.pconst. rewrite Hv.
      unfold DeclParser.next_lp. rewrite (next_is_not tk cl _ w2 v _ Hw2 Hsv) by (rewrite Hv; reflexivity).
      rewrite (ident_at tk cl txt v _ Hv). reflexivity.
  Qed.

  Lemma flat_sp_head s r : wf_sp s -> exists t r', flat_sp s ++ r = t :: r' /\ solid t.
  Proof.
    assert (Ty : forall t, is_type (cl t) = true -> solid t).
    { intros t H. unfold StExprProofs.solid. destruct (cl t); try discriminate; intros _ ; discriminate. }
    assert (Id : forall t, cl t = CId -> solid t) by (intros t H; unfold StExprProofs.solid; rewrite H; discriminate).
    destruct s as [t|t w1 a w2 c|t|t w1 a w2 c|t w1 a w2 v]; cbn [wf_sp flat_sp app]; intro H; eexists t, _; (split; [reflexivity|]).
    - apply Ty. exact H.
    - apply Ty. exact (proj1 H).
    - apply Id. exact H.
    - apply Id. exact (proj1 H).
    - apply Id. exact (proj1 H).
  Qed.

  (* ---- spelled declarations ---- *)
  Inductive sdecl :=
    | SdVar (ns : snames) (w1 : list tk) (colon : tk) (w2 : list tk) (s : sspec)
    | SdEdge (ns : snames) (w1 : list tk) (colon : tk) (w2 : list tk) (b : tk) (w3 : list tk) (e : tk) (rising : bool)
    | SdInOut (ns : snames) (w1 : list tk) (colon : tk) (w2 : list tk) (t : tk)
    | SdExt (n : tk) (w1 : list tk) (colon : tk) (w2 : list tk) (t : tk).

  Definition flat_d (d : sdecl) : list tk :=
    match d with
    | SdVar ns w1 colon w2 s => flat_ns ns ++ w1 ++ colon :: w2 ++ flat_sp s
    | SdEdge ns w1 colon w2 b w3 e _ => flat_ns ns ++ w1 ++ colon :: w2 ++ b :: w3 ++ [e]
    | SdInOut ns w1 colon w2 t => flat_ns ns ++ w1 ++ colon :: w2 ++ [t]
    | SdExt n w1 colon w2 t => n :: w1 ++ colon :: w2 ++ [t]
    end.
  Definition type_text (t : tk) : text := if is_type (cl t) then tyname t else txt t.
  Definition erase_d (c : dclass) (d : sdecl) : list ditem :=
    match d with
    | SdVar ns _ _ _ s => map (fun n => DVar n c DqNone (erase_sp s)) (erase_ns ns)
    | SdEdge ns _ _ _ _ _ _ rising => map (fun n => DEdge n rising DqNone) (erase_ns ns)
    | SdInOut ns _ _ _ t => map (fun n => DVar n DcInOut DqNone (DLate (type_text t))) (erase_ns ns)
    | SdExt n _ _ _ t => [DVar (txt n) DcExternal DqNone (DSimple (type_text t) None)]
    end.
  Definition is_tyref (t : tk) : Prop := is_type (cl t) = true \/ cl t = CId.
  (* which form a block of class c admits *)
  Definition wf_d (c : dclass) (d : sdecl) : Prop :=
    match d with
    | SdVar ns w1 colon w2 s =>
        (c = DcInput \/ c = DcOutput \/ c = DcVar) /\ wf_ns ns /\ all_triv w1 /\ cl colon = CColon /\ all_triv w2 /\ wf_sp s
    | SdEdge ns w1 colon w2 b w3 e rising =>
        c = DcInput /\ wf_ns ns /\ all_triv w1 /\ cl colon = CColon /\ all_triv w2 /\ cl b = CBoolT /\ all_triv w3 /\
        cl e = CDk (if rising then DkREdge else DkFEdge)
    | SdInOut ns w1 colon w2 t => c = DcInOut /\ wf_ns ns /\ all_triv w1 /\ cl colon = CColon /\ all_triv w2 /\ is_tyref t
    | SdExt n w1 colon w2 t => c = DcExternal /\ cl n = CId /\ all_triv w1 /\ cl colon = CColon /\ all_triv w2 /\ is_tyref t
    end.
  Definition size_d (d : sdecl) : nat :=
    match d with
    | SdVar ns _ _ _ _ | SdEdge ns _ _ _ _ _ _ _ | SdInOut ns _ _ _ _ => 1 + length (nm_more ns)
    | SdExt _ _ _ _ _ => 1
    end.

  (* the parser of one declaration in a block of class c *)
  Definition decl_parser (c : dclass) : nat -> list tk -> dres (list ditem * list tk) :=
    match c with
    | DcInput => input_decl
    | DcOutput => var_init_decl DcOutput
    | DcVar => var_init_decl DcVar
    | DcInOut => inout_decl
    | DcExternal => external_decl
    end.

  Lemma sp_skip s rest : wf_sp s -> skip (flat_sp s ++ rest) = flat_sp s ++ rest.
  Proof. intro H. destruct (flat_sp_head s rest H) as (t & r' & E & St). rewrite E. apply skip_solid. exact St. Qed.

  Lemma var_init_decl_at c ns w1 colon w2 s rest f :
    wf_ns ns -> all_triv w1 -> cl colon = CColon -> all_triv w2 -> wf_sp s -> semi_follow rest -> length (nm_more ns) < f ->
    var_init_decl c f ((flat_ns ns ++ w1 ++ colon :: w2 ++ flat_sp s) ++ rest) =
    DOk (map (fun n => DVar n c DqNone (erase_sp s)) (erase_ns ns), rest).
  Proof.
    intros Hns Hw1 Hcolon Hw2 Hs Hrest Hf. unfold DeclParser.var_init_decl.
    replace ((flat_ns ns ++ w1 ++ colon :: w2 ++ flat_sp s) ++ rest) with (flat_ns ns ++ w1 ++ colon :: w2 ++ (flat_sp s ++ rest))
      by (repeat (rewrite <- app_assoc; cbn [app]); reflexivity).
    rewrite (names_colon_at ns w1 colon w2 (flat_sp s ++ rest) f Hns Hw1 Hcolon Hw2 (sp_skip s rest Hs) Hf).
    rewrite (spec_init_at s rest Hs Hrest). reflexivity.
  Qed.

  (* an ordinary declaration is not an edge declaration *)
  Lemma edge_decl_fails ns w1 colon w2 s rest f :
    wf_ns ns -> all_triv w1 -> cl colon = CColon -> all_triv w2 -> wf_sp s -> semi_follow rest -> length (nm_more ns) < f ->
    edge_decl f ((flat_ns ns ++ w1 ++ colon :: w2 ++ flat_sp s) ++ rest) = DFail.
  Proof.
    intros Hns Hw1 Hcolon Hw2 Hs Hrest Hf. unfold DeclParser.edge_decl.
    replace ((flat_ns ns ++ w1 ++ colon :: w2 ++ flat_sp s) ++ rest) with (flat_ns ns ++ w1 ++ colon :: w2 ++ (flat_sp s ++ rest))
      by (repeat (rewrite <- app_assoc; cbn [app]); reflexivity).
    rewrite (names_colon_at ns w1 colon w2 (flat_sp s ++ rest) f Hns Hw1 Hcolon Hw2 (sp_skip s rest Hs) Hf).
    destruct (semi_follow_facts rest Hrest) as (Fa & _ & _ & Fr & Ff).
    assert (Edge_after_assign : forall w a r0, all_triv w -> cl a = CAssign ->
              next_is (is_dk DkREdge) (w ++ a :: r0) = None /\ next_is (is_dk DkFEdge) (w ++ a :: r0) = None).
    { intros w a r0 Hw Ha. assert (Hsa : solid a) by (unfold StExprProofs.solid; rewrite Ha; discriminate).
      split; apply (next_is_not tk cl _ w a r0 Hw Hsa); rewrite Ha; reflexivity. }
    destruct s as [t|t w1' a w2' c|t|t w1' a w2' c|t w1' a w2' v]; cbn [wf_sp flat_sp app] in *.
    - destruct (cl t); try reflexivity. rewrite Fr, Ff. reflexivity.
    - destruct Hs as (_ & Hw1' & Ha & _). destruct (cl t); try reflexivity.
      rewrite <- !app_assoc. cbn [app]. rewrite (proj1 (Edge_after_assign w1' a _ Hw1' Ha)), (proj2 (Edge_after_assign w1' a _ Hw1' Ha)). reflexivity.
    - rewrite Hs. reflexivity.
    - destruct Hs as (Ht & _). rewrite Ht. reflexivity.
    - destruct Hs as (Ht & _). rewrite Ht. reflexivity.
  Qed.

  Lemma type_text_elem t : is_type (cl t) = true -> type_text t = tyname t.
  Proof. unfold type_text. intros ->. reflexivity. Qed.
  Lemma type_text_id t : cl t = CId -> type_text t = txt t.
  Proof. unfold type_text. intros ->. reflexivity. Qed.

  Lemma tyref_solid t : is_tyref t -> solid t.
  Proof.
    unfold StExprProofs.solid. intros [H|H]; [destruct (cl t); try discriminate; intros _; discriminate | rewrite H; discriminate].
  Qed.

  (* one declaration, in the block of its class *)
  Lemma decl_at c d rest f : wf_d c d -> semi_follow rest -> size_d d <= f ->
    decl_parser c f (flat_d d ++ rest) = DOk (erase_d c d, rest).
  Proof.
    intros Hd Hrest Hf. destruct (semi_follow_facts rest Hrest) as (Fa & Fl & Fc & Fr & Ff).
    destruct d as [ns w1 colon w2 s|ns w1 colon w2 b w3 e rising|ns w1 colon w2 t|n w1 colon w2 t]; cbn [wf_d flat_d erase_d size_d] in *.
    - destruct Hd as (Hc & Hns & Hw1 & Hcolon & Hw2 & Hs).
      destruct Hc as [-> | [-> | ->]]; cbn [decl_parser].
      + unfold DeclParser.input_decl. rewrite (edge_decl_fails ns w1 colon w2 s rest f) by (try assumption; lia).
        apply var_init_decl_at; try assumption; try lia.
      + apply var_init_decl_at; try assumption; try lia.
      + apply var_init_decl_at; try assumption; try lia.
    - destruct Hd as (-> & Hns & Hw1 & Hcolon & Hw2 & Hb & Hw3 & He). cbn [decl_parser].
      unfold DeclParser.input_decl, DeclParser.edge_decl.
      assert (Hsb : solid b) by (unfold StExprProofs.solid; rewrite Hb; discriminate).
      assert (Hse : solid e) by (unfold StExprProofs.solid; rewrite He; discriminate).
      replace ((flat_ns ns ++ w1 ++ colon :: w2 ++ b :: w3 ++ [e]) ++ rest) with (flat_ns ns ++ w1 ++ colon :: w2 ++ (b :: w3 ++ e :: rest))
        by (repeat (rewrite <- app_assoc; cbn [app]); reflexivity).
      rewrite (names_colon_at ns w1 colon w2 (b :: w3 ++ e :: rest) f Hns Hw1 Hcolon Hw2 (skip_solid tk cl b _ Hsb)) by lia.
      rewrite Hb. destruct rising.
      + rewrite (next_is_at tk cl _ w3 e rest Hw3 Hse) by (rewrite He; reflexivity). reflexivity.
      + rewrite (next_is_not tk cl _ w3 e rest Hw3 Hse) by (rewrite He; reflexivity).
        rewrite (next_is_at tk cl _ w3 e rest Hw3 Hse) by (rewrite He; reflexivity). reflexivity.
    - destruct Hd as (-> & Hns & Hw1 & Hcolon & Hw2 & Ht). cbn [decl_parser]. unfold DeclParser.inout_decl.
      replace ((flat_ns ns ++ w1 ++ colon :: w2 ++ [t]) ++ rest) with (flat_ns ns ++ w1 ++ colon :: w2 ++ (t :: rest))
        by (repeat (rewrite <- app_assoc; cbn [app]); reflexivity).
      rewrite (names_colon_at ns w1 colon w2 (t :: rest) f Hns Hw1 Hcolon Hw2 (skip_solid tk cl t _ (tyref_solid t Ht))) by lia.
      destruct Ht as [Ht|Ht].
      + rewrite Ht. unfold DeclParser.next_lp. rewrite Fl. rewrite (type_text_elem t Ht). reflexivity.
      + assert (Hnt : is_type (cl t) = false) by (rewrite Ht; reflexivity). rewrite Hnt, Ht, (type_text_id t Ht). reflexivity.
    - destruct Hd as (-> & Hn & Hw1 & Hcolon & Hw2 & Ht). cbn [decl_parser app]. unfold DeclParser.external_decl.
      rewrite (ident_at tk cl txt n _ Hn).
      assert (Hsc : solid colon) by (unfold StExprProofs.solid; rewrite Hcolon; discriminate).
      rewrite <- !app_assoc. cbn [app].
      rewrite (next_is_at tk cl _ w1 colon _ Hw1 Hsc) by (rewrite Hcolon; reflexivity).
      rewrite <- app_assoc. cbn [app].
      rewrite (skip_app_triv tk cl w2 _ Hw2), (skip_solid tk cl t _ (tyref_solid t Ht)).
      destruct Ht as [Ht|Ht].
      + rewrite Ht, (type_text_elem t Ht). reflexivity.
      + assert (Hnt : is_type (cl t) = false) by (rewrite Ht; reflexivity). rewrite Hnt, Ht, (type_text_id t Ht). reflexivity.
  Qed.

  (* no declaration starts at a token that is no identifier *)
  Lemma decl_fails c f t r : cl t <> CId -> decl_parser c f (t :: r) = DFail.
  Proof.
    intro Ht.
    assert (I : ident (t :: r) = None) by (unfold StParser.ident; destruct (cl t); try reflexivity; contradiction Ht; reflexivity).
    assert (N : names_colon f (t :: r) = DFail) by (unfold DeclParser.names_colon, DeclParser.names; rewrite I; reflexivity).
    destruct c; cbn [decl_parser]; unfold DeclParser.input_decl, DeclParser.edge_decl, DeclParser.var_init_decl, DeclParser.inout_decl,
      DeclParser.external_decl; rewrite ?N, ?I; reflexivity.
  Qed.

  Lemma flat_d_head d r c : wf_d c d -> exists t r', flat_d d ++ r = t :: r' /\ solid t.
  Proof.
    assert (Id : forall t, cl t = CId -> solid t) by (intros t H; unfold StExprProofs.solid; rewrite H; discriminate).
    destruct d as [ns w1 colon w2 s|ns w1 colon w2 b w3 e rising|ns w1 colon w2 t|n w1 colon w2 t]; cbn [wf_d flat_d flat_ns app]; intro H.
    - eexists (nm_first ns), _. split; [reflexivity|]. apply Id. exact (proj1 (proj1 (proj2 H))).
    - eexists (nm_first ns), _. split; [reflexivity|]. apply Id. exact (proj1 (proj1 (proj2 H))).
    - eexists (nm_first ns), _. split; [reflexivity|]. apply Id. exact (proj1 (proj1 (proj2 H))).
    - eexists n, _. split; [reflexivity|]. apply Id. exact (proj1 (proj2 H)).
  Qed.

  (* ---- the declarations of a block:  d1 _ ; _ d2 ... dn _ ;   or just  ; ---- *)
  Inductive sdmore := DmMore (w1 : list tk) (semi : tk) (w2 : list tk) (d : sdecl).
  Definition flat_dm (m : sdmore) : list tk := match m with DmMore w1 semi w2 d => w1 ++ semi :: w2 ++ flat_d d end.
  Definition flat_dms (ms : list sdmore) : list tk := concat (map flat_dm ms).
  Definition wf_dm (c : dclass) (m : sdmore) : Prop :=
    match m with DmMore w1 semi w2 d => all_triv w1 /\ cl semi = CSemi /\ all_triv w2 /\ wf_d c d end.
  Definition erase_dm (c : dclass) (m : sdmore) : list ditem := match m with DmMore _ _ _ d => erase_d c d end.
  Definition size_dm (m : sdmore) : nat := match m with DmMore _ _ _ d => size_d d end.

  Inductive sdecls :=
    | DsNone (w : list tk) (semi : tk)                                   (* an empty block still needs its ';' *)
    | DsSome (d : sdecl) (ms : list sdmore) (w : list tk) (semi : tk).
  Definition flat_ds (l : sdecls) : list tk :=
    match l with
    | DsNone w semi => w ++ [semi]
    | DsSome d ms w semi => flat_d d ++ flat_dms ms ++ w ++ [semi]
    end.
  Definition erase_ds (c : dclass) (l : sdecls) : list ditem :=
    match l with
    | DsNone _ _ => []
    | DsSome d ms _ _ => erase_d c d ++ flat_map (erase_dm c) ms
    end.
  (* in DsNone the trivia before the ';' is the trivia after the block keyword (read by the block), hence empty here *)
  Definition wf_ds (c : dclass) (l : sdecls) : Prop :=
    match l with
    | DsNone w semi => w = [] /\ cl semi = CSemi
    | DsSome d ms w semi => wf_d c d /\ Forall (wf_dm c) ms /\ all_triv w /\ cl semi = CSemi
    end.
  Fixpoint size_dms (ms : list sdmore) : nat := match ms with [] => 0 | m :: r => size_dm m + 1 + size_dms r end.
  Definition size_ds (l : sdecls) : nat :=
    match l with DsNone _ _ => 1 | DsSome d ms _ _ => size_d d + 1 + size_dms ms + 1 end.

  (* the end of a block: trivia and END_VAR *)
  Definition end_follow (rest : list tk) : Prop := exists w e r, rest = w ++ e :: r /\ all_triv w /\ cl e = CDk DkEndVar.

  Lemma dms_follow c ms w semi r : Forall (wf_dm c) ms -> all_triv w -> cl semi = CSemi -> semi_follow (flat_dms ms ++ w ++ semi :: r).
  Proof.
    intros Hms Hw Hsemi. destruct ms as [|[mw1 msemi mw2 md] ms'].
    - exists w, semi, r. cbn. repeat split; assumption.
    - apply Forall_inv in Hms. destruct Hms as (H1 & H2 & _). eexists mw1, msemi, _. unfold flat_dms. cbn [map concat flat_dm].
      rewrite <- !app_assoc. cbn [app]. split; [reflexivity|]. split; assumption.
  Qed.

  Lemma decls_more_at c ms : Forall (wf_dm c) ms -> forall acc w semi rest f, all_triv w -> cl semi = CSemi -> end_follow rest ->
    size_dms ms + 1 <= f ->
    decls_more (decl_parser c) f acc (flat_dms ms ++ w ++ semi :: rest) = DOk (acc ++ flat_map (erase_dm c) ms, w ++ semi :: rest).
  Proof.
    induction ms as [|[mw1 msemi mw2 md] ms IH]; intros Hms acc w semi rest f Hw Hsemi Hrest Hf.
    - destruct f as [|f]; [lia|]. cbn [flat_dms map concat app flat_map DeclParser.decls_more].
      assert (Hss : solid semi) by (unfold StExprProofs.solid; rewrite Hsemi; discriminate).
      rewrite (next_is_at tk cl _ w semi rest Hw Hss) by (rewrite Hsemi; reflexivity).
      destruct Hrest as (ew & e & er & -> & Hew & He).
      assert (Hse : solid e) by (unfold StExprProofs.solid; rewrite He; discriminate).
      rewrite (skip_app_triv tk cl ew _ Hew), (skip_solid tk cl e er Hse).
      rewrite decl_fails by (rewrite He; discriminate). rewrite app_nil_r. reflexivity.
    - cbn [size_dms size_dm] in Hf. destruct f as [|f]; [lia|].
      pose proof (Forall_inv Hms) as (H1 & H2 & H3 & H4). pose proof (Forall_inv_tail Hms) as Hms'.
      unfold flat_dms. cbn [map concat flat_dm flat_map erase_dm]. fold (flat_dms ms).
      replace (((mw1 ++ msemi :: mw2 ++ flat_d md) ++ flat_dms ms) ++ w ++ semi :: rest)
        with (mw1 ++ msemi :: mw2 ++ flat_d md ++ flat_dms ms ++ w ++ semi :: rest)
        by (repeat (rewrite <- app_assoc; cbn [app]); reflexivity).
      cbn [DeclParser.decls_more].
      assert (Hss : solid msemi) by (unfold StExprProofs.solid; rewrite H2; discriminate).
      rewrite (next_is_at tk cl _ mw1 msemi _ H1 Hss) by (rewrite H2; reflexivity).
      rewrite (skip_app_triv tk cl mw2 _ H3).
      destruct (flat_d_head md (flat_dms ms ++ w ++ semi :: rest) c H4) as (t0 & r0 & E & St0).
      rewrite E, (skip_solid tk cl t0 r0 St0), <- E.
      rewrite (decl_at c md _ f H4 (dms_follow c ms w semi rest Hms' Hw Hsemi)) by lia.
      rewrite (IH Hms' (acc ++ erase_d c md) w semi rest f Hw Hsemi Hrest) by lia.
      rewrite <- app_assoc. reflexivity.
  Qed.

  Lemma semisep_at c l rest f : wf_ds c l -> end_follow rest -> size_ds l <= f ->
    semisep (decl_parser c) f (flat_ds l ++ rest) = DOk (erase_ds c l, rest).
  Proof.
    intros Hl Hrest Hf. destruct l as [w semi|d ms w semi]; cbn [wf_ds flat_ds erase_ds size_ds] in *.
    - destruct Hl as (-> & Hsemi). cbn [app]. unfold DeclParser.semisep.
      rewrite decl_fails by (rewrite Hsemi; discriminate).
      assert (Hss : solid semi) by (unfold StExprProofs.solid; rewrite Hsemi; discriminate).
      rewrite (next_is_at tk cl _ [] semi rest (Forall_nil _) Hss) by (rewrite Hsemi; reflexivity). reflexivity.
    - destruct Hl as (Hd & Hms & Hw & Hsemi). unfold DeclParser.semisep.
      replace ((flat_d d ++ flat_dms ms ++ w ++ [semi]) ++ rest) with (flat_d d ++ flat_dms ms ++ w ++ semi :: rest)
        by (repeat (rewrite <- app_assoc; cbn [app]); reflexivity).
      rewrite (decl_at c d _ f Hd (dms_follow c ms w semi rest Hms Hw Hsemi)) by lia.
      rewrite (decls_more_at c ms Hms (erase_d c d) w semi rest f Hw Hsemi Hrest) by lia.
      assert (Hss : solid semi) by (unfold StExprProofs.solid; rewrite Hsemi; discriminate).
      rewrite (next_is_at tk cl _ w semi rest Hw Hss) by (rewrite Hsemi; reflexivity). reflexivity.
  Qed.

  (* ---- blocks ---- *)
  Inductive sqkw := QNone | QSome (w : list tk) (q : tk).
  Record sblock := mkBlock { bk_kw : tk; bk_q : sqkw; bk_w : list tk; bk_ds : sdecls; bk_wend : list tk; bk_end : tk }.

  Definition flat_q (q : sqkw) : list tk := match q with QNone => [] | QSome w t => w ++ [t] end.
  Definition flat_bk (b : sblock) : list tk :=
    bk_kw b :: flat_q (bk_q b) ++ bk_w b ++ flat_ds (bk_ds b) ++ bk_wend b ++ [bk_end b].

  Definition class_of (c : tcl) : option dclass :=
    match c with
    | CDk DkVarInput => Some DcInput | CDk DkVarOutput => Some DcOutput | CDk DkVarInOut => Some DcInOut
    | CDk DkVarExternal => Some DcExternal | CDk DkVar => Some DcVar
    | _ => None
    end.
  Definition qual_of (q : sqkw) : option dqual :=
    match q with
    | QNone => Some DqNone
    | QSome _ t => match cl t with
                   | CDk DkConstant => Some DqConst | CDk DkRetain => Some DqRetain | CDk DkNonRetain => Some DqNonRetain
                   | _ => None
                   end
    end.
  (* which qualifier a block of a class admits *)
  Definition qual_ok (c : dclass) (q : dqual) : bool :=
    match c, q with
    | _, DqNone => true
    | DcInput, DqRetain | DcInput, DqNonRetain | DcOutput, DqRetain | DcOutput, DqNonRetain => true
    | DcExternal, DqConst => true
    | DcVar, _ => true
    | _, _ => false
    end.

  Definition wf_bk (b : sblock) : Prop :=
    exists c q, class_of (cl (bk_kw b)) = Some c /\ qual_of (bk_q b) = Some q /\ qual_ok c q = true /\
      (match bk_q b with QNone => True | QSome w _ => all_triv w end) /\
      all_triv (bk_w b) /\ wf_ds c (bk_ds b) /\ all_triv (bk_wend b) /\ cl (bk_end b) = CDk DkEndVar.
  Definition erase_bk (b : sblock) : list ditem :=
    match class_of (cl (bk_kw b)), qual_of (bk_q b) with
    | Some c, Some q => map (set_qual q) (erase_ds c (bk_ds b))
    | _, _ => []
    end.
  Definition size_bk (b : sblock) : nat := size_ds (bk_ds b).

  (* the first token of a declaration list: a name or the ';' of an empty block *)
  Lemma flat_ds_head c l r : wf_ds c l -> exists t r', flat_ds l ++ r = t :: r' /\ solid t /\ (cl t = CId \/ cl t = CSemi).
  Proof.
    destruct l as [w semi|d ms w semi]; cbn [wf_ds flat_ds].
    - intros (-> & Hsemi). cbn [app]. eexists semi, _. split; [reflexivity|]. unfold StExprProofs.solid. rewrite Hsemi. split; [discriminate | right; reflexivity].
    - intros (Hd & _). rewrite <- !app_assoc.
      destruct d as [ns w1 colon w2 s0|ns w1 colon w2 b w3 e rising|ns w1 colon w2 t|n w1 colon w2 t]; cbn [wf_d flat_d flat_ns app] in *.
      + destruct Hd as (_ & (Hn & _) & _). eexists (nm_first ns), _. split; [reflexivity|]. unfold StExprProofs.solid. rewrite Hn. split; [discriminate | left; reflexivity].
      + destruct Hd as (_ & (Hn & _) & _). eexists (nm_first ns), _. split; [reflexivity|]. unfold StExprProofs.solid. rewrite Hn. split; [discriminate | left; reflexivity].
      + destruct Hd as (_ & (Hn & _) & _). eexists (nm_first ns), _. split; [reflexivity|]. unfold StExprProofs.solid. rewrite Hn. split; [discriminate | left; reflexivity].
      + destruct Hd as (_ & Hn & _). eexists n, _. split; [reflexivity|]. unfold StExprProofs.solid. rewrite Hn. split; [discriminate | left; reflexivity].
  Qed.

  Lemma block_rest_at c q w l wend e rest f : all_triv w -> wf_ds c l -> all_triv wend -> cl e = CDk DkEndVar -> size_ds l <= f ->
    block_rest (decl_parser c) q f (w ++ flat_ds l ++ wend ++ e :: rest) = DOk (map (set_qual q) (erase_ds c l), rest).
  Proof.
    intros Hw Hl Hwend He Hf. unfold DeclParser.block_rest.
    rewrite (skip_app_triv tk cl w _ Hw).
    destruct (flat_ds_head c l (wend ++ e :: rest) Hl) as (t0 & r0 & E & St0 & _). rewrite E, (skip_solid tk cl t0 r0 St0), <- E.
    rewrite (semisep_at c l (wend ++ e :: rest) f Hl) by (try assumption; exists wend, e, rest; auto).
    assert (Hse : solid e) by (unfold StExprProofs.solid; rewrite He; discriminate).
    rewrite (next_is_at tk cl _ wend e rest Hwend Hse) by (rewrite He; reflexivity). reflexivity.
  Qed.

  (* where a declaration list starts, no qualifier keyword stands *)
  Lemma no_kw_at_ds c w l r k : all_triv w -> wf_ds c l -> next_is (is_dk k) (w ++ flat_ds l ++ r) = None.
  Proof.
    intros Hw Hl. destruct (flat_ds_head c l r Hl) as (t0 & r0 & E & St0 & Hc). rewrite E.
    apply (next_is_not tk cl _ w t0 r0 Hw St0). destruct Hc as [-> | ->]; destruct k; reflexivity.
  Qed.

  Lemma block_at b rest f : wf_bk b -> size_bk b <= f -> block f (flat_bk b ++ rest) = DOk (erase_bk b, rest).
  Proof.
    intros (c & q & Hc & Hq & Hok & Hqw & Hw & Hl & Hwend & He) Hf. unfold size_bk in Hf. unfold erase_bk. rewrite Hc, Hq.
    destruct b as [kw sq w l wend e]. cbn [bk_kw bk_q bk_w bk_ds bk_wend bk_end] in *. unfold flat_bk. cbn [bk_kw bk_q bk_w bk_ds bk_wend bk_end app].
    unfold DeclParser.block.
    replace ((flat_q sq ++ w ++ flat_ds l ++ wend ++ [e]) ++ rest) with (flat_q sq ++ w ++ flat_ds l ++ wend ++ e :: rest)
      by (repeat (rewrite <- app_assoc; cbn [app]); reflexivity).
    set (tail := w ++ flat_ds l ++ wend ++ e :: rest).
    assert (Hrest : forall q', block_rest (decl_parser c) q' f tail = DOk (map (set_qual q') (erase_ds c l), rest))
      by (intro q'; unfold tail; apply block_rest_at; assumption).
    assert (Hno : forall k, next_is (is_dk k) tail = None) by (intro k; unfold tail; apply (no_kw_at_ds c); assumption).
    (* the qualifier token, when there is one *)
    assert (Hqual : forall qw qt k, sq = QSome qw qt -> cl qt = CDk k ->
              next_is (is_dk k) (flat_q sq ++ tail) = Some tail /\
              (forall k', k' <> k -> next_is (is_dk k') (flat_q sq ++ tail) = None)).
    { intros qw qt k -> Hk. cbn [flat_q]. rewrite <- app_assoc. cbn [app].
      assert (Hsq : solid qt) by (unfold StExprProofs.solid; rewrite Hk; discriminate).
      split.
      - apply (next_is_at tk cl _ qw qt tail Hqw Hsq). rewrite Hk. destruct k; reflexivity.
      - intros k' Hne. apply (next_is_not tk cl _ qw qt tail Hqw Hsq). rewrite Hk. destruct k; destruct k'; try reflexivity; contradiction Hne; reflexivity. }
    destruct (cl kw) as [| |k0| | | | | | | | | | | |o| | |k1| | | |dk| |] eqn:Ekw; try discriminate Hc.
    destruct dk; try discriminate Hc; injection Hc as <-; cbn [decl_parser] in *.
    - (* VAR *)
      destruct sq as [|qw qt]; cbn [qual_of flat_q app] in *.
      + injection Hq as <-. unfold DeclParser.const_qual. rewrite (Hno DkConstant). rewrite (Hrest DqNone). reflexivity.
      + destruct (cl qt) as [| |k0| | | | | | | | | | | |o| | |k1| | | |dk| |] eqn:Eqt; try discriminate Hq.
        destruct dk; try discriminate Hq; injection Hq as <-.
        * (* CONSTANT *)
          destruct (Hqual qw qt DkConstant eq_refl Eqt) as (Q1 & _). unfold DeclParser.const_qual. rewrite Q1. apply Hrest.
        * (* RETAIN: VAR without qualifier fails at RETAIN, then the retentive form *)
          destruct (Hqual qw qt DkRetain eq_refl Eqt) as (Q1 & Q2). unfold DeclParser.const_qual. rewrite (Q2 DkConstant) by discriminate.
          assert (Hsq : solid qt) by (unfold StExprProofs.solid; rewrite Eqt; discriminate).
          assert (F : block_rest (decl_parser DcVar) DqNone f ((qw ++ [qt]) ++ tail) = DFail).
          { unfold DeclParser.block_rest, DeclParser.semisep. rewrite <- app_assoc. cbn [app].
            rewrite (skip_app_triv tk cl qw _ Hqw), (skip_solid tk cl qt _ Hsq).
            rewrite (decl_fails DcVar f qt tail) by (rewrite Eqt; discriminate).
            unfold StParser.next_is. rewrite (skip_solid tk cl qt _ Hsq), Eqt. reflexivity. }
          cbn [decl_parser] in F. rewrite F. unfold DeclParser.retain_qual. rewrite Q1. apply Hrest.
        * (* NON_RETAIN *)
          destruct (Hqual qw qt DkNonRetain eq_refl Eqt) as (Q1 & Q2). unfold DeclParser.const_qual. rewrite (Q2 DkConstant) by discriminate.
          assert (Hsq : solid qt) by (unfold StExprProofs.solid; rewrite Eqt; discriminate).
          assert (F : block_rest (decl_parser DcVar) DqNone f ((qw ++ [qt]) ++ tail) = DFail).
          { unfold DeclParser.block_rest, DeclParser.semisep. rewrite <- app_assoc. cbn [app].
            rewrite (skip_app_triv tk cl qw _ Hqw), (skip_solid tk cl qt _ Hsq).
            rewrite (decl_fails DcVar f qt tail) by (rewrite Eqt; discriminate).
            unfold StParser.next_is. rewrite (skip_solid tk cl qt _ Hsq), Eqt. reflexivity. }
          cbn [decl_parser] in F. rewrite F. unfold DeclParser.retain_qual. rewrite (Q2 DkRetain) by discriminate. rewrite Q1. apply Hrest.
    - (* VAR_INPUT *)
      destruct sq as [|qw qt]; cbn [qual_of flat_q app] in *.
      + injection Hq as <-. unfold DeclParser.retain_qual. rewrite (Hno DkRetain), (Hno DkNonRetain). apply Hrest.
      + destruct (cl qt) as [| |k0| | | | | | | | | | | |o| | |k1| | | |dk| |] eqn:Eqt; try discriminate Hq.
        destruct dk; try discriminate Hq; injection Hq as <-; try discriminate Hok.
        * destruct (Hqual qw qt DkRetain eq_refl Eqt) as (Q1 & _). unfold DeclParser.retain_qual. rewrite Q1. apply Hrest.
        * destruct (Hqual qw qt DkNonRetain eq_refl Eqt) as (Q1 & Q2). unfold DeclParser.retain_qual. rewrite (Q2 DkRetain) by discriminate. rewrite Q1. apply Hrest.
    - (* VAR_OUTPUT *)
      destruct sq as [|qw qt]; cbn [qual_of flat_q app] in *.
      + injection Hq as <-. unfold DeclParser.retain_qual. rewrite (Hno DkRetain), (Hno DkNonRetain). apply Hrest.
      + destruct (cl qt) as [| |k0| | | | | | | | | | | |o| | |k1| | | |dk| |] eqn:Eqt; try discriminate Hq.
        destruct dk; try discriminate Hq; injection Hq as <-; try discriminate Hok.
        * destruct (Hqual qw qt DkRetain eq_refl Eqt) as (Q1 & _). unfold DeclParser.retain_qual. rewrite Q1. apply Hrest.
        * destruct (Hqual qw qt DkNonRetain eq_refl Eqt) as (Q1 & Q2). unfold DeclParser.retain_qual. rewrite (Q2 DkRetain) by discriminate. rewrite Q1. apply Hrest.
    - (* VAR_IN_OUT *)
      destruct sq as [|qw qt]; cbn [qual_of flat_q app] in *.
      + injection Hq as <-. apply Hrest.
      + destruct (cl qt) as [| |k0| | | | | | | | | | | |o| | |k1| | | |dk| |]; try discriminate Hq.
        destruct dk; try discriminate Hq; injection Hq as <-; discriminate Hok.
    - (* VAR_EXTERNAL *)
      destruct sq as [|qw qt]; cbn [qual_of flat_q app] in *.
      + injection Hq as <-. unfold DeclParser.const_qual. rewrite (Hno DkConstant). apply Hrest.
      + destruct (cl qt) as [| |k0| | | | | | | | | | | |o| | |k1| | | |dk| |] eqn:Eqt; try discriminate Hq.
        destruct dk; try discriminate Hq; injection Hq as <-; try discriminate Hok.
        destruct (Hqual qw qt DkConstant eq_refl Eqt) as (Q1 & _). unfold DeclParser.const_qual. rewrite Q1. apply Hrest.
  Qed.

  (* ---- the sequence of blocks:  _ block _ block ...  ---- *)
  Inductive swb := WB (w : list tk) (b : sblock).
  Definition flat_wb (x : swb) : list tk := match x with WB w b => w ++ flat_bk b end.
  Definition flat_wbs (l : list swb) : list tk := concat (map flat_wb l).
  Definition wf_wb (x : swb) : Prop := match x with WB w b => all_triv w /\ wf_bk b end.
  Definition erase_wb (x : swb) : list ditem := match x with WB _ b => erase_bk b end.
  Fixpoint size_wbs (l : list swb) : nat := match l with [] => 0 | WB _ b :: r => size_bk b + 1 + size_wbs r end.

  Definition block_start (c : tcl) : bool :=
    match c with CDk DkVar | CDk DkVarInput | CDk DkVarOutput | CDk DkVarInOut | CDk DkVarExternal => true | _ => false end.
  (* what follows the blocks starts no block *)
  Definition no_block_next (rest : list tk) : Prop :=
    match skip rest with t :: _ => block_start (cl t) = false | [] => True end.

  Lemma block_fails f rest : no_block_next rest -> block f (skip rest) = DFail.
  Proof.
    unfold no_block_next, DeclParser.block. destruct (skip rest) as [|t r]; [reflexivity|]. intro H.
    destruct (cl t) as [| |k0| | | | | | | | | | | |o| | |k1| | | |dk| |]; try reflexivity. destruct dk; try reflexivity; discriminate H.
  Qed.

  Lemma flat_bk_skip b r : wf_bk b -> skip (flat_bk b ++ r) = flat_bk b ++ r.
  Proof.
    intros (c & q & Hc & _). unfold flat_bk. cbn [app]. apply skip_solid. unfold StExprProofs.solid.
    destruct (cl (bk_kw b)); try discriminate Hc. discriminate.
  Qed.

  Theorem blocks_spelled l : Forall wf_wb l -> forall acc rest f, no_block_next rest -> size_wbs l + 1 <= f ->
    blocks f acc (flat_wbs l ++ rest) = DOk (acc ++ flat_map erase_wb l, rest).
  Proof.
    induction l as [|[w b] l IH]; intros Hl acc rest f Hrest Hf.
    - destruct f as [|f]; [lia|]. cbn [flat_wbs map concat app flat_map DeclParser.blocks].
      rewrite (block_fails f rest Hrest), app_nil_r. reflexivity.
    - cbn [size_wbs] in Hf. destruct f as [|f]; [lia|].
      pose proof (Forall_inv Hl) as (Hw & Hb). pose proof (Forall_inv_tail Hl) as Hl'.
      unfold flat_wbs. cbn [map concat flat_wb flat_map erase_wb]. fold (flat_wbs l).
      replace (((w ++ flat_bk b) ++ flat_wbs l) ++ rest) with (w ++ flat_bk b ++ flat_wbs l ++ rest)
        by (repeat (rewrite <- app_assoc; cbn [app]); reflexivity).
      cbn [DeclParser.blocks]. rewrite (skip_app_triv tk cl w _ Hw), (flat_bk_skip b _ Hb).
      rewrite (block_at b (flat_wbs l ++ rest) f Hb) by lia.
      rewrite (IH Hl' (acc ++ erase_bk b) rest f Hrest) by lia. rewrite <- app_assoc. reflexivity.
  Qed.

  (* ---- the declaration blocks of a FUNCTION: inputs, outputs and in-outs as above; VAR [CONSTANT] with at least one
          declaration ---- *)
  Definition wf_fbk (b : sblock) : Prop :=
    wf_bk b /\
    match class_of (cl (bk_kw b)) with
    | Some DcVar => (qual_of (bk_q b) = Some DqNone \/ qual_of (bk_q b) = Some DqConst) /\
                    match bk_ds b with DsSome _ _ _ _ => True | DsNone _ _ => False end
    | Some DcExternal => False
    | _ => True
    end.
  Definition wf_fwb (x : swb) : Prop := match x with WB w b => all_triv w /\ wf_fbk b end.

  Lemma wf_fwb_wb x : wf_fwb x -> wf_wb x.
  Proof. destruct x as [w b]. intros (Hw & Hb & _). split; assumption. Qed.

  Lemma block_rest1_at q w d ms w' semi wend e rest f :
    all_triv w -> wf_ds DcVar (DsSome d ms w' semi) -> all_triv wend -> cl e = CDk DkEndVar -> size_ds (DsSome d ms w' semi) <= f ->
    block_rest1 (decl_parser DcVar) q f (w ++ flat_ds (DsSome d ms w' semi) ++ wend ++ e :: rest) =
    DOk (map (set_qual q) (erase_ds DcVar (DsSome d ms w' semi)), rest).
  Proof.
    intros Hw Hl Hwend He Hf.
    pose proof (block_rest_at DcVar q w (DsSome d ms w' semi) wend e rest f Hw Hl Hwend He Hf) as B.
    unfold DeclParser.block_rest1, DeclParser.semisep1. unfold DeclParser.block_rest in B.
    destruct Hl as (Hd & Hms & Hw' & Hsemi). cbn [size_ds] in Hf.
    assert (E : exists x, decl_parser DcVar f (skip (w ++ flat_ds (DsSome d ms w' semi) ++ wend ++ e :: rest)) = DOk x).
    { rewrite (skip_app_triv tk cl w _ Hw). cbn [flat_ds].
      replace ((flat_d d ++ flat_dms ms ++ w' ++ [semi]) ++ wend ++ e :: rest) with (flat_d d ++ flat_dms ms ++ w' ++ semi :: wend ++ e :: rest)
        by (repeat (rewrite <- app_assoc; cbn [app]); reflexivity).
      destruct (flat_d_head d (flat_dms ms ++ w' ++ semi :: wend ++ e :: rest) DcVar Hd) as (t0 & r0 & E0 & St0).
      rewrite E0, (skip_solid tk cl t0 r0 St0), <- E0.
      rewrite (decl_at DcVar d _ f Hd (dms_follow DcVar ms w' semi _ Hms Hw' Hsemi)) by lia. eexists. reflexivity. }
    destruct E as (x & E). rewrite E. exact B.
  Qed.

  Lemma fblock_at b rest f : wf_fbk b -> size_bk b <= f -> fblock f (flat_bk b ++ rest) = DOk (erase_bk b, rest).
  Proof.
    intros (Hb & Hx) Hf. pose proof (block_at b rest f Hb Hf) as B.
    destruct Hb as (c & q & Hc & Hq & Hok & Hqw & Hw & Hl & Hwend & He). rewrite Hc in Hx. unfold size_bk in Hf.
    destruct b as [kw sq w l wend e]. cbn [bk_kw bk_q bk_w bk_ds bk_wend bk_end] in *.
    unfold flat_bk in *. cbn [bk_kw bk_q bk_w bk_ds bk_wend bk_end app] in *. unfold DeclParser.fblock.
    destruct (cl kw) as [| |k0| | | | | | | | | | | |o| | |k1| | | |dk| |] eqn:Ekw; try discriminate Hc.
    destruct dk; try discriminate Hc; injection Hc as <-; try exact B; try contradiction Hx.
    (* VAR *)
    destruct Hx as (Hq2 & Hds). destruct l as [lw lsemi|d ms w' semi]; [contradiction Hds|].
    unfold erase_bk. cbn [bk_kw bk_q bk_ds]. rewrite Ekw. cbn [class_of]. rewrite Hq.
    replace ((flat_q sq ++ w ++ flat_ds (DsSome d ms w' semi) ++ wend ++ [e]) ++ rest)
      with (flat_q sq ++ w ++ flat_ds (DsSome d ms w' semi) ++ wend ++ e :: rest)
      by (repeat (rewrite <- app_assoc; cbn [app]); reflexivity).
    set (tail := w ++ flat_ds (DsSome d ms w' semi) ++ wend ++ e :: rest).
    assert (Hrest : forall q', block_rest1 (decl_parser DcVar) q' f tail = DOk (map (set_qual q') (erase_ds DcVar (DsSome d ms w' semi)), rest))
      by (intro q'; unfold tail; apply block_rest1_at; assumption).
    cbn [decl_parser] in Hrest.
    destruct sq as [|qw qt]; cbn [qual_of flat_q app] in *.
    - injection Hq as <-. unfold DeclParser.const_qual.
      assert (Hno : next_is (is_dk DkConstant) tail = None) by (unfold tail; apply (no_kw_at_ds DcVar); assumption).
      rewrite Hno. apply Hrest.
    - destruct (cl qt) as [| |k0| | | | | | | | | | | |o| | |k1| | | |dk| |] eqn:Eqt; try discriminate Hq.
      destruct dk; try discriminate Hq; injection Hq as <-; try (destruct Hq2 as [Hq2 | Hq2]; discriminate Hq2).
      unfold DeclParser.const_qual. rewrite <- app_assoc. cbn [app].
      assert (Hsq : solid qt) by (unfold StExprProofs.solid; rewrite Eqt; discriminate).
      rewrite (next_is_at tk cl _ qw qt tail Hqw Hsq) by (rewrite Eqt; reflexivity). apply Hrest.
  Qed.

  Lemma fblock_fails f rest : no_block_next rest -> fblock f (skip rest) = DFail.
  Proof.
    unfold no_block_next, DeclParser.fblock. destruct (skip rest) as [|t r]; [reflexivity|]. intro H.
    destruct (cl t) as [| |k0| | | | | | | | | | | |o| | |k1| | | |dk| |]; try reflexivity. destruct dk; try reflexivity; discriminate H.
  Qed.

  Theorem fblocks_spelled l : Forall wf_fwb l -> forall acc rest f, no_block_next rest -> size_wbs l + 1 <= f ->
    fblocks f acc (flat_wbs l ++ rest) = DOk (acc ++ flat_map erase_wb l, rest).
  Proof.
    induction l as [|[w b] l IH]; intros Hl acc rest f Hrest Hf.
    - destruct f as [|f]; [lia|]. cbn [flat_wbs map concat app flat_map DeclParser.fblocks].
      rewrite (fblock_fails f rest Hrest), app_nil_r. reflexivity.
    - cbn [size_wbs] in Hf. destruct f as [|f]; [lia|].
      pose proof (Forall_inv Hl) as (Hw & Hb). pose proof (Forall_inv_tail Hl) as Hl'.
      unfold flat_wbs. cbn [map concat flat_wb flat_map erase_wb]. fold (flat_wbs l).
      replace (((w ++ flat_bk b) ++ flat_wbs l) ++ rest) with (w ++ flat_bk b ++ flat_wbs l ++ rest)
        by (repeat (rewrite <- app_assoc; cbn [app]); reflexivity).
      cbn [DeclParser.fblocks]. rewrite (skip_app_triv tk cl w _ Hw), (flat_bk_skip b _ (proj1 Hb)).
      rewrite (fblock_at b (flat_wbs l ++ rest) f Hb) by lia.
      rewrite (IH Hl' (acc ++ erase_bk b) rest f Hrest) by lia. rewrite <- app_assoc. reflexivity.
  Qed.

  (* ---- a well-formed spelling of declaration blocks is inside the model's scope ---- *)
  Notation in_scope_from := (in_scope_from tk cl).
  Notation scoped := (scoped tk cl).
  Notation is_nil := (is_nil tk).
  (* the next token is no '#' (BOOL as a type is not followed by one) *)
  Definition hfh (r : list tk) : Prop := match r with t :: _ => cl t <> CHash | [] => True end.
  Definition scoped2 (X : list tk) : Prop :=
    forall b r, hfh r -> in_scope_from b (X ++ r) = in_scope_from (b && is_nil X) r.

  Lemma scoped_2 X : scoped X -> scoped2 X.
  Proof. intros H b r _. apply H. Qed.

  Lemma flag_irrelevant r : hfh r -> in_scope_from true r = in_scope_from false r.
  Proof. destruct r as [|t r]; [reflexivity|]. cbn [hfh StParser.in_scope_from]. intro H. destruct (cl t); try reflexivity. contradiction H. reflexivity. Qed.

  Lemma scoped2_boolt t : cl t = CBoolT -> scoped2 [t].
  Proof. intros Ht b r Hr. cbn [app StParser.in_scope_from is_nil]. rewrite Ht, andb_false_r. apply flag_irrelevant. exact Hr. Qed.

  Lemma scoped2_type t : is_type (cl t) = true -> scoped2 [t].
  Proof.
    intro H. destruct (cl t) eqn:E; try discriminate H.
    - apply scoped2_boolt. exact E.
    - intros b r Hr. cbn [app StParser.in_scope_from is_nil]. rewrite E, andb_false_r.
      destruct (fam k); try reflexivity; apply flag_irrelevant; exact Hr.
  Qed.

  Lemma scoped_scoped2_app X Y : scoped X -> scoped2 Y -> scoped2 (X ++ Y).
  Proof.
    intros HX HY b r Hr. rewrite <- app_assoc, HX, (HY _ r Hr). f_equal.
    destruct X; destruct Y; cbn; rewrite ?andb_true_r, ?andb_false_r; reflexivity.
  Qed.

  Lemma hfh_app Y r : Y <> [] -> hfh Y -> hfh (Y ++ r).
  Proof. destruct Y as [|t Y]; [intro H; contradiction H; reflexivity | intros _ H; exact H]. Qed.

  Lemma scoped2_then X Y : scoped2 X -> scoped Y -> Y <> [] -> hfh Y -> scoped (X ++ Y).
  Proof.
    intros HX HY Hne Hh b r. rewrite <- app_assoc, (HX b (Y ++ r) (hfh_app Y r Hne Hh)), HY.
    destruct X; destruct Y; try (contradiction Hne; reflexivity); cbn; rewrite ?andb_true_r, ?andb_false_r; reflexivity.
  Qed.

  Ltac sc :=
    repeat first
      [ assumption
      | apply scoped_nil
      | apply scoped_triv; assumption
      | apply scoped_app
      | apply scoped_cons; [eapply ok_of_class; [eassumption | reflexivity] | ] ].

  Lemma scoped_c c : wf_c c -> scoped (flat_c c).
  Proof.
    destruct c as [t k|p d|m d|b h v val|sg d neg|k ty hs sg v l]; cbn [wf_c flat_c].
    - intro H. sc.
    - intros (H & H0). sc.
    - intros (H & H0). sc.
    - intros (H1 & H2 & H3). eapply scoped_bool; try eassumption. apply scoped_nil.
    - intros (H1 & H2). apply scoped_cons; [rewrite H1; destruct neg; reflexivity|]. apply scoped_tok.
      unfold is_real_c in H2. destruct (cl d); try discriminate H2. reflexivity.
    - intros (H1 & H2 & H3).
      assert (Hf : fam k <> TfOther /\ exists c, cl v = CConst c).
      { assert (Hl : exists o, StParser.typed_leaf tk cl txt num k o v = Some l) by (destruct sg as [[s b]|]; [destruct H3 as (_ & H3) |]; eexists; exact H3).
        destruct Hl as (o & Hl). unfold StParser.typed_leaf in Hl.
        destruct (fam k); [| | |discriminate Hl]; (split; [discriminate|]);
          destruct (cl v) as [| |c| | | | | | | | | | | |o0| | |kw| | |tk0|dk| |]; try discriminate Hl; eexists; reflexivity. }
      destruct Hf as (Hf & c & Hv). destruct sg as [[s b]|].
      + destruct H3 as (Hs & _). eapply scoped_typed; [exact H1 | exact Hf | exact H2|].
        apply scoped_cons; [rewrite Hs; destruct b; reflexivity|]. apply scoped_tok. rewrite Hv. reflexivity.
      + eapply scoped_typed; [exact H1 | exact Hf | exact H2|]. apply scoped_tok. rewrite Hv. reflexivity.
  Qed.

  Lemma scoped_nms ms : Forall wf_nm ms -> scoped (flat_nms ms).
  Proof.
    induction 1 as [|[w1 comma w2 n] ms (H1 & H2 & H3 & H4) _ IH]; [apply scoped_nil|].
    unfold flat_nms. cbn [map concat flat_nm]. fold (flat_nms ms). sc.
  Qed.

  Lemma scoped_ns ns : wf_ns ns -> scoped (flat_ns ns).
  Proof. intros (H & Hm). unfold flat_ns. pose proof (scoped_nms _ Hm). sc. Qed.

  Lemma scoped_c_tail w1 a w2 c : all_triv w1 -> cl a = CAssign -> all_triv w2 -> wf_c c -> scoped (w1 ++ a :: w2 ++ flat_c c).
  Proof. intros H1 H2 H3 H4. pose proof (scoped_c c H4). sc. Qed.

  Lemma tail_hfh w1 a X : all_triv w1 -> cl a = CAssign -> hfh (w1 ++ a :: X) /\ w1 ++ a :: X <> [].
  Proof.
    intros H1 H2. split; [|destruct w1; discriminate].
    destruct w1 as [|t w1]; cbn [app hfh]; [rewrite H2; discriminate|]. rewrite (Forall_inv H1). discriminate.
  Qed.

  Lemma scoped2_sp s : wf_sp s -> scoped2 (flat_sp s).
  Proof.
    destruct s as [t|t w1 a w2 c|t|t w1 a w2 c|t w1 a w2 v]; cbn [wf_sp flat_sp].
    - apply scoped2_type.
    - intros (Ht & H1 & H2 & H3 & H4). apply scoped_2.
      destruct (tail_hfh w1 a (w2 ++ flat_c c) H1 H2) as (Hh & Hne).
      change (t :: w1 ++ a :: w2 ++ flat_c c) with ([t] ++ (w1 ++ a :: w2 ++ flat_c c)).
      apply scoped2_then; [apply scoped2_type; exact Ht | apply scoped_c_tail; assumption | exact Hne | exact Hh].
    - intro H. apply scoped_2. sc.
    - intros (Ht & H1 & H2 & H3 & H4). apply scoped_2. pose proof (scoped_c c H4). sc.
    - intros (Ht & H1 & H2 & H3 & H4). apply scoped_2. sc.
  Qed.

  Lemma scoped2_tyref t : is_tyref t -> scoped2 [t].
  Proof. intros [H|H]; [apply scoped2_type; exact H | apply scoped_2; apply scoped_tok; rewrite H; reflexivity]. Qed.

  Lemma scoped2_d c d : wf_d c d -> scoped2 (flat_d d).
  Proof.
    destruct d as [ns w1 colon w2 s|ns w1 colon w2 b w3 e rising|ns w1 colon w2 t|n w1 colon w2 t]; cbn [wf_d flat_d].
    - intros (_ & Hns & H1 & H2 & H3 & Hs). pose proof (scoped_ns ns Hns).
      replace (flat_ns ns ++ w1 ++ colon :: w2 ++ flat_sp s) with ((flat_ns ns ++ w1 ++ colon :: w2) ++ flat_sp s)
        by (repeat (rewrite <- app_assoc; cbn [app]); reflexivity).
      apply scoped_scoped2_app; [sc | apply scoped2_sp; exact Hs].
    - intros (_ & Hns & H1 & H2 & H3 & H4 & H5 & H6). pose proof (scoped_ns ns Hns). apply scoped_2.
      replace (flat_ns ns ++ w1 ++ colon :: w2 ++ b :: w3 ++ [e]) with ((flat_ns ns ++ w1 ++ colon :: w2) ++ ([b] ++ (w3 ++ [e])))
        by (repeat (rewrite <- app_assoc; cbn [app]); reflexivity).
      apply scoped_app; [sc|]. apply scoped2_then; [apply scoped2_boolt; exact H4 | sc | destruct w3; discriminate|].
      destruct w3 as [|t w3]; cbn [app hfh]; [rewrite H6; discriminate | rewrite (Forall_inv H5); discriminate].
    - intros (_ & Hns & H1 & H2 & H3 & Ht). pose proof (scoped_ns ns Hns).
      replace (flat_ns ns ++ w1 ++ colon :: w2 ++ [t]) with ((flat_ns ns ++ w1 ++ colon :: w2) ++ [t])
        by (repeat (rewrite <- app_assoc; cbn [app]); reflexivity).
      apply scoped_scoped2_app; [sc | apply scoped2_tyref; exact Ht].
    - intros (_ & Hn & H1 & H2 & H3 & Ht).
      change (n :: w1 ++ colon :: w2 ++ [t]) with ([n] ++ (w1 ++ colon :: w2 ++ [t])).
      replace ([n] ++ w1 ++ colon :: w2 ++ [t]) with (([n] ++ w1 ++ colon :: w2) ++ [t])
        by (repeat (rewrite <- app_assoc; cbn [app]); reflexivity).
      apply scoped_scoped2_app; [sc | apply scoped2_tyref; exact Ht].
  Qed.

  (* a declaration together with the ';' that follows it *)
  Lemma semi_tail w semi X : all_triv w -> cl semi = CSemi -> hfh (w ++ semi :: X) /\ w ++ semi :: X <> [].
  Proof.
    intros H1 H2. split; [|destruct w; discriminate].
    destruct w as [|t w]; cbn [app hfh]; [rewrite H2; discriminate|]. rewrite (Forall_inv H1). discriminate.
  Qed.

  Lemma scoped_dms c ms : Forall (wf_dm c) ms -> forall w semi, all_triv w -> cl semi = CSemi -> scoped (flat_dms ms ++ w ++ [semi]).
  Proof.
    induction 1 as [|[mw1 msemi mw2 md] ms (H1 & H2 & H3 & H4) Hms IH]; intros w semi Hw Hsemi.
    - cbn [flat_dms map concat app]. sc.
    - unfold flat_dms. cbn [map concat flat_dm]. fold (flat_dms ms). specialize (IH w semi Hw Hsemi).
      replace (((mw1 ++ msemi :: mw2 ++ flat_d md) ++ flat_dms ms) ++ w ++ [semi])
        with ((mw1 ++ msemi :: mw2) ++ (flat_d md ++ (flat_dms ms ++ w ++ [semi])))
        by (repeat (rewrite <- app_assoc; cbn [app]); reflexivity).
      apply scoped_app; [sc|].
      assert (T : hfh (flat_dms ms ++ w ++ [semi]) /\ flat_dms ms ++ w ++ [semi] <> []).
      { destruct ms as [|[a1 a2 a3 a4] ms']; [apply semi_tail; assumption|].
        pose proof (Forall_inv Hms) as (G1 & G2 & _).
        unfold flat_dms. cbn [map concat flat_dm]. rewrite <- !app_assoc. cbn [app]. apply semi_tail; assumption. }
      destruct T as (Th & Tne). apply scoped2_then; [apply (scoped2_d c); exact H4 | exact IH | exact Tne | exact Th].
  Qed.

  Lemma scoped_ds c l : wf_ds c l -> scoped (flat_ds l).
  Proof.
    destruct l as [w semi|d ms w semi]; cbn [wf_ds flat_ds].
    - intros (-> & H). cbn [app]. sc.
    - intros (Hd & Hms & Hw & Hsemi).
      assert (T : hfh (flat_dms ms ++ w ++ [semi]) /\ flat_dms ms ++ w ++ [semi] <> []).
      { destruct ms as [|[a1 a2 a3 a4] ms']; [apply semi_tail; assumption|].
        pose proof (Forall_inv Hms) as (G1 & G2 & _).
        unfold flat_dms. cbn [map concat flat_dm]. rewrite <- !app_assoc. cbn [app]. apply semi_tail; assumption. }
      destruct T as (Th & Tne).
      apply scoped2_then; [apply (scoped2_d c); exact Hd | apply (scoped_dms c); assumption | exact Tne | exact Th].
  Qed.

  Lemma scoped_b b : wf_bk b -> scoped (flat_bk b).
  Proof.
    intros (c & q & Hc & Hq & _ & Hqw & Hw & Hl & Hwend & He). unfold flat_bk.
    pose proof (scoped_ds c _ Hl) as Sd.
    assert (Sk : ok_class (cl (bk_kw b)) = true) by (destruct (cl (bk_kw b)); try discriminate Hc; reflexivity).
    assert (Sq : scoped (flat_q (bk_q b))).
    { destruct (bk_q b) as [|qw qt]; cbn [flat_q qual_of] in *; [apply scoped_nil|].
      apply scoped_app; [apply scoped_triv; exact Hqw|]. apply scoped_tok. destruct (cl qt); try discriminate Hq. reflexivity. }
    apply scoped_cons; [exact Sk|]. sc.
  Qed.

  Lemma scoped_wbs l : Forall wf_wb l -> scoped (flat_wbs l).
  Proof.
    induction 1 as [|[w b] l (Hw & Hb) _ IH]; [apply scoped_nil|].
    unfold flat_wbs. cbn [map concat flat_wb]. fold (flat_wbs l). pose proof (scoped_b b Hb). sc.
  Qed.

  (* ---- the size is bounded by the number of tokens ---- *)
  Lemma nms_len ms : length ms <= length (flat_nms ms).
  Proof.
    induction ms as [|[w1 comma w2 n] ms IH]; [apply Nat.le_refl|]. unfold flat_nms. cbn [map concat flat_nm]. fold (flat_nms ms).
    rewrite !app_length. cbn [length]. rewrite app_length. cbn [length]. lia.
  Qed.

  Lemma size_d_len d : size_d d + 2 <= length (flat_d d).
  Proof.
    destruct d as [ns w1 colon w2 s|ns w1 colon w2 b w3 e rising|ns w1 colon w2 t|n w1 colon w2 t]; cbn [size_d flat_d]; unfold flat_ns;
      repeat (rewrite app_length || cbn [length]); try (pose proof (nms_len (nm_more ns))); try lia.
    destruct s; cbn [flat_sp length]; repeat (rewrite app_length || cbn [length]); lia.
  Qed.

  Lemma size_dms_len ms : size_dms ms <= length (flat_dms ms).
  Proof.
    induction ms as [|[w1 semi w2 d] ms IH]; [apply Nat.le_refl|]. unfold flat_dms. cbn [map concat flat_dm size_dms size_dm]. fold (flat_dms ms).
    repeat (rewrite app_length || cbn [length]). pose proof (size_d_len d). lia.
  Qed.

  Lemma size_ds_len l : size_ds l <= length (flat_ds l).
  Proof.
    destruct l as [w semi|d ms w semi]; cbn [size_ds flat_ds]; repeat (rewrite app_length || cbn [length]); [lia|].
    pose proof (size_d_len d). pose proof (size_dms_len ms). lia.
  Qed.

  Lemma size_wbs_len l : size_wbs l <= length (flat_wbs l).
  Proof.
    induction l as [|[w b] l IH]; [apply Nat.le_refl|]. unfold flat_wbs. cbn [map concat flat_wb size_wbs]. fold (flat_wbs l).
    unfold size_bk, flat_bk. repeat (rewrite app_length || cbn [length]). pose proof (size_ds_len (bk_ds b)). lia.
  Qed.
End G.
