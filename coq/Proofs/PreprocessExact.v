(* C03 / C05: what the preprocessor blanks is exactly the text between the end of the FIRST start marker of a description
   block and the FIRST end marker; everything else of the file -- whatever stands before, after, or between two such blocks --
   reaches the tokenizer as it was written. *)
From Coq Require Import List NArith Bool Arith Lia.
From Verif Require Import Base.Text Model.Lexer Proofs.LexerTile.
Import ListNotations.

(* find_sub returns the FIRST occurrence *)
Lemma find_sub_first p : forall t s, find_sub p t = Some s ->
  forall i, (i < s)%nat -> prefix_eq p (skipn i t) = false.
Proof.
  induction t as [|c t IH]; intros s H i Hi.
  - cbn [find_sub] in H. destruct (prefix_eq p []) eqn:E; [|discriminate]. inversion H; subst. lia.
  - cbn [find_sub] in H. destruct (prefix_eq p (c :: t)) eqn:E.
    + inversion H; subst. lia.
    + destruct (find_sub p t) as [s'|] eqn:F; [|discriminate]. cbn in H. inversion H; subst.
      destruct i as [|i]; [exact E|]. cbn [skipn]. apply (IH s' eq_refl). lia.
Qed.

Lemma find_sub_none p : forall t, find_sub p t = None -> forall i, prefix_eq p (skipn i t) = false.
Proof.
  induction t as [|c t IH]; intros H i.
  - cbn [find_sub] in H. destruct (prefix_eq p []) eqn:E; [discriminate|]. rewrite skipn_nil. exact E.
  - cbn [find_sub] in H. destruct (prefix_eq p (c :: t)) eqn:E; [discriminate|].
    destruct (find_sub p t) eqn:F; [discriminate|]. destruct i as [|i]; [exact E|]. cbn [skipn]. apply IH. reflexivity.
Qed.

Theorem preprocess_first_block t s e :
  find_sub oscat_open t = Some s -> find_sub oscat_close t = Some e -> (s < e)%nat ->
  exists m,
    t = firstn (s + List.length oscat_open) t ++ m ++ skipn e t /\
    preprocess t = firstn (s + List.length oscat_open) t ++ flat_map blank_char m ++ skipn e t /\
    prefix_eq oscat_open (skipn s t) = true /\ (forall i, (i < s)%nat -> prefix_eq oscat_open (skipn i t) = false) /\
    prefix_eq oscat_close (skipn e t) = true /\ (forall i, (i < e)%nat -> prefix_eq oscat_close (skipn i t) = false).
Proof.
  intros Fo Fc L. pose proof (oscat_markers_apart t s e Fo Fc L) as Hk.
  set (k := (s + List.length oscat_open)%nat) in *.
  exists (firstn (e - k) (skipn k t)). repeat split.
  - transitivity (firstn k t ++ skipn k t); [symmetry; apply firstn_skipn|]. f_equal.
    transitivity (firstn (e - k) (skipn k t) ++ skipn (e - k) (skipn k t)); [symmetry; apply firstn_skipn|]. f_equal.
    rewrite skipn_skipn'. f_equal. lia.
  - unfold preprocess. rewrite Fo, Fc. apply Nat.ltb_lt in L. rewrite L. reflexivity.
  - exact (find_sub_some _ _ _ Fo).
  - exact (find_sub_first _ _ _ Fo).
  - exact (find_sub_some _ _ _ Fc).
  - exact (find_sub_first _ _ _ Fc).
Qed.

(* in every other case nothing is changed: no start marker, no end marker, or the first end marker before the first start marker *)
Theorem preprocess_identity t :
  find_sub oscat_open t = None \/ find_sub oscat_close t = None \/
  (exists s e, find_sub oscat_open t = Some s /\ find_sub oscat_close t = Some e /\ (e <= s)%nat) ->
  preprocess t = t.
Proof.
  unfold preprocess. intros [H|[H|(s & e & Ho & Hc & L)]].
  - rewrite H. reflexivity.
  - rewrite H. destruct (find_sub oscat_open t); reflexivity.
  - rewrite Ho, Hc. assert (E : Nat.ltb s e = false) by (apply Nat.ltb_ge; exact L). rewrite E. reflexivity.
Qed.

(* what is blanked: blanks and line feeds, as many bytes and as many lines as before *)
Lemma blank_char_chars c : Forall (fun x => x = 32%N \/ x = 10%N) (blank_char c).
Proof.
  unfold blank_char. destruct (c =? 10)%N; [constructor; [right; reflexivity|constructor]|].
  induction (N.to_nat (utf8_len c)) as [|n IH]; cbn [repeat]; constructor; [left; reflexivity|exact IH].
Qed.

Lemma blanked_chars m : Forall (fun x => x = 32%N \/ x = 10%N) (flat_map blank_char m).
Proof.
  induction m as [|c m IH]; [constructor|]. cbn [flat_map]. apply Forall_app. split; [apply blank_char_chars|exact IH].
Qed.

From Coq Require Import String.
(* a fault between two description blocks: a text with two blocks keeps everything from its first end marker on *)
Example two_blocks :
  let t := text_of_string "(*@KEY@:DESCRIPTION*) a (*@KEY@:END_DESCRIPTION*) x := ; (*@KEY@:DESCRIPTION*) b (*@KEY@:END_DESCRIPTION*)"%string in
  preprocess t = text_of_string "(*@KEY@:DESCRIPTION*)   (*@KEY@:END_DESCRIPTION*) x := ; (*@KEY@:DESCRIPTION*) b (*@KEY@:END_DESCRIPTION*)"%string.
Proof. vm_compute. reflexivity. Qed.
