(* C07: the sort fails exactly when the built graph has a cycle; and for declaration sets whose
   edges all have one orientation the built graph has a cycle exactly when the dependency relation has. *)
From Coq Require Import List NArith Bool Lia Relations Arith.
From Verif Require Import Model.Graph.
Import ListNotations.
Open Scope N_scope.

Definition E (es : list edge) (u v : N) : Prop := In (u, v) es.
Definition cyclic (es : list edge) : Prop := exists v, clos_trans N (E es) v v.

(* ---- an order that respects the edges excludes cycles ---- *)
Fixpoint idx (v : N) (l : list N) : nat :=
  match l with
  | [] => O
  | x :: r => if N.eqb x v then O else S (idx v r)
  end.

Lemma respects_acyclic es l :
  (forall u v, In (u, v) es -> (idx u l < idx v l)%nat) -> ~ cyclic es.
Proof.
  intros H [v Hc].
  assert (G : forall a b, clos_trans N (E es) a b -> (idx a l < idx b l)%nat).
  { induction 1 as [a b Hab | a b c _ IH1 _ IH2]; [apply H; exact Hab | lia]. }
  specialize (G v v Hc). lia.
Qed.

(* ---- chains and the pigeonhole principle ---- *)
Fixpoint chain (es : list edge) (c : list N) : Prop :=
  match c with
  | a :: ((b :: _) as r) => In (a, b) es /\ chain es r
  | _ => True
  end.

Lemma chain_app_r es l1 l2 : chain es (l1 ++ l2) -> chain es l2.
Proof.
  induction l1 as [|a l1 IH]; [auto|]. cbn [app]. intro H.
  destruct (l1 ++ l2) as [|b r] eqn:Eq.
  - destruct l1; destruct l2; cbn in Eq; try discriminate. exact I.
  - apply IH. cbn [chain] in H. destruct H as [_ H]. exact H.
Qed.

Lemma chain_clos es : forall l2 a b, chain es (a :: l2 ++ [b]) -> clos_trans N (E es) a b.
Proof.
  induction l2 as [|x l2 IH]; intros a b H.
  - cbn in H. apply t_step. exact (proj1 H).
  - cbn [app chain] in H. destruct H as [H1 H2].
    eapply t_trans; [apply t_step; exact H1 | apply IH; exact H2].
Qed.

Lemma chain_prefix es : forall l1 l2, chain es (l1 ++ l2) -> chain es l1.
Proof.
  induction l1 as [|a l1 IH]; intros l2 H; [exact I|].
  destruct l1 as [|b l1]; [exact I|].
  cbn [app chain] in H |- *. destruct H as [H1 H2]. split; [exact H1|]. apply (IH l2). exact H2.
Qed.

Lemma pigeonhole : forall (c S : list N), incl c S -> (List.length S < List.length c)%nat ->
  exists a l1 l2 l3, c = l1 ++ a :: l2 ++ a :: l3.
Proof.
  induction c as [|a c IH]; intros S Hi Hl; [cbn in Hl; lia|].
  destruct (in_dec N.eq_dec a c) as [Hin|Hnin].
  - apply in_split in Hin as (l2 & l3 & ->). exists a, [], l2, l3. reflexivity.
  - assert (Hi' : incl c (remove N.eq_dec a S)).
    { intros x Hx. apply in_in_remove; [intro; subst; contradiction | apply Hi; right; exact Hx]. }
    assert (Hl' : (List.length (remove N.eq_dec a S) < List.length c)%nat).
    { pose proof (remove_length_lt N.eq_dec S a (Hi a (or_introl eq_refl))). cbn [List.length] in Hl. lia. }
    destruct (IH _ Hi' Hl') as (b & l1 & l2 & l3 & ->). exists b, (a :: l1), l2, l3. reflexivity.
Qed.

(* a non-empty set in which every node has a predecessor inside the set contains a cycle *)
Lemma stuck_cyclic es (S : list N) : S <> [] ->
  (forall v, In v S -> exists u, In u S /\ In (u, v) es) -> cyclic es.
Proof.
  intros Hne Hp.
  assert (B : forall n, exists c, List.length c = Datatypes.S n /\ chain es c /\ incl c S).
  { induction n as [|n (c & Hlen & Hch & Hin)].
    - destruct S as [|v S']; [congruence|]. exists [v]. split; [reflexivity|]. split; [exact I|].
      intros x [<-|[]]. left; reflexivity.
    - destruct c as [|a r]; [discriminate|].
      destruct (Hp a (Hin a (or_introl eq_refl))) as (u & Hu & He).
      exists (u :: a :: r). split; [|split].
      + cbn [List.length] in *. lia.
      + cbn [chain]. split; [exact He | exact Hch].
      + intros x [<-|Hx]; [exact Hu | apply Hin; exact Hx]. }
  destruct (B (List.length S)) as (c & Hlen & Hch & Hin).
  destruct (pigeonhole c S Hin ltac:(lia)) as (a & l1 & l2 & l3 & ->).
  exists a. apply (chain_clos es l2 a a).
  apply chain_app_r in Hch.
  replace (a :: l2 ++ a :: l3) with ((a :: l2 ++ [a]) ++ l3) in Hch
    by (cbn; rewrite <- app_assoc; reflexivity).
  apply chain_prefix in Hch. exact Hch.
Qed.

(* ---- Kahn's algorithm ---- *)
Lemma mem_In v l : mem v l = true <-> In v l.
Proof.
  unfold mem. rewrite existsb_exists. split.
  - intros (x & Hx & He). apply N.eqb_eq in He. subst. exact Hx.
  - intro H. exists v. split; [exact H | apply N.eqb_refl].
Qed.

Lemma no_pred_true es rem v : no_pred es rem v = true ->
  forall u, In (u, v) es -> ~ In u rem.
Proof.
  unfold no_pred. intros H u Hu Hin. apply negb_true_iff in H.
  assert (X : existsb (fun e : edge => (snd e =? v) && mem (fst e) rem) es = true).
  { apply existsb_exists. exists (u, v). split; [exact Hu|]. cbn [fst snd].
    rewrite N.eqb_refl. cbn [andb]. apply mem_In. exact Hin. }
  congruence.
Qed.

Lemma no_pred_false es rem v : no_pred es rem v = false ->
  exists u, In u rem /\ In (u, v) es.
Proof.
  unfold no_pred. intro H. apply negb_false_iff in H. apply existsb_exists in H as ([u w] & Hin & Hc).
  cbn [fst snd] in Hc. apply andb_true_iff in Hc as [Hw Hm]. apply N.eqb_eq in Hw. subst w.
  exists u. split; [apply mem_In; exact Hm | exact Hin].
Qed.

Lemma idx_head_other a b r : a <> b -> idx b (a :: r) = S (idx b r).
Proof. intro H. cbn [idx]. destruct (N.eqb_spec a b); [contradiction | reflexivity]. Qed.

(* success: the order respects every edge between two of the sorted nodes *)
Lemma kahn_respects es : forall f rem l, kahn f rem es = Some l ->
  forall u v, In (u, v) es -> In u rem -> In v rem -> (idx u l < idx v l)%nat.
Proof.
  induction f as [|f IH]; intros rem l H u v He Hu Hv.
  - destruct rem; [destruct Hu | discriminate].
  - destruct rem as [|x rem']; [destruct Hu|].
    cbn [kahn] in H. set (rem := x :: rem') in *.
    destruct (find (no_pred es rem) rem) as [p|] eqn:Ef; [|discriminate].
    destruct (kahn f (remove N.eq_dec p rem) es) as [l'|] eqn:Ek; [|discriminate].
    cbn [option_map] in H. inversion H; subst l. clear H.
    apply find_some in Ef as [Hp Hnp].
    pose proof (no_pred_true _ _ _ Hnp) as Hnone.
    destruct (N.eq_dec v p) as [->|Nv].
    + exfalso. exact (Hnone u He Hu).
    + destruct (N.eq_dec u p) as [->|Nu].
      * cbn [idx]. rewrite N.eqb_refl. destruct (N.eqb_spec p v); [congruence | lia].
      * rewrite !idx_head_other by congruence.
        apply -> Nat.succ_lt_mono. apply (IH _ _ Ek u v He); apply in_in_remove; assumption.
Qed.

(* failure with enough fuel: some non-empty set of nodes is stuck *)
Lemma kahn_none es : forall f rem, kahn f rem es = None -> (List.length rem <= f)%nat ->
  exists S, S <> [] /\ forall v, In v S -> exists u, In u S /\ In (u, v) es.
Proof.
  induction f as [|f IH]; intros rem H Hl.
  - destruct rem; [discriminate | cbn in Hl; lia].
  - destruct rem as [|x rem']; [discriminate|].
    cbn [kahn] in H. set (rem := x :: rem') in *.
    destruct (find (no_pred es rem) rem) as [p|] eqn:Ef.
    + destruct (kahn f (remove N.eq_dec p rem) es) as [l'|] eqn:Ek; [discriminate|].
      apply find_some in Ef as [Hp _].
      apply (IH _ Ek). pose proof (remove_length_lt N.eq_dec rem p Hp). lia.
    + exists rem. split; [discriminate|]. intros v Hv.
      apply (no_pred_false es rem v). exact (find_none _ _ Ef v Hv).
Qed.

(* the contract of the sort: it fails exactly when there is a cycle (among edges whose ends are nodes) *)
Theorem toposort_none_cyclic nodes es : toposort nodes es = None -> cyclic es.
Proof.
  unfold toposort. intro H. destruct (kahn_none es _ _ H (le_n _)) as (S & Hne & Hp).
  exact (stuck_cyclic es S Hne Hp).
Qed.

Theorem toposort_some_acyclic nodes es l :
  (forall u v, In (u, v) es -> In u nodes /\ In v nodes) ->
  toposort nodes es = Some l -> ~ cyclic es.
Proof.
  unfold toposort. intros Hn H. apply (respects_acyclic es l).
  intros u v He. destruct (Hn u v He) as [Hu Hv]. exact (kahn_respects es _ _ _ H u v He Hu Hv).
Qed.

(* ---- the built graph ---- *)
Lemma built_edge_ends ds u v : In (u, v) (built_edges ds) -> In u (built_nodes ds) /\ In v (built_nodes ds).
Proof.
  unfold built_edges, built_nodes. rewrite in_flat_map. intros (d & Hd & He).
  assert (Hu : In u (names_of d) /\ In v (names_of d)).
  { destruct d as [n b|n es|n is|n]; cbn [edges_of names_of] in *.
    - destruct He as [He|[]]. inversion He; subst. split; [right; left | left]; reflexivity.
    - apply in_map_iff in He as (e & He & Hin). inversion He; subst. split; [right; exact Hin | left; reflexivity].
    - apply in_map_iff in He as (e & He & Hin). inversion He; subst. split; [right; exact Hin | left; reflexivity].
    - destruct He. }
  split; apply nodup_In; apply in_flat_map; exists d; tauto.
Qed.

Theorem reports_cycle_iff ds : reports_cycle ds = true <-> cyclic (built_edges ds).
Proof.
  unfold reports_cycle. destruct (toposort (built_nodes ds) (built_edges ds)) as [l|] eqn:Et; split; intro H.
  - discriminate.
  - exfalso. exact (toposort_some_acyclic _ _ l (built_edge_ends ds) Et H).
  - exact (toposort_none_cyclic _ _ Et).
  - reflexivity.
Qed.

(* ---- dependency relation of the source, and orientation ---- *)
(* a depends on b: a is an alias of b, a has an element of type b, a has an instance of b *)
Definition dep_edges_of (d : decl) : list edge :=
  match d with
  | DAlias n b => [(n, b)]
  | DStruct n es => map (fun e => (n, e)) es
  | DPou n is => map (fun i => (n, i)) is
  | DLeaf _ => []
  end.
Definition dep_edges (ds : list decl) : list edge := flat_map dep_edges_of ds.

Definition is_alias (d : decl) : bool := match d with DAlias _ _ | DLeaf _ => true | _ => false end.
Definition is_container (d : decl) : bool := match d with DAlias _ _ => false | _ => true end.

Lemma clos_trans_flip es es' : (forall u v, In (u, v) es <-> In (v, u) es') ->
  forall a b, clos_trans N (E es) a b -> clos_trans N (E es') b a.
Proof.
  intros H a b. induction 1 as [a b Hab | a b c _ IH1 _ IH2].
  - apply t_step. apply H. exact Hab.
  - eapply t_trans; eassumption.
Qed.

Lemma cyclic_flip es es' : (forall u v, In (u, v) es <-> In (v, u) es') -> cyclic es <-> cyclic es'.
Proof.
  intro H. split; intros [v Hv]; exists v.
  - exact (clos_trans_flip es es' H v v Hv).
  - apply (clos_trans_flip es' es); [|exact Hv]. intros u w. symmetry. apply H.
Qed.

(* the graph that is built is the dependency relation with every edge turned round *)
Lemma built_is_flipped ds : forall u v, In (u, v) (built_edges ds) <-> In (v, u) (dep_edges ds).
Proof.
  unfold built_edges, dep_edges. induction ds as [|d ds IH]; intros u v; [cbn; tauto|].
  cbn [flat_map]. rewrite !in_app_iff, (IH u v).
  assert (Hd : In (u, v) (edges_of d) <-> In (v, u) (dep_edges_of d)).
  { destruct d as [n b|n es|n is|n]; cbn [edges_of dep_edges_of].
    - split; (intros [He|[]]; left; inversion He; reflexivity).
    - rewrite !in_map_iff. split; intros (e & He & Hin); exists e; (split; [inversion He; reflexivity | exact Hin]).
    - rewrite !in_map_iff. split; intros (e & He & Hin); exists e; (split; [inversion He; reflexivity | exact Hin]).
    - tauto. }
  rewrite Hd. tauto.
Qed.

(* recursion is reported exactly when the dependency relation has a cycle -- for every set of declarations, whatever the mixture
   of aliases, structures, function blocks and programs *)
Theorem reports_iff_depends ds : reports_cycle ds = true <-> cyclic (dep_edges ds).
Proof. rewrite reports_cycle_iff. apply cyclic_flip. apply built_is_flipped. Qed.

Theorem reports_iff_depends_containers ds : forallb is_container ds = true ->
  (reports_cycle ds = true <-> cyclic (dep_edges ds)).
Proof. intros _. apply reports_iff_depends. Qed.

Theorem reports_iff_depends_aliases ds : forallb is_alias ds = true ->
  (reports_cycle ds = true <-> cyclic (dep_edges ds)).
Proof. intros _. apply reports_iff_depends. Qed.

Theorem no_edges_no_report ds : built_edges ds = [] -> reports_cycle ds = false.
Proof.
  intro H. destruct (reports_cycle ds) eqn:R; [|reflexivity].
  apply reports_cycle_iff in R as [v Hv]. rewrite H in Hv.
  exfalso. clear -Hv. induction Hv as [a b Hab|]; [destruct Hab | assumption].
Qed.

(* the cycle that went unreported while alias edges and containment edges were stored with opposite orientation (a structure
   with an element whose type is an alias of the structure) is reported *)
Theorem mixed_cycle_reported :
  let ds := [DStruct 1 [2]; DAlias 2 1] in
  cyclic (dep_edges ds) /\ reports_cycle ds = true.
Proof.
  cbv zeta. split; [|vm_compute; reflexivity].
  exists 1. eapply t_trans; apply t_step; unfold E; cbn; [left | right; left]; reflexivity.
Qed.
