(* C08: case-insensitivity of the token table, and the optional ';' after END_IF. *)
From Coq Require Import List NArith Bool Lia.
From Verif Require Import Base.Text Gen.GenTokens Model.Lexer Proofs.GenObligations.
Import ListNotations.
Open Scope N_scope.

(* ---- every alphabetic token of token.rs is matched case-insensitively ---- *)
Definition has_letter (t : text) : bool := existsb is_alpha t.
Definition literal_row_ci (row : list N * bool * tok_kind) : bool :=
  let '(p, ic, _) := row in if has_letter p then ic else true.
Definition keywords_ci : bool := forallb literal_row_ci literal_tokens.
Lemma gen_keywords_ci : keywords_ci = true.
Proof. vm_compute. reflexivity. Qed.

(* ... and a case-insensitive literal matches every re-casing of its own spelling *)
Lemma prefix_ci_recased p : forall q rest, map lower q = map lower p -> prefix_ci p (q ++ rest) = true.
Proof.
  induction p as [|x p IH]; intros q rest H; [reflexivity|].
  destruct q as [|y q]; [discriminate|]. cbn [map] in H. inversion H as [[H1 H2]].
  cbn [app prefix_ci]. rewrite H1, N.eqb_refl. cbn [andb]. apply IH. exact H2.
Qed.

(* ---- the optional ';' after END_IF ---- *)
Definition is_skip (tk : token) : bool :=
  kind_eqb (t_kind tk) KComment || kind_eqb (t_kind tk) KWhitespace.
Definition is_semi (tk : token) : bool := kind_eqb (t_kind tk) KSemicolon.
Definition is_endif (tk : token) : bool := kind_eqb (t_kind tk) KEndIf.

(* after skipping comments and blanks, the list is empty or starts with ';' *)
Fixpoint semi_next (ts : list token) : bool :=
  match ts with
  | [] => true
  | tk :: r => if is_semi tk then true else if is_skip tk then semi_next r else false
  end.

(* every END_IF in the list is followed by ';' (or by nothing) *)
Fixpoint endifs_terminated (ts : list token) : Prop :=
  match ts with
  | [] => True
  | tk :: r => (is_endif tk = true -> semi_next r = true) /\ endifs_terminated r
  end.

Lemma kind_eqb_refl k : kind_eqb k k = true.
Proof. apply kind_eqb_eq. reflexivity. Qed.

Lemma kinds_distinct :
  kind_eqb KSemicolon KEndIf = false /\ kind_eqb KSemicolon KComment = false /\ kind_eqb KSemicolon KWhitespace = false /\
  kind_eqb KEndIf KSemicolon = false /\ kind_eqb KEndIf KComment = false /\ kind_eqb KEndIf KWhitespace = false.
Proof. vm_compute. repeat split; reflexivity. Qed.

Lemma insert_semi_next ts : semi_next (insert_terminators_from true ts) = true.
Proof.
  induction ts as [|tk r IH]; [reflexivity|].
  cbn [insert_terminators_from negb andb].
  destruct (kind_eqb (t_kind tk) KSemicolon) eqn:Es; cbn [negb andb].
  - cbn [semi_next]. unfold is_semi. rewrite Es. reflexivity.
  - destruct (kind_eqb (t_kind tk) KComment) eqn:Ec; cbn [negb andb].
    + cbn [semi_next]. unfold is_semi, is_skip. rewrite Es, Ec. cbn [orb]. exact IH.
    + destruct (kind_eqb (t_kind tk) KWhitespace) eqn:Ew; cbn [negb andb].
      * cbn [semi_next]. unfold is_semi, is_skip. rewrite Es, Ec, Ew. cbn [orb]. exact IH.
      * cbn [semi_next]. unfold is_semi. cbn [t_kind]. rewrite kind_eqb_refl. reflexivity.
Qed.

Theorem insert_terminates ts : forall b, endifs_terminated (insert_terminators_from b ts).
Proof.
  induction ts as [|tk r IH]; intro b; [exact I|].
  cbn [insert_terminators_from].
  destruct (negb b && kind_eqb (t_kind tk) KEndIf) eqn:E1.
  - cbn [endifs_terminated]. split; [intros _; apply insert_semi_next | apply IH].
  - destruct (b && negb (kind_eqb (t_kind tk) KSemicolon) && negb (kind_eqb (t_kind tk) KComment)
              && negb (kind_eqb (t_kind tk) KWhitespace)) eqn:E2.
    + cbn [endifs_terminated]. split.
      * unfold is_endif. cbn [t_kind]. destruct kinds_distinct as (H1 & _). rewrite H1. discriminate.
      * split; [|apply IH].
        intro He. unfold is_endif in He. rewrite He. apply insert_semi_next.
    + cbn [endifs_terminated]. split; [|apply IH].
      intro He. unfold is_endif in He.
      (* an END_IF that was neither the first case nor the second: b = true and the token is END_IF is impossible *)
      destruct b; cbn [negb andb] in E1, E2.
      * destruct kinds_distinct as (_ & _ & _ & H4 & H5 & H6).
        assert (Hk : t_kind tk = KEndIf) by (apply kind_eqb_eq; exact He).
        rewrite Hk, H4, H5, H6 in E2. discriminate.
      * rewrite He in E1. discriminate.
Qed.

Theorem endif_semicolon_optional ts : endifs_terminated (insert_terminators ts).
Proof. apply insert_terminates. Qed.
