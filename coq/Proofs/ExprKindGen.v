(* The model of the expression resolver (Model/ExprKind.v) against the table regenerated from
   xform_resolve_late_bound_expr_kind.rs on every run (Gen/GenExprKind.v): the ten variable types and what a late-bound
   element becomes under each, the treatment of the four kinds of assignment target, the reset after an assignment and
   the clearing of the table after each of the three kinds of unit. *)
From Coq Require Import List String Bool NArith.
From Verif Require Import Base.Text Gen.GenExprKind Model.ExprKind.
Import ListNotations.
Local Open Scope string_scope.

Definition vkind_name (k : vkind) : string :=
  match k with
  | VkNone => "None" | VkSimple => "Simple" | VkString => "String" | VkEnumValues => "EnumeratedValues"
  | VkEnumType => "EnumeratedType" | VkFb => "FunctionBlock" | VkSubrange => "Subrange" | VkStruct => "Structure"
  | VkArray => "Array" | VkLate => "LateResolvedType"
  end.
Definition all_vkinds : list vkind := [VkNone; VkSimple; VkString; VkEnumValues; VkEnumType; VkFb; VkSubrange; VkStruct; VkArray; VkLate].

Lemma all_vkinds_complete k : In k all_vkinds.
Proof. destruct k; cbn; tauto. Qed.

(* insert() maps every initializer kind to the variable type of the same name, in the model's order *)
Theorem insert_table : gen_insert = map (fun k => (vkind_name k, vkind_name k)) all_vkinds.
Proof. reflexivity. Qed.

(* the arms of the match on the current type are the model's late_kind *)
Theorem late_table : gen_late = map (fun k => (vkind_name k, late_kind k)) all_vkinds.
Proof. reflexivity. Qed.

(* the four targets of an assignment: what the model's step does with each *)
Definition target_action (t : atarget) : string :=
  match estep (mkEState [([120%N], VkString)] VkSimple) (EfAssign t) with
  | None => "todo"
  | Some (s, _) => match e_cur s with VkNone => "none" | VkString => "find" | _ => "other" end
  end.
Theorem target_table :
  gen_targets = [("Direct", target_action AtDirect); ("Named", target_action (AtNamed [120%N])); ("Array", target_action AtArray); ("Structured", target_action AtStruct)].
Proof. reflexivity. Qed.

(* the source resets the current type after an assignment and clears the table after a unit; so does the model *)
Theorem reset_and_clear :
  gen_resets_after_assignment = true /\ gen_units_clear_table = ["function"; "function_block"; "program"] /\
  (forall s, exists s', estep s EfEndAssign = Some (s', []) /\ e_cur s' = VkNone /\ e_tbl s' = e_tbl s) /\
  (forall s, exists s', estep s EfExit = Some (s', []) /\ e_tbl s' = [] /\ e_cur s' = e_cur s).
Proof.
  split; [reflexivity|]. split; [reflexivity|]. split; intro s; eexists; (split; [reflexivity | split; reflexivity]).
Qed.

Theorem model_is_the_source :
  gen_late = map (fun k => (vkind_name k, late_kind k)) all_vkinds /\
  gen_insert = map (fun k => (vkind_name k, vkind_name k)) all_vkinds /\
  gen_resets_after_assignment = true /\
  (forall s, exists s', estep s EfEndAssign = Some (s', []) /\ e_cur s' = VkNone /\ e_tbl s' = e_tbl s) /\
  (forall s, exists s', estep s EfExit = Some (s', []) /\ e_tbl s' = [] /\ e_cur s' = e_cur s).
Proof.
  split; [exact late_table|]. split; [exact insert_table|].
  destruct reset_and_clear as (R & _ & A & B). split; [exact R|]. split; [exact A | exact B].
Qed.
