(* C01 / C08 / C04: function blocks with variable declaration blocks, on the real tokens.  For every well-formed spelling
   of   FUNCTION_BLOCK name  blocks  statements  END_FUNCTION_BLOCK   the entry point the correspondence check runs returns
   exactly the declarations and the statement list the spelling denotes -- it neither rejects it, nor leaves the model's
   scope, nor runs out of fuel, whatever the size. *)
From Coq Require Import List Arith Lia Bool NArith String.
From Verif Require Import Base.Res Base.Text Gen.GenTokens Gen.GenPrec Model.Lexer Model.Literals Model.ExprParser
  Model.StParser Model.DeclParser Model.StInstance Proofs.StExprProofs Proofs.StStmtProofs Proofs.StInstanceProofs Proofs.DeclProofs.
Import ListNotations.
Close Scope N_scope.
Open Scope nat_scope.

Notation rwb := (swb token).
Notation rwf_wb := (wf_wb token tok_class t_text tok_num).
Notation rflat_wbs := (flat_wbs token).
Notation rerase_wb := (erase_wb token tok_class t_text tok_num ty_name).

(* the first token of a statement list is an identifier, a statement keyword or a ';': it starts no declaration block *)
Lemma stmt_list_no_block (l : rsl) w r : rtriv w -> rwf_l l -> no_block_next token tok_class (w ++ rflat_l l ++ r).
Proof.
  intros Hw Hl. unfold no_block_next. rewrite (skip_app_triv token tok_class w _ Hw).
  assert (G : forall g r0, wf_g token tok_class t_text tok_num op_level true g ->
              exists t r', flat_g token g ++ r0 = t :: r' /\ solid token tok_class t /\ block_start (tok_class t) = false).
  { intros [w1 semi w2|s m w0 semi] r0; cbn [wf_g flat_g].
    - intros (Hw1 & _ & Hsemi & _). rewrite (Hw1 eq_refl). cbn [app]. eexists semi, _. split; [reflexivity|].
      unfold solid. rewrite Hsemi. split; [discriminate | reflexivity].
    - intros (_ & Hs & _). rewrite <- !app_assoc.
      destruct s; cbn [wf_s flat_s] in Hs; (try destruct Hs as (Hs & _)); eexists _, _; (split; [cbn [flat_s app]; reflexivity|]);
        unfold solid; rewrite Hs; split; try discriminate; reflexivity. }
  destruct l as [g|g l].
  - change (rflat_l (LOne token g)) with (flat_g token g). change (wf_g token tok_class t_text tok_num op_level true g) in Hl.
    destruct (G g r Hl) as (t & r' & E & St & Bs). rewrite E, (skip_solid token tok_class t r' St). exact Bs.
  - change (rflat_l (LCons token g l)) with (flat_g token g ++ flat_l token l).
    change (wf_g token tok_class t_text tok_num op_level true g /\ wf_l token tok_class t_text tok_num op_level (gempty token g) l) in Hl.
    destruct Hl as (Hg & _). rewrite <- app_assoc. destruct (G g (flat_l token l ++ r) Hg) as (t & r' & E & St & Bs).
    rewrite E, (skip_solid token tok_class t r' St). exact Bs.
Qed.

Lemma in_scope_scoped X Y : scoped token tok_class X -> in_scope token tok_class Y = true -> in_scope token tok_class (X ++ Y) = true.
Proof.
  intros HX HY. unfold in_scope in *. rewrite (HX false Y). cbn [andb]. exact HY.
Qed.

Theorem parse_fbd_spelled : forall w00 fb w0 nm (bl : list rwb) w1 (l : rsl) w2 en w3,
  rtriv w00 -> t_kind fb = KFunctionBlock -> rtriv w0 -> t_kind nm = KIdentifier -> Forall rwf_wb bl -> rtriv w1 ->
  rwf_l l -> rtriv w2 -> t_kind en = KEndFunctionBlock -> rtriv w3 -> (rabsorbs l = true -> w2 = []) ->
  parse_fbd_tokens (w00 ++ fb :: w0 ++ nm :: rflat_wbs bl ++ w1 ++ rflat_l l ++ w2 ++ en :: w3) =
  O2Parsed (flat_map rerase_wb bl) (rerase_l l).
Proof.
  intros w00 fb w0 nm bl w1 l w2 en w3 H00 Hfb H0 Hnm Hbl H1 Hl H2 Hen H3 Habs.
  pose proof (class_fb fb Hfb) as Cfb. pose proof (class_id nm Hnm) as Cnm. pose proof (class_endfb en Hen) as Cen.
  assert (Sfb : solid token tok_class fb) by (unfold solid; rewrite Cfb; discriminate).
  assert (Snm : solid token tok_class nm) by (unfold solid; rewrite Cnm; discriminate).
  assert (Sen : solid token tok_class en) by (unfold solid; rewrite Cen; discriminate).
  set (tail := w1 ++ rflat_l l ++ w2 ++ en :: w3).
  set (toks := w00 ++ fb :: w0 ++ nm :: rflat_wbs bl ++ tail).
  assert (Hlen : List.length (rflat_wbs bl) + List.length (rflat_l l) + 3 <= List.length toks).
  { unfold toks, tail. repeat (rewrite app_length || cbn [Datatypes.length]). lia. }
  pose proof (size_wbs_len token bl) as Bw. pose proof (proj1 (proj2 (size_bound_s token)) l) as Bl.
  (* the tokens after the name, in scope *)
  assert (Hscope_tail : in_scope token tok_class (rflat_l l ++ w2 ++ en :: w3) = true)
    by (apply (wf_l_in_scope token tok_class t_text tok_num op_level l w2 en KwEndPou w3 Hl H2 Cen H3)).
  assert (Hnb : no_block_next token tok_class tail) by (unfold tail; apply stmt_list_no_block; assumption).
  assert (Hbody : forall F, rsize_l l <= F ->
            body token tok_class t_text tok_num op_level F (st_skip tail) = Ok (rerase_l l, w2 ++ en :: w3)).
  { intros F HF. unfold tail, st_skip. rewrite (skip_app_triv token tok_class w1 _ H1), (flat_l_skip token tok_class t_text tok_num op_level l _ Hl).
    unfold body. rewrite (plist_real l (w2 ++ en :: w3)); [reflexivity | exact Hl | eapply closer_at; [exact H2 | exact Cen | reflexivity] | | exact HF].
    intro Hb. rewrite (Habs Hb). cbn [app]. apply (skip_solid token tok_class en w3 Sen). }
  assert (Hend : match st_skip (w2 ++ en :: w3) with
                 | e :: r4 => if kind_eqb (t_kind e) KEndFunctionBlock
                              then match st_skip r4 with [] => O2Parsed (flat_map rerase_wb bl) (rerase_l l) | _ => O2Rejected end
                              else O2Rejected
                 | [] => O2Rejected
                 end = O2Parsed (flat_map rerase_wb bl) (rerase_l l)).
  { unfold st_skip. rewrite (skip_app_triv token tok_class w2 _ H2), (skip_solid token tok_class en _ Sen).
    rewrite Hen. cbn [kind_eqb tok_index N.eqb Pos.eqb]. fold st_skip. rewrite (skip_all_triv w3 H3). reflexivity. }
  unfold parse_fbd_tokens. fold toks. unfold st_skip at 1 2 3. unfold toks at 1.
  rewrite (skip_app_triv token tok_class w00 _ H00), (skip_solid token tok_class fb _ Sfb).
  rewrite Hfb. cbn [kind_eqb tok_index N.eqb Pos.eqb].
  rewrite (skip_app_triv token tok_class w0 _ H0), (skip_solid token tok_class nm _ Snm).
  rewrite Hnm. cbn [kind_eqb tok_index N.eqb Pos.eqb].
  destruct bl as [|[bw b] bl'].
  - (* no declaration block *)
    change (rflat_wbs [] ++ tail) with tail. change (StParser.skip token tok_class tail) with (st_skip tail).
    assert (Es : st_skip tail = rflat_l l ++ w2 ++ en :: w3)
      by (unfold tail, st_skip; rewrite (skip_app_triv token tok_class w1 _ H1); apply (flat_l_skip token tok_class t_text tok_num op_level l _ Hl)).
    assert (Hb2 : body token tok_class t_text tok_num op_level (3 * Datatypes.length toks + 8) (st_skip (st_skip tail)) = Ok (rerase_l l, w2 ++ en :: w3)).
    { assert (Ess : st_skip (st_skip tail) = st_skip tail) by (apply skip_skip). rewrite Ess. apply Hbody. lia. }
    assert (Hnb' : no_block_next token tok_class (st_skip tail)) by (rewrite Es; apply (stmt_list_no_block l [] _ (Forall_nil _) Hl)).
    assert (Hsc : in_scope token tok_class (st_skip tail) = true) by (rewrite Es; exact Hscope_tail).
    rewrite Hsc.
    rewrite (blocks_spelled token tok_class t_text tok_num ty_name [] (Forall_nil _) [] (st_skip tail) _ Hnb') by (cbn; lia).
    cbn [app flat_map]. rewrite Hb2. exact Hend.
  - (* at least one block: the trivia before the first one is read with the name *)
    pose proof (Forall_inv Hbl) as (Hbw & Hb). pose proof (Forall_inv_tail Hbl) as Hbl'.
    assert (E2 : StParser.skip token tok_class (rflat_wbs (WB token bw b :: bl') ++ tail) = rflat_wbs (WB token [] b :: bl') ++ tail).
    { unfold flat_wbs. cbn [map List.concat flat_wb app]. rewrite <- !app_assoc.
      rewrite (skip_app_triv token tok_class bw _ Hbw). apply (flat_bk_skip token tok_class t_text tok_num b _ Hb). }
    change (st_skip (rflat_wbs (WB token bw b :: bl') ++ tail)) with (StParser.skip token tok_class (rflat_wbs (WB token bw b :: bl') ++ tail)).
    rewrite E2.
    assert (Hbl0 : Forall rwf_wb (WB token [] b :: bl')) by (constructor; [split; [constructor | exact Hb] | exact Hbl']).
    rewrite (in_scope_scoped _ _ (scoped_wbs token tok_class t_text tok_num _ Hbl0)).
    + rewrite (blocks_spelled token tok_class t_text tok_num ty_name _ Hbl0 [] tail _ Hnb).
      * cbn [app]. rewrite Hbody by lia. exact Hend.
      * pose proof (size_wbs_len token (WB token [] b :: bl')) as Bw0.
        assert (Lb : List.length (rflat_wbs (WB token [] b :: bl')) <= List.length (rflat_wbs (WB token bw b :: bl'))).
        { unfold flat_wbs. cbn [map List.concat flat_wb app]. repeat rewrite app_length. lia. }
        lia.
    + unfold tail. apply in_scope_scoped; [apply scoped_triv; exact H1 | exact Hscope_tail].
Qed.

(* two spellings with the same declarations and statements are read alike *)
Corollary parse_fbd_respelled : forall w00 fb w0 nm (bl : list rwb) w1 (l : rsl) w2 en w3 w00' fb' w0' nm' (bl' : list rwb) w1' (l' : rsl) w2' en' w3',
  rtriv w00 -> t_kind fb = KFunctionBlock -> rtriv w0 -> t_kind nm = KIdentifier -> Forall rwf_wb bl -> rtriv w1 ->
  rwf_l l -> rtriv w2 -> t_kind en = KEndFunctionBlock -> rtriv w3 -> (rabsorbs l = true -> w2 = []) ->
  rtriv w00' -> t_kind fb' = KFunctionBlock -> rtriv w0' -> t_kind nm' = KIdentifier -> Forall rwf_wb bl' -> rtriv w1' ->
  rwf_l l' -> rtriv w2' -> t_kind en' = KEndFunctionBlock -> rtriv w3' -> (rabsorbs l' = true -> w2' = []) ->
  flat_map rerase_wb bl = flat_map rerase_wb bl' -> rerase_l l = rerase_l l' ->
  parse_fbd_tokens (w00 ++ fb :: w0 ++ nm :: rflat_wbs bl ++ w1 ++ rflat_l l ++ w2 ++ en :: w3) =
  parse_fbd_tokens (w00' ++ fb' :: w0' ++ nm' :: rflat_wbs bl' ++ w1' ++ rflat_l l' ++ w2' ++ en' :: w3').
Proof. intros. rewrite !parse_fbd_spelled by assumption. congruence. Qed.

Corollary parse_fbd_fuel : forall w00 fb w0 nm (bl : list rwb) w1 (l : rsl) w2 en w3,
  rtriv w00 -> t_kind fb = KFunctionBlock -> rtriv w0 -> t_kind nm = KIdentifier -> Forall rwf_wb bl -> rtriv w1 ->
  rwf_l l -> rtriv w2 -> t_kind en = KEndFunctionBlock -> rtriv w3 -> (rabsorbs l = true -> w2 = []) ->
  parse_fbd_tokens (w00 ++ fb :: w0 ++ nm :: rflat_wbs bl ++ w1 ++ rflat_l l ++ w2 ++ en :: w3) <> O2Fuel.
Proof. intros. rewrite parse_fbd_spelled by assumption. discriminate. Qed.

(* a concrete spelling:  VAR_INPUT RETAIN a , b : INT := 5 ; clk : BOOL R_EDGE ; END_VAR  VAR CONSTANT c : T := Red ; END_VAR  x := a + 1 ; *)
Definition ex_blocks : list rwb :=
  [ WB token ex_ws
      (mkBlock token (tkk KVarInput []) (QSome token ex_ws (tkk KRetain [])) ex_ws
         (DsSome token
            (SdVar token (mkNames token (tkk KIdentifier [97%N]) [NmMore token ex_ws (tkk KComma [44%N]) ex_ws (tkk KIdentifier [98%N])])
               ex_ws (tkk KColon [58%N]) ex_ws
               (SpElemInit token (tkk KInt []) ex_ws (tkk KAssignment [58%N; 61%N]) ex_ws (ScTok token (tkk KDigits [53%N]) CkInt)))
            [DmMore token ex_ws (tkk KSemicolon [59%N]) ex_ws
               (SdEdge token (mkNames token (tkk KIdentifier [99%N; 108%N; 107%N]) []) ex_ws (tkk KColon [58%N]) ex_ws (tkk KBool []) ex_ws (tkk KREdge []) true)]
            ex_ws (tkk KSemicolon [59%N]))
         ex_ws (tkk KEndVar []));
    WB token ex_ws
      (mkBlock token (tkk KVar []) (QSome token ex_ws (tkk KConstant [])) ex_ws
         (DsSome token
            (SdVar token (mkNames token (tkk KIdentifier [99%N]) []) ex_ws (tkk KColon [58%N]) ex_ws
               (SpNamedEnum token (tkk KIdentifier [84%N]) ex_ws (tkk KAssignment [58%N; 61%N]) ex_ws (tkk KIdentifier [82%N; 101%N; 100%N])))
            [] [] (tkk KSemicolon [59%N]))
         ex_ws (tkk KEndVar [])) ].
Example ex_blocks_wf : Forall rwf_wb ex_blocks.
Proof.
  unfold ex_blocks, ex_ws. repeat constructor; cbn.
  - eexists DcInput, DqRetain. cbn. repeat split; try reflexivity; try (left; reflexivity); repeat constructor.
  - eexists DcVar, DqConst. cbn. repeat split; try reflexivity; try (right; right; reflexivity); repeat constructor.
Qed.
Example ex_parse_fbd :
  parse_fbd_tokens ([tkk KFunctionBlock []] ++ ex_ws ++ [tkk KIdentifier [102%N]] ++ rflat_wbs ex_blocks ++ ex_ws ++ rflat_l ex_list ++ ex_ws ++ [tkk KEndFunctionBlock []]) =
  O2Parsed
    [DVar [97%N] DcInput DqRetain (DSimple (text_of_string "INT") (Some (LfInt false 5%N)));
     DVar [98%N] DcInput DqRetain (DSimple (text_of_string "INT") (Some (LfInt false 5%N)));
     DEdge [99%N; 108%N; 107%N] true DqRetain;
     DVar [99%N] DcVar DqConst (DEnumType [84%N] [82%N; 101%N; 100%N])]
    [TAssign [120%N] [] (XBin BAdd (XAtom (LfName [97%N])) (XAtom (LfInt false 1%N)))].
Proof. vm_compute. reflexivity. Qed.
