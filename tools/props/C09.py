"""C09 -- literals are read as the value IEC 61131-3 assigns them, or rejected.
Proof: Properties/C09.v (checked radix parsing = mathematical value or failure; fixed point; duration components exact
to the nanosecond; calendar dates; time of day; strings).
Tie: the model's answer for each literal's token texts vs the constant found in the parsed library.
Search: the structured literal space of the property, each literal compared with an independent exact oracle."""
import struct
from fractions import Fraction

import vlib
from vlib import hexs

NEED_BIN = False
NEED_RELEASE = True
MANIFEST_ENTRY = {
    "technique": "Coq proof that the checked digit folds, fixed-point split, duration-component arithmetic, calendar and time-of-day "
                 "checks of the literal model return the mathematical value or fail (all digit strings, underscore placements and "
                 "field values); model/parser correspondence per literal; enumeration of the structured literal space against an "
                 "exact oracle",
    "text": "Theorems (no bound on length or magnitude): decimal, hexadecimal, octal and binary literals with underscores anywhere are "
            "read as their Horner value when below 2^128 and rejected otherwise, never wrapped; fixed-point numbers are read exactly "
            "(whole < 2^64, <= 15 fractional digits) or rejected; a duration component is its exact value rounded down to a whole "
            "nanosecond or rejected when the seconds exceed 63 bits; dates are accepted exactly when the calendar date exists "
            "(year <= 9999); time-of-day fields in range are kept, others rejected; strings are the characters between the quotes. "
            "The model mirrors common.rs / time.rs / the grammar actions by hand and is compared with the parsed constant for every "
            "generated literal (debug build; release build too at the thorough tier). Reals are tested against correctly rounded "
            "binary64, not proved.",
    "note": "Trusted: Coq kernel, extraction + driver, harness (Visitor over ConstantKind / AddressAssignment). time::Duration/Date/Time "
            "constructors and regex captures are modelled by their documented range checks. Resolution of durations is 1 ns "
            "(finer fractions are rounded down). Known finding: multi-unit durations are rejected. No axioms.",
}
TRUSTED = [
    "Coq 8.16.1 kernel; vm_compute only in the Example",
    "no axioms: every theorem of Properties/C09.v is closed under the global context",
    "extraction (ExtrOcamlBasic only) + ocaml/driver.ml (decimal <-> N conversion)",
    "harness op `parse` with collect: ConstantKind and AddressAssignment values through public fields / accessors",
    "common.rs, time.rs and the literal grammar actions are modelled by hand (Model/Literals.v), validated by correspondence",
    "f64::from_str is not modelled: real literals are compared with Python's correctly rounded float() (testing)",
]
ASSUMPTIONS = [
    "a duration's representation has nanosecond resolution; a finer fraction is rounded down (not treated as 'altered')",
    "year 0 .. 9999 is the accepted year range (time crate default); IEC 61131-3 does not fix one",
]

P2 = lambda k: 1 << k
MAGS = [0, 1, 7, 8, 127, 128, 255, 256, 32767, 32768, 65535, 65536, P2(31) - 1, P2(31), P2(32) - 1, P2(32), P2(63) - 1, P2(63),
        P2(64) - 1, P2(64), P2(64) + 1, P2(127), P2(128) - 1, P2(128), P2(128) + 1, P2(130) + 12345]


def to_base(v, b):
    if v == 0:
        return "0"
    d = "0123456789ABCDEF"
    out = []
    while v:
        out.append(d[v % b])
        v //= b
    return "".join(reversed(out))


def underscore_variants(s, rng):
    """underscores at every single position after the first character, everywhere, and a random mix"""
    outs = [s]
    if len(s) >= 1:
        outs.append(s + "_")
    if len(s) >= 2:
        outs.append(s[0] + "_" + s[1:])
        outs.append("_".join(s))
        k = rng.randrange(1, len(s))
        outs.append(s[:k] + "__" + s[k:])
    return list(dict.fromkeys(outs))


def prog_init(typ, lit):
    return "PROGRAM p\nVAR x : %s := %s; END_VAR\nEND_PROGRAM\n" % (typ, lit)


def prog_assign(typ, lit):
    return "PROGRAM p\nVAR x : %s; END_VAR\nx := %s;\nEND_PROGRAM\n" % (typ, lit)


def prog_at(addr):
    return "PROGRAM p\nVAR x AT %s : BOOL; END_VAR\nEND_PROGRAM\n" % addr


class Case:
    def __init__(self, tag, src, expect, model_args=None, note=None):
        self.tag = tag            # generator family
        self.src = src            # program text
        self.expect = expect      # ("reject",) or ("const", dict) or ("addr", dict) or ("any",)
        self.model_args = model_args
        self.note = note


def dur_expect(sign, parts):
    """parts: list of (number text without underscores, unit); exact oracle"""
    npu = {"d": 86400 * 10**9, "h": 3600 * 10**9, "m": 60 * 10**9, "s": 10**9, "ms": 10**6}
    total = 0
    for num, unit in parts:
        if "." in num:
            w, f = num.split(".")
            if len(f) > 15:
                return ("reject",)
        else:
            w, f = num, ""
        if int(w) >= P2(64):
            return ("reject",)
        val = Fraction(int(w)) + (Fraction(int(f), 10 ** len(f)) if f else 0)
        ns = (val * npu[unit]).__floor__()
        if ns // 10**9 >= P2(63):
            return ("reject",)
        total += ns
    if total // 10**9 >= P2(63):
        return ("reject",)
    s, n = total // 10**9, total % 10**9
    if sign == "-":
        s, n = -s, -n
    return ("const", {"kind": "duration", "seconds": str(s), "nanos": n})


def leap(y):
    return y % 4 == 0 and (y % 100 != 0 or y % 400 == 0)


def dim(y, m):
    if m in (1, 3, 5, 7, 8, 10, 12):
        return 31
    if m in (4, 6, 9, 11):
        return 30
    return 29 if leap(y) else 28


def gen_cases(run):
    rng = run.rng
    cases = []
    thorough = run.tier == "thorough"
    # ---- integers -------------------------------------------------------------------------
    for base, prefix, op in ((10, "", "int"), (16, "16#", "hex"), (8, "8#", "oct"), (2, "2#", "bin")):
        for v in MAGS:
            digits = to_base(v, base)
            for spelled in underscore_variants(digits, rng):
                if base == 10 and spelled.endswith("_") and False:
                    continue
                tok = prefix + spelled
                variants = [("", None)]
                if base == 10:
                    variants += [("+", None), ("-", None)]
                for sign, _ in variants:
                    for tpre, tname in (("", None), ("LINT#", "LINT"), ("UDINT#", "UDINT")):
                        if tpre and (sign and base == 10 and rng.random() < 0.5):
                            continue
                        lit = tpre + sign + tok
                        if v < P2(128):
                            exp = ("const", {"kind": "int", "value": str(v), "neg": sign == "-", "type": tname})
                        else:
                            exp = ("reject",)
                        cases.append(Case("int:base%d" % base, prog_init("LINT", lit), exp, [op, hexs(tok)]))
            if base != 10:
                lit = "WORD#" + prefix + digits
                exp = ("const", {"kind": "bits", "value": str(v), "type": "WORD"}) if v < P2(128) else ("reject",)
                cases.append(Case("bits:base%d" % base, prog_init("WORD", lit), exp, [op, hexs(prefix + digits)]))
    # ---- reals (tested against correctly rounded binary64) ---------------------------------
    reals = ["0.0", "1.5", "3.14159", "1.0E10", "1.0e-10", "2.5E+3", "1_000.000_1", "123456789.123456789", "0.1", "1.7976931348623157E308",
             "4.9E-324", "2.2250738585072014E-308", "9007199254740993.0", "0.30000000000000004", "1.0E400", "5.0E-400", "100.0E2",
             # around the largest finite binary64: the last literal that rounds to it, the first that does not, far beyond it
             "1.7976931348623158E308", "1.797693134862315807E308", "1.797693134862315808E308", "1.8E308", "2.0E308", "1.0E309",
             "17976931348623157" + "0" * 292 + ".0", "18" + "0" * 307 + ".0", "1" + "0" * 400 + ".0", "0.1E310", "1000.0E306"]
    for r in reals:
        for sign in ("", "-", "+"):
            for tpre, tname in (("", None), ("REAL#", "REAL"), ("LREAL#", "LREAL")):
                clean = r.replace("_", "")
                val = float(clean) * (-1.0 if sign == "-" else 1.0)
                if val in (float("inf"), float("-inf")):
                    # the value is beyond the largest finite binary64: not representable, so rejected
                    cases.append(Case("real:overflow", prog_init("LREAL", tpre + sign + r), ("reject",)))
                    continue
                bits = struct.unpack("<Q", struct.pack("<d", val))[0]
                cases.append(Case("real", prog_init("LREAL", tpre + sign + r), ("const", {"kind": "real", "bits": str(bits), "type": tname})))
    # ---- durations -------------------------------------------------------------------------
    nums = ["0", "1", "59", "60", "61", "999", "1000", "1001", "0.5", "1.5", "0.001", "2.25", "0.000000001", "0.0000000001",
            "0.123456789012345", "0.1234567890123456", "1_0", "1_0.2_5", "106751991167300", "106751991167301", "2562047788015215",
            "2562047788015216", "153722867280912930", "153722867280912931", "9223372036854775807", "9223372036854775808",
            "18446744073709551615", "18446744073709551616", "18446744073709551617", "99999999999999999",
            "340282366920938463463374607431768211456", "9223372036854775807.999999999", "9223372036854775807999"]
    # the largest whole count of each unit that fits 2^63 seconds, with fractions that stay below and that pass the limit
    for w in ("106751991167300", "2562047788015215", "153722867280912930", "9223372036854775807", "9223372036854775807999"):
        nums += [w + f for f in (".1", ".5", ".6", ".7", ".9", ".999999999999999")]
    # fractions around the 15-digit limit, with and without trailing zeros (how many digits count is the written length)
    for ln in (14, 15, 16, 17, 20, 40):
        nums += ["1.5" + "0" * (ln - 1), "0." + "0" * ln, "2." + "0" * (ln - 1) + "1", "3." + "".join(str((7 * i + 3) % 10) for i in range(ln))]
    for unit in ("d", "h", "m", "s", "ms"):
        for num in nums:
            for pre in (("T#", "t#", "TIME#", "time#") if num in ("1", "1.5") else ("T#",)):
                for sign in ("", "-"):
                    lit = pre + sign + num + unit
                    exp = dur_expect(sign, [(num.replace("_", ""), unit)])
                    cases.append(Case("duration:" + unit, prog_init("TIME", lit), exp,
                                      ["dur", unit if unit != "ms" else "x", "1" if "." in num else "0", hexs(num)]))
    # an explicit '+' sign is not in the grammar of durations: rejected, or (if ever accepted) the positive value
    for num, unit in (("5", "s"), ("1.5", "h"), ("250", "ms"), ("0", "d"), ("2", "m")):
        for pre in ("T#", "TIME#", "t#"):
            lit = pre + "+" + num + unit
            cases.append(Case("duration:plus", prog_init("TIME", lit), ("reject-or", dur_expect("", [(num, unit)]))))
    for lit, parts in (("T#1h30m", [("1", "h"), ("30", "m")]), ("T#1d2h3m4s5ms", [("1", "d"), ("2", "h"), ("3", "m"), ("4", "s"), ("5", "ms")]),
                       ("T#5m_30s", [("5", "m"), ("30", "s")]), ("T#2s500ms", [("2", "s"), ("500", "ms")]), ("T#25h_15m", [("25", "h"), ("15", "m")]),
                       ("T#1d_2h_3m_4s_5.5ms", [("1", "d"), ("2", "h"), ("3", "m"), ("4", "s"), ("5.5", "ms")])):
        cases.append(Case("duration:multi", prog_init("TIME", lit), dur_expect("", parts), None, "multi-unit"))
    # ---- dates -----------------------------------------------------------------------------
    ys = [0, 1, 1970, 2023, 2024, 1900, 2000, 9999, 10000, P2(31) - 1, P2(31), P2(128)]
    ms = [0, 1, 2, 4, 12, 13, 255, 256, 257, 258]
    ds = [0, 1, 28, 29, 30, 31, 32, 255, 256, 257, 285]
    for y in ys:
        for m in ms:
            for d in ds:
                if not thorough and (y not in (2023, 2024, 1900, 2000, 9999, 10000)) and rng.random() < 0.6:
                    continue
                for pre in (("D#", "DATE#", "d#") if (y, m, d) == (2024, 2, 29) else ("D#",)):
                    lit = "%s%d-%02d-%02d" % (pre, y, m, d)
                    ok = y <= 9999 and 1 <= m <= 12 and 1 <= d <= dim(y, m)
                    exp = ("const", {"kind": "date", "ymd": [y, m, d]}) if ok else ("reject",)
                    cases.append(Case("date", prog_init("DATE", lit), exp, ["date", hexs(str(y)), hexs("%02d" % m), hexs("%02d" % d)]))
    # ---- time of day, date and time ---------------------------------------------------------
    hs = [0, 12, 23, 24, 255, 256, 280]
    mins = [0, 30, 59, 60, 255, 256, 316]
    secs = ["00", "01", "59", "60", "255", "256", "316", "01.5", "59.999999", "00.000001", "00.0000000001", "01.1234567890123456", "18446744073709551616",
            "15.250000000000000", "15.2500000000000000", "15.25000000000000000", "00.0000000000000000"]
    for h in hs:
        for mi in mins:
            for s in secs:
                if not thorough and rng.random() < 0.5 and not (h in (12, 23) and mi in (30, 59)):
                    continue
                sc = s.replace("_", "")
                w, f = (sc.split(".") + [""])[:2]
                ok = h < 24 and mi < 60 and int(w) < 60 and len(f) <= 15
                micro = int((f + "0" * 6)[:6]) if f else 0
                exp = ("const", {"kind": "tod", "hmsu": [h, mi, int(w), micro]}) if ok else ("reject",)
                lit = "TOD#%02d:%02d:%s" % (h, mi, s)
                cases.append(Case("tod", prog_init("TOD", lit), exp, ["tod", hexs("%02d" % h), hexs("%02d" % mi), "1" if "." in s else "0", hexs(s)]))
    for (y, m, d, h, mi, s) in ((2024, 1, 20, 15, 30, "22"), (2024, 2, 30, 0, 0, "00"), (2023, 12, 31, 23, 59, "59.5"), (2024, 1, 1, 24, 0, "00"),
                                (1999, 12, 31, 23, 59, "60")):
        w, f = (s.split(".") + [""])[:2]
        ok = 1 <= m <= 12 and 1 <= d <= dim(y, m) and h < 24 and mi < 60 and int(w) < 60
        micro = int((f + "0" * 6)[:6]) if f else 0
        exp = ("const", {"kind": "dt", "ymd": [y, m, d], "hmsu": [h, mi, int(w), micro]}) if ok else ("reject",)
        for pre in ("DT#", "DATE_AND_TIME#"):
            cases.append(Case("dt", prog_init("DT", "%s%d-%02d-%02d-%02d:%02d:%s" % (pre, y, m, d, h, mi, s)), exp))
    # ---- strings ----------------------------------------------------------------------------
    for body in ("", "a", "abc def", "é€𝄞", "a\nb", "(* not a comment *)", "\"", "1;2:=3"):
        cases.append(Case("string", prog_assign("STRING", "'" + body + "'"), ("const", {"kind": "string", "chars": [ord(c) for c in body]})))
        if "\"" not in body:
            cases.append(Case("string", prog_assign("WSTRING", "\"" + body + "\""), ("const", {"kind": "string", "chars": [ord(c) for c in body]})))
    # `$` escapes (IEC 61131-3 table 6): `$$`, the quote, `$N`/`$L`/`$R`/`$T`/`$P` in either case, two (STRING) or four (WSTRING) hex digits
    for body, chars in (("a$Nb", [97, 10, 98]), ("$$", [36]), ("a$'b", [97, 39, 98]), ("$41", [65]), ("$t$r$l$p", [9, 13, 10, 12]),
                        ("x$$N", [120, 36, 78])):
        cases.append(Case("string:escape", prog_assign("STRING", "'" + body + "'"), ("const", {"kind": "string", "chars": chars}),
                          note=("dollar-escape", [ord(c) for c in body])))
    for body, chars in (("a$Nb", [97, 10, 98]), ("$$", [36]), ("a$\"b", [97, 34, 98]), ("$0041", [65])):
        cases.append(Case("string:escape", prog_assign("WSTRING", "\"" + body + "\""), ("const", {"kind": "string", "chars": chars}),
                          note=("dollar-escape", [ord(c) for c in body])))
    # a '$' code that is cut short by the closing quote, a lone '$': whatever they are taken to be, the parser must answer
    for body in ("abc$4", "$F", "x$", "$", "$4$", "ab$0"):
        cases.append(Case("string:escape-cut", prog_assign("STRING", "'" + body + "'"), ("any",)))
    for body in ("x$00A", "$0", "$", "x$004", "$00"):
        cases.append(Case("string:escape-cut", prog_assign("WSTRING", "\"" + body + "\""), ("any",)))
    # ---- booleans ---------------------------------------------------------------------------
    for lit, v in (("TRUE", "True"), ("FALSE", "False"), ("true", "True"), ("BOOL#TRUE", "True"), ("BOOL#FALSE", "False")):
        cases.append(Case("bool", prog_init("BOOL", lit), ("const", {"kind": "bool", "value": v})))
    for lit, v in (("BOOL#1", "True"), ("BOOL#0", "False"), ("bool#1", "True")):
        cases.append(Case("bool", prog_init("BOOL", lit), ("const", {"kind": "bool", "value": v}), note="bool-digit"))
    # ---- direct addresses -------------------------------------------------------------------
    comps_list = [["0"], ["1"], ["9"], ["10"], ["123"], ["1", "2"], ["10", "25"], ["1", "2", "3"], ["100", "200", "300"], ["4294967295"],
                  ["4294967296"], ["1", "99999999999999999999"], ["007"],
                  # components written with more digits than the limit has: leading zeros (a small value), values whose first ten
                  # digits would fit, and such a component in front of further ones
                  ["00000000001"], ["000000000000000000004294967295"], ["00000000004294967296"], ["18446744073709551616"],
                  ["12345678901"], ["1", "18446744073709551616", "3"], ["1", "2", "12345678901"], ["0000000000"], ["1", "00000000002", "3"]]
    for loc in "IQM":
        for size in ("", "X", "B", "W", "D", "L"):
            for comps in comps_list:
                for case_variant in (0, 1):
                    if case_variant and rng.random() < 0.7:
                        continue
                    a = "%" + loc + size + ".".join(comps)
                    if case_variant:
                        a = a.lower()
                    ok = all(int(c) < P2(32) for c in comps)
                    exp = ("addr", {"location": loc, "size": size or "Nil", "address": [int(c) for c in comps]}) if ok else ("reject",)
                    cases.append(Case("address", prog_at(a), exp, ["addr", hexs(a)]))
    return cases


def observed(r):
    """canonical observation of the implementation on one case"""
    if "panic" in r or "abort" in r:
        return ("crash", r.get("panic") or r.get("abort"))
    if "err" in r:
        return ("reject", r["err"]["code"])
    col = r.get("collect") or {}
    return ("ok", col.get("consts", []), col.get("addrs", []))


def matches(exp, obs):
    if obs[0] == "crash":
        return False
    if exp[0] == "any":
        return True
    if exp[0] == "reject-or":
        # a spelling outside IEC 61131-3 that some tools accept: either rejected, or read as the value it plainly denotes
        return obs[0] == "reject" or matches(exp[1], obs)
    if exp[0] == "reject":
        return obs[0] == "reject"
    if obs[0] != "ok":
        return False
    if exp[0] == "const":
        consts = obs[1]
        if len(consts) != 1:
            return False
        c = consts[0]
        e = exp[1]
        return all(c.get(k) == v for k, v in e.items())
    if exp[0] == "addr":
        if len(obs[2]) != 1:
            return False
        a = obs[2][0]
        e = exp[1]
        return a["location"] == e["location"] and a["size"] == e["size"] and a["address"] == e["address"]
    return True


def model_matches(case, fields, obs):
    """correspondence: the model's answer for the literal's token texts vs the parsed constant"""
    if not fields or fields[0] in ("bad-args", "unknown-op", "model-stack-overflow"):
        return None
    kind = case.model_args[0]
    if fields[0] == "none":
        return obs[0] == "reject"
    if obs[0] != "ok":
        return False
    if kind in ("int", "hex", "oct", "bin"):
        return len(obs[1]) == 1 and obs[1][0].get("value") == fields[0]
    if kind == "dur":
        c = obs[1][0] if len(obs[1]) == 1 else None
        if c is None or c.get("kind") != "duration":
            return False
        return abs(int(c["seconds"])) == int(fields[0]) and abs(c["nanos"]) == int(fields[1])
    if kind == "date":
        return len(obs[1]) == 1 and obs[1][0].get("ymd") == [int(x) for x in fields[:3]]
    if kind == "tod":
        c = obs[1][0] if len(obs[1]) == 1 else {}
        h, m, s, n = [int(x) for x in fields[:4]]
        return c.get("hmsu") == [h, m, s, n // 1000]
    if kind == "addr":
        if len(obs[2]) != 1:
            return False
        a = obs[2][0]
        loc = chr(int(fields[0]))
        size = "Nil" if fields[1] == "0" else chr(int(fields[1]))
        comps = [int(x) for x in fields[2].split(".")] if len(fields) > 2 and fields[2] else []
        return a["location"] == loc and a["size"] == size and a["address"] == comps
    return None


KNOWN_BOOL_DIGIT = "bool-hash-digit-rejected"
KNOWN_MULTI_UNIT = "duration-multi-unit-rejected"
KNOWN_DOLLAR = "string-dollar-escape-kept-verbatim"


def search(run, info):
    cases = gen_cases(run)
    pc = [{"id": i, "op": "parse", "text": hexs(c.src), "collect": True} for i, c in enumerate(cases)]
    builds = [("debug", False)]
    if run.tier == "thorough" and info.get("harness_release_ok"):
        builds.append(("release", True))
    model = {}
    if info.get("extract_ok"):
        model = vlib.run_model([("lit", i, c.model_args) for i, c in enumerate(cases) if c.model_args], run.workdir)
    known_keys = {k["key"] for k in run.known}
    for bname, rel in builds:
        impl = vlib.run_impl(pc, run.workdir, release=rel)
        for i, c in enumerate(cases):
            obs = observed(impl[i])
            run.count((bname, c.src), True, c.tag)
            if not matches(c.expect, obs):
                if c.note == "bool-digit" and obs[0] == "reject" and KNOWN_BOOL_DIGIT in known_keys:
                    run.known_finding(KNOWN_BOOL_DIGIT, "the typed boolean literals BOOL#1 / BOOL#0 are rejected with a syntax error")
                    continue
                if c.note == "multi-unit" and obs[0] == "reject" and KNOWN_MULTI_UNIT in known_keys:
                    run.known_finding(KNOWN_MULTI_UNIT, "a duration literal with more than one unit part (T#1h30m) is rejected with a syntax error")
                    continue
                if isinstance(c.note, tuple) and c.note[0] == "dollar-escape" and KNOWN_DOLLAR in known_keys:
                    raw = obs[0] == "ok" and matches(("const", {"kind": "string", "chars": c.note[1]}), obs)
                    if raw or obs[0] == "reject":
                        run.known_finding(KNOWN_DOLLAR, "`$` escapes in character strings are not interpreted: the two characters are kept "
                                                        "as written ('a$Nb' has four characters), an escaped quote ends the string")
                        continue
                what = "literal read wrongly (%s build): expected %r, observed %r" % (bname, c.expect, obs[:2] if obs[0] != "ok" else (obs[1], obs[2]))
                run.violation("impl-violates-property", what, {"input": {"text": c.src}, "expected": c.expect, "family": c.tag})
                continue
            if c.model_args and str(i) in model:
                mm = model_matches(c, model[str(i)], obs)
                if mm is not None:
                    run.cov["traces_validated_against_impl"] += 1
                    if not mm:
                        run.cov["disagreements_checked"] += 1
                        run.violation("correspondence", "literal model and parser disagree (%s build): model %r, parser %r" % (
                            bname, model[str(i)], obs[:2] if obs[0] != "ok" else (obs[1], obs[2])),
                            {"input": {"text": c.src}, "family": c.tag}, no_input=True)
            if i % 700 == 0:
                run.sample({"source": c.src.split("\n")[1], "expected": c.expect})
    return {"coverage": {
        "rule": "the structured literal space: base x magnitude class (0, 1, max of each width, max+1, 2^64, 2^127, 2^128, beyond) x "
                "underscore placement x sign x type prefix; duration unit x boundary / fractional values x prefix spelling x sign; "
                "date and time-of-day fields at min, max, max+1 and wrap-around values (256, 257); strings; booleans; direct "
                "address prefix x size x 1-3 components of 1-3 digits, letter case, overflow; reals against correctly rounded binary64; "
                "non-trivial = every case (each is a distinct literal), distinct by source text and build",
        "families": sorted(set(c.tag for c in cases)),
        "builds": [b for b, _ in builds],
        "exhaustive": run.tier == "thorough",
        "exhaustive_note": "the enumerated families are covered completely at the thorough tier; the quick tier samples the date and time-of-day cross products"}}


def replay(run, rep):
    src = rep.get("input", {}).get("text")
    exp = rep.get("expected")
    if src is None or exp is None:
        return 2
    r = vlib.run_impl([{"id": 0, "op": "parse", "text": hexs(src), "collect": True}], run.workdir)[0]
    exp = tuple(exp)
    return 0 if matches(exp, observed(r)) else 1
