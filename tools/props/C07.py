"""C07 -- recursion is rejected exactly when the declaration graph has a cycle.
Proof: Properties/C07.v (sort fails iff cycle; P0010 iff the built graph is cyclic; the built graph is the dependency
relation turned round, so P0010 iff some declaration depends on itself -- aliases, structures, units in any mixture).
Tie: edge table regenerated from xform_toposort_declarations.rs; model verdict vs `P0010 present` on realised graphs.
Search: all digraphs on <= 3 nodes and sampled / all 4-node digraphs, realised as function-block graphs, structure graphs,
alias graphs and mixed graphs; random graphs up to 12 nodes; deep and wide acyclic families."""
import itertools

import vlib
from vlib import hexs

NEED_BIN = False
MANIFEST_ENTRY = {
    "technique": "Coq proof (pigeonhole over walks, Kahn order) that the sort fails exactly on cyclic graphs and that P0010 is "
                 "reported iff the dependency relation is cyclic, for every set of declarations; edge "
                 "orientation table regenerated from the source; exhaustive small-digraph correspondence",
    "text": "Theorems for every declaration list (no bound on nodes or edges): the sort returns no order iff the graph has a cycle; "
            "recursion is reported iff the graph built by the visitor is cyclic; every edge of that graph runs from what is depended "
            "on to what depends on it (aliases, structure elements, instances alike, since the repair of the orientation), so that "
            "is iff some declaration transitively depends on itself. The model "
            "graph construction is tied to the visitor by the regenerated (visitor, from, to) edge table and by comparing the "
            "model's verdict with `P0010 in diagnostics` for every realised digraph.",
    "note": "Trusted: Coq kernel, translator (add_edge calls per visitor, shape of add_node / sorted_ids), extraction + driver, "
            "harness op analyze. petgraph::toposort is assumed to fail exactly on cycles (what the Kahn model is proved to do); "
            "validated by correspondence. No axioms.",
}
TRUSTED = [
    "Coq 8.16.1 kernel; vm_compute only in the Examples",
    "no axioms: every theorem of Properties/C07.v is closed under the global context",
    "tools/translate.py: add_edge calls per visitor function, key type of id_to_index, shape of add_node and sorted_ids",
    "petgraph::algo::toposort assumed to return Err exactly for cyclic graphs (self-loops included); validated by correspondence",
    "extraction (ExtrOcamlBasic only) + ocaml/driver.ml; harness op `analyze`",
]
ASSUMPTIONS = [
    "names are compared case-insensitively (Id's Eq/Hash); the generator spells references in random letter case",
]

KNOWN_MIXED = "cycle-through-alias-and-containment-not-reported"


def has_cycle(n, edges):
    adj = {i: [] for i in range(n)}
    for a, b in edges:
        adj[a].append(b)
    color = [0] * n

    def dfs(u):
        color[u] = 1
        for v in adj[u]:
            if color[v] == 1 or (color[v] == 0 and dfs(v)):
                return True
        color[u] = 2
        return False
    return any(color[i] == 0 and dfs(i) for i in range(n))


def rc(rng, s):
    if rng is None:
        return s
    return "".join(ch.upper() if rng.random() < 0.5 else ch.lower() for ch in s)


def _section(rng, i, k):
    """the declaration section an instance variable is written in: a function block contains its instances whatever the section"""
    secs = ["VAR", "VAR_INPUT", "VAR_OUTPUT", "VAR_IN_OUT", "VAR"]
    return rng.choice(secs) if rng is not None else secs[(i * 7 + k * 3) % len(secs)]


def realise(n, edges, kind, rng, kinds=None):
    """returns (program text, model declaration list) for a dependency graph: edge (a, b) = a depends on b"""
    succ = {i: [b for a, b in edges if a == i] for i in range(n)}
    text = []
    decls = []
    # a variable / element of a structure type WITH an initial value, written before the instances / elements (it adds no edge;
    # whatever a visitor does on the way through it must leave the following declarations their edges)
    with_init = (rng.random() < 0.5) if rng is not None else (n % 2 == 0)
    pt_decl = "TYPE\n  PtInit : STRUCT x : INT; y : INT; END_STRUCT;\nEND_TYPE\n"
    if kind == "fb":
        for i in range(n):
            # every instance in a section of its own: an instance is contained whatever the section
            body = "".join("%s\n  v%d_%d : %s;\nEND_VAR\n" % (_section(rng, i, k), i, k, rc(rng, "Fb%d" % j))
                           for k, j in enumerate(succ[i]))
            if with_init:
                body = "VAR\n  p_init : PtInit := (x := 1);\nEND_VAR\n" + body
            text.append("FUNCTION_BLOCK Fb%d\n%sEND_FUNCTION_BLOCK\n" % (i, body))
            decls.append("P %d %s" % (i + 1, ",".join(str(j + 1) for j in succ[i])) if succ[i] else "P %d" % (i + 1))
        if with_init:
            text.insert(0, pt_decl)
            decls.append("L %d" % (n + 1))
        return "\n".join(text), decls
    if kind == "fbstruct":
        # a containment graph that crosses between function blocks and structures: kinds[i] says what node i is
        tl = []
        for i in range(n):
            if kinds[i] == "fb":
                vs = "".join("%s\n  v%d_%d : %s;\nEND_VAR\n" % (_section(rng, i, k), i, k, rc(rng, "Nd%d" % j))
                             for k, j in enumerate(succ[i]))
                text.append("FUNCTION_BLOCK Nd%d\n%sEND_FUNCTION_BLOCK\n" % (i, vs))
                decls.append("P %d %s" % (i + 1, ",".join(str(j + 1) for j in succ[i])) if succ[i] else "P %d" % (i + 1))
            elif not succ[i]:
                tl.append("  Nd%d : (A%d, B%d);" % (i, i, i))
                decls.append("L %d" % (i + 1))
            else:
                els = " ".join("e%d : %s;" % (k2, rc(rng, "Nd%d" % j)) for k2, j in enumerate(succ[i]))
                tl.append("  Nd%d : STRUCT %s END_STRUCT;" % (i, els))
                decls.append("S %d %s" % (i + 1, ",".join(str(j + 1) for j in succ[i])))
        if tl:
            text.insert(0, "TYPE\n" + "\n".join(tl) + "\nEND_TYPE\n")
        return "\n".join(text), decls
    tl = ["TYPE"]
    for i in range(n):
        k = kinds[i] if kinds else kind
        if not succ[i]:
            # what a chain of references ends at: an enumeration, a subrange, an array, a string, a structure of elementary
            # elements -- or nothing at all (the type is not declared)
            lk = rng.randrange(8) if rng is not None else (i * 5 + n) % 8
            if lk == 7 and any(b == i for a, b in edges):
                continue
            tl.append("  Ty%d : %s;" % (i, ["(A%d, B%d)" % (i, i), "(A%d, B%d)" % (i, i), "INT (0..%d)" % (i + 1), "ARRAY[1..2] OF INT",
                                           "STRING[%d]" % (i + 5), "STRUCT a : INT; END_STRUCT", "WSTRING[3]", "(A%d, B%d)" % (i, i)][lk]))
            decls.append("L %d" % (i + 1))
        elif k == "alias" and len(succ[i]) == 1:
            tl.append("  Ty%d : %s;" % (i, rc(rng, "Ty%d" % succ[i][0])))
            decls.append("A %d %d" % (i + 1, succ[i][0] + 1))
        else:
            els = " ".join("e%d : %s;" % (k2, rc(rng, "Ty%d" % j)) for k2, j in enumerate(succ[i]))
            if with_init:
                els = "e_init : PtInit := (x := 1); " + els
            tl.append("  Ty%d : STRUCT %s END_STRUCT;" % (i, els))
            decls.append("S %d %s" % (i + 1, ",".join(str(j + 1) for j in succ[i])))
    if with_init and any("e_init" in x for x in tl):
        tl.insert(1, "  PtInit : STRUCT x : INT; y : INT; END_STRUCT;")
        decls.append("L %d" % (n + 1))
    tl.append("END_TYPE")
    return "\n".join(tl) + "\n", decls


def all_digraphs(n):
    pairs = [(a, b) for a in range(n) for b in range(n)]
    for mask in range(1 << len(pairs)):
        yield [p for k, p in enumerate(pairs) if mask >> k & 1]


def gen(run):
    rng = run.rng
    graphs = []
    for n in (1, 2, 3):
        for es in all_digraphs(n):
            graphs.append((n, es, "exh%d" % n))
    four = list(range(1 << 16))
    if run.tier == "quick":
        four = rng.sample(four, 400)
    pairs4 = [(a, b) for a in range(4) for b in range(4)]
    for mask in four:
        graphs.append((4, [p for k, p in enumerate(pairs4) if mask >> k & 1], "exh4" if run.tier == "thorough" else "sample4"))
    nrand = 150 if run.tier == "quick" else 2000
    for _ in range(nrand):
        n = rng.randint(5, 12)
        m = rng.randint(0, 2 * n)
        es = list({(rng.randrange(n), rng.randrange(n)) for _ in range(m)})
        if rng.random() < 0.5:   # acyclic on purpose: only forward edges
            es = [(a, b) for a, b in es if a < b]
        graphs.append((n, es, "random"))
    # deep and wide acyclic families, and the same with one closing edge
    for n in (50, 200):
        chain = [(i, i + 1) for i in range(n - 1)]
        graphs.append((n, chain, "chain"))
        graphs.append((n, chain + [(n - 1, 0)], "chain-closed"))
    for n in (12, 24):
        dag = [(a, b) for a in range(n) for b in range(a + 1, n)]
        graphs.append((n, dag, "complete-dag"))
        graphs.append((n, dag + [(n - 1, n - 2)], "complete-dag+back"))
    for n in (30,):
        diamond = [(0, i) for i in range(1, n - 1)] + [(i, n - 1) for i in range(1, n - 1)]
        graphs.append((n, diamond, "diamond"))
    return graphs


def search(run, info):
    rng = run.rng
    graphs = gen(run)
    cases = []
    meta = []
    for n, es, fam in graphs:
        cyc = has_cycle(n, es)
        kinds = ["fb", "struct"]
        if all(sum(1 for a, b in es if a == i) <= 1 for i in range(n)):
            kinds.append("alias")
        if n <= 4 or fam == "random":
            kinds.append("mixed")
            kinds.append("fbstruct")
        for kind in kinds:
            case_rng = rng if rng.random() < 0.5 else None
            if kind == "mixed":
                ks = [rng.choice(["alias", "struct"]) for _ in range(n)]
                text, decls = realise(n, es, "mixed", case_rng, ks)
            elif kind == "fbstruct":
                ks = [rng.choice(["fb", "struct"]) for _ in range(n)]
                text, decls = realise(n, es, "fbstruct", case_rng, ks)
            else:
                text, decls = realise(n, es, kind, case_rng)
            meta.append((n, es, fam, kind, cyc, text, decls))
            cases.append({"id": len(cases), "op": "analyze", "files": [["g.st", hexs(text)]]})
    impl = vlib.run_impl(cases, run.workdir, per_case_timeout=30)
    model = {}
    if info.get("extract_ok"):
        model = vlib.run_model([("cycle", i, m[6]) for i, m in enumerate(meta)], run.workdir)
    known_keys = {k["key"] for k in run.known}
    for i, (n, es, fam, kind, cyc, text, decls) in enumerate(meta):
        r = impl[i]
        run.count((kind, n, tuple(sorted(es))), len(es) > 0, "%s:%s" % (fam, kind))
        if "panic" in r or "abort" in r:
            run.violation("impl-violates-property", "analysis crashed on a declaration graph: %s" % (r.get("panic") or r.get("abort")),
                          {"input": {"text": text}, "graph": {"n": n, "edges": es, "kind": kind}})
            continue
        if r.get("parse_errs"):
            run.violation("correspondence", "the realised graph did not parse: %r" % r["parse_errs"][:1],
                          {"input": {"text": text}}, no_input=True)
            continue
        reported = any(d["code"] == "P0010" for d in r["diags"])
        mo = model.get(str(i))
        mrep = None if not mo or mo[0] not in ("0", "1") else mo[0] == "1"
        if reported != cyc:
            # the property fails on this unit; is it the recorded class?
            mixed_cycle = kind == "mixed" and cyc and not reported and mrep is False
            if mixed_cycle and KNOWN_MIXED in known_keys:
                run.known_finding(KNOWN_MIXED, "a dependency cycle that runs through both an alias and a structure element is not reported as recursive (P0010 absent)")
            else:
                run.violation("impl-violates-property", "graph is %s but recursion is %s (%s realisation, %d nodes, edges %r)" % (
                    "cyclic" if cyc else "acyclic", "reported" if reported else "not reported", kind, n, es[:12]),
                    {"input": {"text": text}, "graph": {"n": n, "edges": es, "kind": kind}, "expected_cyclic": cyc})
                continue
        if mrep is not None:
            run.cov["traces_validated_against_impl"] += 1
            if mrep != reported:
                run.cov["disagreements_checked"] += 1
                run.violation("correspondence", "graph model says recursion %s, implementation %s (%s, edges %r)" % (
                    "reported" if mrep else "not reported", "reported" if reported else "not reported", kind, es[:12]),
                    {"input": {"text": text}, "graph": {"n": n, "edges": es, "kind": kind}}, no_input=True)
        if i % 900 == 0:
            run.sample({"nodes": n, "edges": es[:10], "realisation": kind, "cyclic": cyc, "P0010": reported})
    return {"coverage": {
        "rule": "every digraph on 1-3 nodes (self-loops included) and %s 4-node digraphs, each realised as a function-block instance "
                "graph, a structure graph, an alias graph (when every out-degree is <= 1), a mixed alias/structure graph and a "
                "containment graph whose nodes are function blocks and structures at random, "
                "in half of the units an initialized structure variable / element written before the instances / elements, "
                "a node without successors being an enumeration, subrange, array, string, structure or not declared at all, "
                "references spelled in random letter case for half of them; random graphs with 5-12 nodes; chains of 50/200, "
                "complete DAGs, diamonds, each also with one closing edge; non-trivial = at least one edge, distinct by "
                "(realisation, nodes, edge set)" % ("all 65536" if run.tier == "thorough" else "400 sampled"),
        "graphs": len(graphs),
        "exhaustive": run.tier == "thorough",
        "exhaustive_note": "digraphs on <= 3 nodes are always complete; 4-node digraphs are complete at the thorough tier"}}


def replay(run, rep):
    text = rep.get("input", {}).get("text")
    if text is None:
        return 2
    r = vlib.run_impl([{"id": 0, "op": "analyze", "files": [["g.st", hexs(text)]]}], run.workdir)[0]
    if "panic" in r or "abort" in r:
        return 1
    reported = any(d["code"] == "P0010" for d in r.get("diags", []))
    exp = rep.get("expected_cyclic")
    if exp is None:
        g = rep.get("graph")
        exp = has_cycle(g["n"], [tuple(e) for e in g["edges"]]) if g else reported
    return 0 if reported == exp else 1
