"""C13 -- command-line contract: exit status, OK line and diagnostics always agree.
Proof: Properties/C13.v (check: exit 0 <-> OK <-> no coded diagnostic, failure => coded diagnostic; directory = its files;
tokenize / echo exit 0 iff every file tokenizes / parses) for every file system and every behaviour of the stages.
Tie: the model's outcome, instantiated with per-file facts measured through the library, vs the real binary.
Search: generated valid and faulty file sets given as files, as a directory and mixed, in every argument order, with missing,
undecodable and directory entries; the contract is evaluated on the binary's exit status, stdout and stderr."""
import itertools
import os
import re
import subprocess
from concurrent.futures import ThreadPoolExecutor

import vlib
from vlib import hexs

NEED_BIN = True
MANIFEST_ENTRY = {
    "technique": "Coq proof of the check/echo/tokenize contract for a model of cli.rs + Project::semantic over an abstract file "
                 "system (all file systems, path lists and stage behaviours); model-vs-binary correspondence with per-file facts "
                 "measured through the library; contract evaluated directly on the binary for generated file sets",
    "text": "Theorems quantified over every file system, path list and every behaviour of decoding, tokenizing, parsing, analysis and "
            "rendering: `check` exits 0 iff it prints OK iff it emits no coded diagnostic, and a non-zero exit always carries at least "
            "one coded diagnostic; a directory of files is equivalent to the list of its entries for check, tokenize and echo; "
            "tokenize / echo exit 0 exactly when every file tokenizes / parses and renders; a path that does not exist fails all three commands "
            "(exit 1, no OK line, P0023 printed) at whatever position of the argument list it stands (C13_missing_path_fails); the verdict of "
            "check is the same for every order of the path arguments, given an analysis whose verdict does not depend on the order of the "
            "files (C13_argument_order). The model is tied to cli.rs and "
            "project.rs by comparing (exit status, OK line, code set) with the real `ironplcc` on every generated scenario; the "
            "contract is also evaluated directly on the binary's output.",
    "note": "Trusted: Coq kernel, extraction + driver, the scenario runner (temp directories, ANSI-stripped stderr). clap argument "
            "parsing, process exit status mapping of Err(String) to 1 and codespan's output format are runtime behaviour observed, "
            "not proved. Source order inside the project is a HashMap: only order-insensitive observables are compared. No axioms.",
}
TRUSTED = [
    "Coq 8.16.1 kernel; vm_compute only in the Example",
    "no axioms: every theorem of Properties/C13.v is closed under the global context",
    "cli.rs and Project::semantic are modelled by hand (Model/Cli.v), validated by correspondence on every scenario",
    "codespan-reporting prints one `error[Pnnnn]` line per diagnostic; main() maps Err to exit status 1",
]
ASSUMPTIONS = [
    "unreadable files are represented by undecodable content (the checks run as root, so permission bits do not make a file unreadable)",
    "for tokenize / echo the printed codes depend on HashMap order: exit status and OK line are compared exactly, codes as a subset",
]

POOL = [
    ("valid-fb", "FUNCTION_BLOCK Counter\nVAR n : INT; END_VAR\nn := n + 1;\nEND_FUNCTION_BLOCK\n".encode()),
    ("valid-prog", "PROGRAM main\nVAR x : INT; END_VAR\nx := 1;\nEND_PROGRAM\n".encode()),
    ("lexical-error", "PROGRAM plex\nVAR x : INT; END_VAR\nx := 1 ? 2;\nEND_PROGRAM\n".encode()),
    ("syntax-error", "PROGRAM psyn\nVAR x : INT; END_VAR\nx := ;\nEND_PROGRAM\n".encode()),
    ("semantic-error", "PROGRAM psem\nVAR x : INT; END_VAR\ny := 1;\nEND_PROGRAM\n".encode()),
    ("needs-valid-fb", "PROGRAM pdep\nVAR c : Counter; END_VAR\nc();\nEND_PROGRAM\n".encode()),
    ("undecodable", b"\xff\xfe\x41"),
    ("empty", b""),
    ("two-errors", "PROGRAM p2\nVAR x : INT; END_VAR\nx := 1 ? 2 ? 3;\nEND_PROGRAM\n".encode()),
]


def run_bin(binp, cmd, args, cwd):
    p = subprocess.run([binp, cmd] + args, stdout=subprocess.PIPE, stderr=subprocess.PIPE, timeout=60, cwd=cwd)
    err = re.sub(r"\x1b\[[0-9;]*m", "", p.stderr.decode("utf-8", "replace"))
    out = p.stdout.decode("utf-8", "replace")
    codes = re.findall(r"^error\[(P\d+)\]", err, re.M)
    ok = any(l.strip() == "OK" for l in out.split("\n"))
    return {"exit": p.returncode, "ok": ok, "codes": codes, "stderr": err[-600:], "stdout": out[-200:]}


def contract(cmd, o):
    """the property on the binary's observable behaviour"""
    if o["exit"] not in (0, 1):
        return "exit status %r" % o["exit"]
    if cmd == "check":
        if (o["exit"] == 0) != o["ok"]:
            return "exit status %d but OK line %s" % (o["exit"], "printed" if o["ok"] else "absent")
        if (o["exit"] == 0) != (len(o["codes"]) == 0):
            return "exit status %d with %d coded diagnostics" % (o["exit"], len(o["codes"]))
    else:
        if o["exit"] != 0 and not o["codes"]:
            return "%s failed (exit %d) without a coded diagnostic" % (cmd, o["exit"])
        if o["exit"] == 0 and o["codes"]:
            return "%s exited 0 but printed coded diagnostics %r" % (cmd, o["codes"])
        if cmd == "tokenize" and (o["exit"] == 0) != o["ok"]:
            return "tokenize exit status %d but OK line %s" % (o["exit"], "printed" if o["ok"] else "absent")
    return None


def search(run, info):
    rng = run.rng
    wd = run.workdir
    binp = vlib.ironplcc_bin()
    # per-content facts through the library
    texts = []
    for name, b in POOL:
        try:
            texts.append(b.decode("utf-8"))
        except UnicodeDecodeError:
            texts.append(None)
    dec = [i for i, t in enumerate(texts) if t is not None]
    tk = vlib.run_impl([{"id": i, "op": "tok", "text": hexs(texts[i])} for i in dec], wd)
    pr = vlib.run_impl([{"id": i, "op": "parse", "text": hexs(texts[i])} for i in dec], wd)
    tok_codes = {}
    parse_code = {}
    for k, i in enumerate(dec):
        tok_codes[i] = [int(d["code"][1:]) for d in tk[k].get("diags", [])]
        if not tok_codes[i] and "err" in pr[k]:
            parse_code[i] = int(pr[k]["err"]["code"][1:])
    parses = {i for i in dec if not tok_codes[i] and i not in parse_code}
    ana_cache = {}

    def analysis(contents):
        key = tuple(sorted(c for c in contents if c in parses))
        if key not in ana_cache:
            r = vlib.run_impl([{"id": 0, "op": "analyze", "files": [["f%d.st" % j, hexs(texts[c])] for j, c in enumerate(key)]}], wd)[0]
            ana_cache[key] = sorted(set(int(d["code"][1:]) for d in r.get("diags", [])))
        return ana_cache[key]

    # scenarios: a file system (names -> content id | dir -> names) and argument lists
    scenarios = []
    nsets = 25 if run.tier == "quick" else 150
    sets = [[0], [1], [2], [3], [4], [5], [6], [7], [0, 5], [0, 1, 3], [1, 4, 2], [0, 5, 1, 8], [6, 1], [7, 1], [3, 2], [1, 1]]
    while len(sets) < nsets:
        k = rng.randint(1, 4)
        sets.append([rng.randrange(len(POOL)) for _ in range(k)])
    for si, contents in enumerate(sets):
        files = ["f%d.st" % j for j in range(len(contents))]
        fsys = {"files": dict(zip(files, contents)), "dirs": {"d": list(files)}}
        orders = list(itertools.permutations(files))
        if len(orders) > 6 and run.tier == "quick":
            orders = rng.sample(orders, 6)
        for cmd in ("check", "tokenize", "echo"):
            for o in orders:
                scenarios.append((si, fsys, cmd, list(o), "files"))
            scenarios.append((si, fsys, cmd, ["d"], "dir"))
            if len(files) > 1:
                scenarios.append((si, fsys, cmd, ["d2", files[0]], "mixed"))
            # a missing path at every position
            for pos in range(len(files) + 1):
                a = list(files)
                a.insert(pos, "missing.st")
                scenarios.append((si, fsys, cmd, a, "missing"))
            scenarios.append((si, fsys, cmd, ["dsub"], "dir-with-subdir"))
            # a directory whose entries are symbolic links to the files: the same set as the directory of the files
            scenarios.append((si, fsys, cmd, ["dlink"], "dir-of-links"))
            # the same file reached twice -- through its directory and by its own path, the directory in two spellings, a file
            # in two spellings: still the set of the directory's files, once each
            for a in (["d", "d/" + files[0]], ["d/" + files[-1], "d"], ["d", "./d"], ["./d/", "d"],
                      ["d/" + f for f in files] + ["./d/" + files[0]], ["d/../d"]):
                scenarios.append((si, fsys, cmd, a, "overlap"))
    for cmd in ("check", "tokenize", "echo"):
        scenarios.append((-1, {"files": {}, "dirs": {"d": []}}, cmd, [], "no-paths"))
        scenarios.append((-1, {"files": {}, "dirs": {"d": []}}, cmd, ["d"], "empty-dir"))

    # materialise each set once
    roots = {}
    for si, fsys, cmd, args, kind in scenarios:
        if si in roots:
            continue
        root = os.path.join(wd, "set%d" % si)
        os.makedirs(os.path.join(root, "d"), exist_ok=True)
        os.makedirs(os.path.join(root, "d2"), exist_ok=True)
        os.makedirs(os.path.join(root, "dsub", "inner"), exist_ok=True)
        for name, c in fsys["files"].items():
            for sub in ("", "d", "dsub"):
                with open(os.path.join(root, sub, name), "wb") as f:
                    f.write(POOL[c][1])
        names = sorted(fsys["files"])
        for name in names[1:]:
            with open(os.path.join(root, "d2", name), "wb") as f:
                f.write(POOL[fsys["files"][name]][1])
        os.makedirs(os.path.join(root, "dlink"), exist_ok=True)
        for name in names:
            lp = os.path.join(root, "dlink", name)
            if not os.path.lexists(lp):
                os.symlink(os.path.join("..", name), lp)
        roots[si] = root

    def job(sc):
        si, fsys, cmd, args, kind = sc
        return run_bin(binp, cmd, args, roots[si])

    with ThreadPoolExecutor(max_workers=vlib.NCPU) as ex:
        outs = list(ex.map(job, scenarios))

    # model predictions
    lines = []
    for i, (si, fsys, cmd, args, kind) in enumerate(scenarios):
        if kind == "overlap":
            continue        # compared with the other presentations of the set below; the model's paths are names, not spellings
        pid = {}
        specs = []

        def P(name):
            if name not in pid:
                pid[name] = len(pid) + 1
            return pid[name]
        names = sorted(fsys["files"])
        for n in names:
            c = fsys["files"][n]
            specs.append("%d:%s" % (P(n), "U" if texts[c] is None else "F%d" % c))
        specs.append("%d:D%s" % (P("d"), ",".join(str(P(n)) for n in names)))
        specs.append("%d:D%s" % (P("d2"), ",".join(str(P(n)) for n in names[1:])))
        specs.append("%d:D%s" % (P("dsub"), ",".join([str(P(n)) for n in names] + [str(P("inner"))])))
        specs.append("%d:D" % P("inner"))
        specs.append("%d:D%s" % (P("dlink"), ",".join(str(P(n)) for n in names)))
        # which contents end up in the project (for the analysis parameter)
        listed = []
        for a in args:
            if a in fsys["files"]:
                listed.append(fsys["files"][a])
            elif a in ("d", "dlink"):
                listed += [fsys["files"][n] for n in names]
            elif a == "d2":
                listed += [fsys["files"][n] for n in names[1:]]
        ana = analysis(listed)
        tokS = ";".join("%d:%s" % (c, ",".join(map(str, v))) for c, v in sorted(tok_codes.items()) if v) or "-"
        parS = ";".join("%d:%d" % (c, v) for c, v in sorted(parse_code.items())) or "-"
        cmdn = {"check": "0", "tokenize": "1", "echo": "2"}[cmd]
        lines.append(("cli", i, [cmdn, "|".join(specs), tokS, parS, "-", ",".join(map(str, ana)) or "-", ",".join(str(P(a)) for a in args) or "-"]))
    model = vlib.run_model(lines, wd) if info.get("extract_ok") else {}

    by_set = {}
    for i, (sc, o) in enumerate(zip(scenarios, outs)):
        si, fsys, cmd, args, kind = sc
        run.count((si, cmd, tuple(args)), len(args) > 0, "%s:%s" % (cmd, kind))
        fail = contract(cmd, o)
        desc = {"command": cmd, "args": args, "files": {n: POOL[c][0] for n, c in fsys["files"].items()}, "layout": kind}
        if fail:
            run.violation("impl-violates-property", "%s %s: %s" % (cmd, " ".join(args), fail), {"scenario": desc, "observed": o})
            continue
        if kind in ("files", "dir", "dir-of-links", "overlap"):
            by_set.setdefault((si, cmd), []).append((kind, args, o, fsys))
        mo = model.get(str(i))
        if mo and len(mo) >= 2 and mo[0] not in ("bad-args", "unknown-op"):
            run.cov["traces_validated_against_impl"] += 1
            mexit, mok = int(mo[0]), mo[1] == "1"
            mcodes = set(int(x) for x in mo[2].split(",")) if len(mo) > 2 and mo[2] else set()
            ocodes = set(int(c[1:]) for c in o["codes"])
            same = mexit == o["exit"] and (mok == o["ok"] or cmd == "echo")
            if cmd == "check" or kind in ("missing", "dir-with-subdir"):
                same = same and mcodes == ocodes
            else:
                same = same and (bool(mcodes) == bool(ocodes))
            if not same:
                run.cov["disagreements_checked"] += 1
                run.violation("correspondence", "command-line model and binary differ for `%s %s` (%s): model exit %d ok %s codes %r; binary exit %d ok %s codes %r" % (
                    cmd, " ".join(args), kind, mexit, mok, sorted(mcodes), o["exit"], o["ok"], sorted(ocodes)), {"scenario": desc}, no_input=True)
        if i % 400 == 0:
            run.sample({"command": cmd, "args": args, "layout": kind, "exit": o["exit"], "ok": o["ok"], "codes": o["codes"]})
    # a directory is the list of its files, and the argument order does not matter
    for (si, cmd), lst in by_set.items():
        ref = None
        for kind, args, o, fsys in lst:
            key = (o["exit"], o["ok"], tuple(sorted(set(o["codes"]))) if cmd == "check" else bool(o["codes"]))
            if ref is None:
                ref = (key, kind, args)
            elif key != ref[0]:
                run.violation("impl-violates-property", "`%s` gives a different result for %s %r than for %s %r: %r vs %r" % (
                    cmd, kind, args, ref[1], ref[2], key, ref[0]),
                    {"scenario": {"command": cmd, "args": args, "other_args": ref[2], "layout": kind, "files": {n: POOL[c][0] for n, c in fsys["files"].items()}}})
                break
    return {"coverage": {
        "rule": "file sets of 1-4 files drawn from a pool (valid, lexical / syntax / semantic error, depends-on-other, undecodable, "
                "empty) given as files in every argument order (sampled above 6 at the quick tier), as a directory, as a mixture of "
                "directory and file, with a missing path at every position, as a directory containing a sub-directory, plus no "
                "paths and an empty directory; each for check, tokenize and echo; non-trivial = at least one path argument, distinct "
                "by (set, command, arguments)",
        "scenarios": len(scenarios),
        "file_sets": len(sets),
        "exhaustive": False}}


def replay(run, rep):
    sc = rep.get("scenario")
    if not sc or "files" not in sc:
        return 2
    byname = {n: b for n, b in POOL}
    root = os.path.join(run.workdir, "replay")
    os.makedirs(os.path.join(root, "d"), exist_ok=True)
    os.makedirs(os.path.join(root, "d2"), exist_ok=True)
    os.makedirs(os.path.join(root, "dsub", "inner"), exist_ok=True)
    names = sorted(sc["files"])
    for n in names:
        for sub in ("", "d", "dsub"):
            with open(os.path.join(root, sub, n), "wb") as f:
                f.write(byname[sc["files"][n]])
    for n in names[1:]:
        with open(os.path.join(root, "d2", n), "wb") as f:
            f.write(byname[sc["files"][n]])
    os.makedirs(os.path.join(root, "dlink"), exist_ok=True)
    for n in names:
        lp = os.path.join(root, "dlink", n)
        if not os.path.lexists(lp):
            os.symlink(os.path.join("..", n), lp)
    o = run_bin(vlib.ironplcc_bin(), sc["command"], sc["args"], root)
    if contract(sc["command"], o):
        return 1
    if sc.get("other_args") is not None:
        o2 = run_bin(vlib.ironplcc_bin(), sc["command"], sc["other_args"], root)
        k = lambda x: (x["exit"], x["ok"], tuple(sorted(set(x["codes"]))) if sc["command"] == "check" else bool(x["codes"]))
        return 1 if k(o) != k(o2) else 0
    return 0
