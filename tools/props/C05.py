"""C05 -- every reported position points at the text it is about.
Proof: Properties/C05.v (tiling, line/column, preprocessor offsets, synthetic ';').
Tie: token correspondence model vs tokenize_program on in-domain texts.
Search: the property itself evaluated on the implementation's tokens, identifiers and diagnostics."""
import os
import re
import subprocess

import gen_text
import gen_prog
import gen_sem
import rules_corr
import vlib
from vlib import hexs

NEED_BIN = True
MANIFEST_ENTRY = {
    "technique": "Coq proof (induction over the text) of span tiling, line/column and offset preservation for an executable "
                 "lexer model driven by the token table regenerated from token.rs; model/implementation correspondence on "
                 "generated texts; direct position checks on implementation tokens, identifiers and diagnostics",
    "text": "Theorems for every text (no bound): lexer items tile the preprocessed text from offset 0 with adjacent, non-empty "
            "spans on character boundaries whose text is the slice; line/column are the line feeds before / bytes after the "
            "last line feed of the span start; OSCAT blanking keeps every byte offset and line break; the synthetic ';' has "
            "empty text and the next token's position. The theorems are about coq/Model/Lexer.v, tied to lexer.rs/token.rs/"
            "preprocessor.rs/xform_tokens.rs by the regenerated token table and by comparing model and tokenize_program "
            "token-for-token (kind, span, line, column) on every generated text. Identifier spans, file ids and diagnostic "
            "labels are checked on the implementation only (searched, not proved).",
    "note": "Trusted: Coq kernel (vm_compute for finite-table obligations), translator, ExtrOcamlBasic extraction + OCaml driver, "
            "Rust harness. logos is modelled (maximal munch + priorities + no-backtrack out of an unclosed comment), validated by "
            "correspondence. No axioms.",
}
TRUSTED = [
    "Coq 8.16.1 kernel (coqc; vm_compute used for finite table obligations and the Example)",
    "no axioms: every theorem of Properties/C05.v is closed under the global context",
    "tools/translate.py: transcription of token.rs into coq/Gen/GenTokens.v",
    "extraction (ExtrOcamlBasic only) + ocaml/driver.ml (hex/decimal conversion, UTF-8 decoding of case texts)",
    "harness/src/main.rs calls ironplc_parser::tokenize_program / parse_program and prints their results",
    "logos 0.14 is modelled (maximal munch over the generated table, hand-written recognisers per regex), "
    "not verified; validated by the correspondence on every run",
    "Identifier spans and diagnostic labels are checked on the implementation only (parser proof scope: see C01)",
]
ASSUMPTIONS = [
    "model claimed exact on texts whose non-ASCII characters all lie inside comments or strings (in_domain); "
    "outside that domain only the implementation-side invariants are checked",
    "column unit: bytes since the last LF is what the implementation uses; characters or UTF-16 units would also be accepted",
]

OPEN = b"(*@KEY@:DESCRIPTION*)"
CLOSE = b"(*@KEY@:END_DESCRIPTION*)"


def preprocess_expected(b):
    """intended behaviour of the preprocessor on bytes: blank the block byte for byte, keep LF"""
    s = b.find(OPEN)
    e = b.find(CLOSE)
    if s >= 0 and e >= 0 and s < e:
        k = s + len(OPEN)
        mid = bytes(10 if x == 10 else 32 for x in b[k:e])
        return b[:k] + mid + b[e:]
    return b


def is_boundary(b, off):
    if off == len(b):
        return True
    if off > len(b):
        return False
    return (b[off] & 0xC0) != 0x80


def line_col(b, off):
    line = b.count(b"\n", 0, off)
    last = b.rfind(b"\n", 0, off)
    seg = b[last + 1:off]
    col_bytes = len(seg)
    try:
        s = seg.decode("utf-8")
        col_chars = len(s)
        col_u16 = len(s.encode("utf-16-le")) // 2
    except UnicodeDecodeError:
        col_chars = col_u16 = col_bytes
    return line, {col_bytes, col_chars, col_u16}


def check_tokens_property(text, res):
    """the property on the implementation's answer; returns None or a description of the failure"""
    b = text.encode("utf-8")
    pp = preprocess_expected(b)
    toks = res["tokens"]
    items = []
    for i, t in enumerate(toks):
        kind, s, e, line, col, th, fid = t
        tb = bytes.fromhex(th)
        if len(tb) == 0:
            # synthetic: must be ';' carrying the position of the next token
            if kind != "Semicolon":
                return "synthetic token of kind %s" % kind
            if i + 1 >= len(toks):
                return "synthetic token at end"
            n = toks[i + 1]
            if (s, e, line, col) != (n[1], n[2], n[3], n[4]) or len(n[5]) == 0:
                return "synthetic ';' does not carry the position of the next token: %r vs %r" % (t[:5], n[:5])
            continue
        if fid != "f.st":
            return "token %r carries file id %r" % (t[:3], fid)
        if pp[s:e] != tb:
            return "token text %r is not the source slice %r at [%d,%d)" % (tb, pp[s:e], s, e)
        l, cols = line_col(pp, s)
        if line != l or col not in cols:
            return "token %s at [%d,%d) reports line %d col %d, its span start is at line %d col %s" % (
                kind, s, e, line, col, l, sorted(cols))
        items.append((s, e))
    for d in res["diags"]:
        if d["code"] != "P0031":
            continue
        if d["file"] != "f.st":
            return "lexical diagnostic carries file id %r" % d["file"]
        items.append((d["start"], d["end"]))
        m = re.search(r"at line (\d+) colum (\d+)\.$", d["msg"], re.S)
        if m:
            l, cols = line_col(pp, d["start"])
            if int(m.group(1)) - 1 != l or (int(m.group(2)) - 1) not in cols:
                return "lexical error at [%d,%d) reported at line %s column %s (1-based), is at line %d col %s (0-based)" % (
                    d["start"], d["end"], m.group(1), m.group(2), l, sorted(cols))
    items.sort()
    pos = 0
    for s, e in items:
        if s != pos:
            return "gap or overlap: item starts at %d, previous ended at %d" % (s, pos)
        if e <= s:
            return "empty or inverted span [%d,%d)" % (s, e)
        if not is_boundary(pp, s) or not is_boundary(pp, e):
            return "span [%d,%d) not on character boundaries" % (s, e)
        pos = e
    if pos != len(pp):
        return "items end at %d, text has %d bytes" % (pos, len(pp))
    return None


ELEMENTARY = {"BOOL", "SINT", "INT", "DINT", "LINT", "USINT", "UINT", "UDINT", "ULINT", "REAL", "LREAL", "TIME", "DATE",
              "TIME_OF_DAY", "DATE_AND_TIME", "STRING", "BYTE", "WORD", "DWORD", "LWORD", "WSTRING", "TOD", "DT"}


def check_ids_property(text, fid, res):
    b = text.encode("utf-8")
    pp = preprocess_expected(b)
    col = res.get("collect")
    if not col:
        return None
    for orig, s, e, f, low in col["ids"]:
        if f != fid:
            return "identifier %r carries file id %r, read from %r" % (orig, f, fid)
        if low != orig.lower():
            return "identifier %r has key %r" % (orig, low)
        if (s, e) == (0, 0) and (orig == "" or orig.upper() in ELEMENTARY):
            continue  # synthesised identifier (elementary type keyword / placeholder)
        if pp[s:e].decode("utf-8", "replace") != orig:
            return "identifier %r carries span [%d,%d) which reads %r" % (orig, s, e, pp[s:e])
    for s, e, f in col["spans"]:
        if f != fid:
            return "a span [%d,%d) carries file id %r, read from %r" % (s, e, f, fid)
        if e > len(pp) or s > e and (s, e) != (0, 0):
            return "span [%d,%d) outside the text (%d bytes)" % (s, e, len(pp))
    return None


def _word(c):
    return chr(c).isalnum() or c == 95 or c >= 128


def label_sanity(file, s, e, files):
    """a label must lie inside the file it names, be non-empty, on character boundaries, and cover whole words"""
    if file not in files:
        return "label names file %r, which is not in the set %r" % (file, sorted(files))
    b = files[file].encode("utf-8")
    if not (0 <= s < e <= len(b)):
        return "label [%d,%d) is empty or outside the text (%d bytes)" % (s, e, len(b))
    if not is_boundary(b, s) or not is_boundary(b, e):
        return "label [%d,%d) is not on character boundaries" % (s, e)
    sl = b[s:e].decode("utf-8", "replace")
    if sl != sl.strip():
        return "label [%d,%d) = %r begins or ends with white space" % (s, e, sl)
    if s > 0 and _word(b[s - 1]) and _word(b[s]):
        return "label [%d,%d) = %r begins in the middle of a word" % (s, e, sl)
    if e < len(b) and _word(b[e - 1]) and _word(b[e]):
        return "label [%d,%d) = %r ends in the middle of a word" % (s, e, sl)
    return None


def check_sem_labels(run):
    """semantic diagnostics: every label (primary and secondary) passes label_sanity, and the primary label of the planted
    rule's diagnostic lies in the lines that carry the fault (gen_sem plants one fault by changing or inserting lines of one
    declaration).  P0003 reports the structure (its name), P0018 the external variable (the line after the changed block
    header): for those the label's text is compared with the name."""
    rng = run.rng
    n_units = 25 if run.tier == "quick" else 400
    cases, meta = [], []
    for _ in range(n_units):
        u = gen_sem.gen_valid(rng)
        base = gen_sem.render(u)
        for code, what, m in gen_sem.mutants(u, rng):
            t = gen_sem.render(m)
            k = next((j for j in range(len(u)) if u[j].lines != m[j].lines), None)
            meta.append((code, what, base, t, m[k].name if k is not None else None))
            cases.append({"id": len(cases), "op": "analyze", "files": [["dir/u 1.st", hexs(t)]]})
    res = vlib.run_impl(cases, run.workdir, per_case_timeout=30)
    by_code = {}
    for (code, what, base, t, dname), r in zip(meta, res):
        run.count(("semlabel", t), True, "semantic-label:" + code)
        if "panic" in r or "abort" in r or r.get("parse_errs"):
            continue
        files = {"dir/u 1.st": t}
        bad = None
        for d in r.get("diags", []):
            for (f, s, e) in [(d["file"], d["start"], d["end"])] + [tuple(x) for x in d.get("secondary", [])]:
                if (f, s, e) == ("", 0, 0) and d["code"] != code:
                    continue      # a diagnostic without location ("not implemented", P9999): printed with no label at all
                bad = bad or label_sanity(f, s, e, files)
            if not bad and any(tuple(x) == (d["file"], d["start"], d["end"]) for x in d.get("secondary", [])):
                bad = "a secondary label repeats the primary label [%d,%d): it names nothing else" % (d["start"], d["end"])
            if bad:
                bad = "%s: %s" % (d["code"], bad)
                break
        ds = [d for d in r.get("diags", []) if d["code"] == code]
        if not bad and ds:
            d = ds[0]
            b = t.encode("utf-8")
            bl, tl = base.split("\n"), t.split("\n")
            i = 0
            while i < min(len(bl), len(tl)) and bl[i] == tl[i]:
                i += 1
            j = 0
            while j < min(len(bl), len(tl)) - i and bl[-1 - j] == tl[-1 - j]:
                j += 1
            lo, hi = i, max(len(tl) - j, i + 1)
            line = b.count(b"\n", 0, d["start"])
            sl = b[d["start"]:d["end"]].decode("utf-8", "replace")
            if code == "P0003":
                ok = dname is not None and sl.lower() == dname.lower()
                want = "the structure's name %r" % dname
                # "First use of name" is the first element of that name in the structure, "Second use of name" a later one;
                # every repeated element has its own diagnostic
                seconds = []
                for dd in ds:
                    sec = [tuple(x) for x in dd.get("secondary", [])]
                    if not ok or len(sec) != 2:
                        ok = ok and len(sec) == 2
                        want = "the structure's name with two secondary labels"
                        break
                    nm = b[sec[1][1]:sec[1][2]].decode("utf-8", "replace")
                    l1, l2 = b.count(b"\n", 0, sec[0][1]), b.count(b"\n", 0, sec[1][1])
                    hdr = next((x for x in range(len(tl)) if re.match(r"\s*%s\s*:\s*STRUCT\b" % re.escape(dname), tl[x], re.I)), None)
                    uses = []
                    if hdr is not None:
                        x = hdr + 1
                        while x < len(tl) and not re.match(r"\s*END_STRUCT\b", tl[x], re.I):
                            if re.match(r"\s*%s\s*:" % re.escape(nm), tl[x], re.I):
                                uses.append(x)
                            x += 1
                    if (len(uses) < 2 or l1 != uses[0] or l2 not in uses[1:] or
                            b[sec[0][1]:sec[0][2]].decode("utf-8", "replace").lower() != nm.lower()):
                        ok = False
                        want = "the structure's name, with 'First use' on the first element named %r (line %d) and 'Second use' on a later " \
                               "one (lines %r); the labels are on lines %d and %d" % (nm, (uses[0] + 1) if uses else 0, [u + 1 for u in uses[1:]], l1 + 1, l2 + 1)
                        break
                    seconds.append(l2)
                if ok and len(set(seconds)) != len(seconds):
                    ok = False
                    want = "one diagnostic per repeated element (second uses on lines %r)" % ([x + 1 for x in seconds],)
            elif code == "P0018":
                g = what.split("constant global ")[1].split(" ")[0]
                ok = sl.lower() == g.lower() and lo <= line <= hi
                want = "the external variable %r" % g
                # the secondary label is the global's own declaration: the same name, in another declaration
                sec = [tuple(x) for x in d.get("secondary", [])]
                if ok and (not sec or any(b[x[1]:x[2]].decode("utf-8", "replace").lower() != g.lower() or lo <= b.count(b"\n", 0, x[1]) <= hi for x in sec)):
                    ok = False
                    want = "the external variable %r with a secondary label on the declaration of the global constant (secondary labels: %r)" % (
                        g, [(b[x[1]:x[2]].decode("utf-8", "replace"), b.count(b"\n", 0, x[1]) + 1) for x in sec])
            else:
                ok = lo <= line < hi
                want = "text in lines %d..%d (%r)" % (lo + 1, hi, " / ".join(x.strip() for x in tl[lo:hi])[:80])
                # the label covers the thing the message names
                named = {"P0014": "NOT_A_VALUE", "P0022": "NoSuchType", "P0011": "no_such_task", "P0016": "k_noinit", "P0017": "k_fb"}.get(code)
                if ok and named and named.lower() not in sl.lower():
                    ok = False
                    want = "%r (the label must cover it)" % named
            if not ok:
                bad = "%s (%s): the label covers %r in line %d, the diagnostic is about %s" % (code, what, sl, line + 1, want)
            by_code[code] = by_code.get(code, 0) + 1
        if bad:
            run.violation("impl-violates-property", "a semantic diagnostic's label does not point at the text it is about: " + bad,
                          {"input": {"text": t, "file": "dir/u 1.st"}, "op": "analyze", "planted": [code, what]})
    return by_code


def check_cli_positions(run):
    """what the command line prints: for a file with one syntax error `ironplcc check` and `ironplcc echo` must both print the
    diagnostic against the line and column of its label (computed from the label's offset in the text)"""
    rng = run.rng
    binp = vlib.ironplcc_bin()
    if not os.path.exists(binp):
        return 0
    texts = []
    n = 30 if run.tier == "quick" else 300
    tries = 0
    while len(texts) < n and tries < 20 * n:
        tries += 1
        t = gen_prog.render(gen_prog.gen_library(rng), gen_prog.Spelling(rng, respell=True))
        lines = t.split("\n")
        cand = [i for i, l in enumerate(lines) if ":=" in l]
        if len(cand) < 1 or len(lines) < 4:
            continue
        i = rng.choice(cand)
        lines[i] = lines[i].replace(":=", ":= :=", 1) if rng.random() < 0.5 else lines[i].replace(":=", "", 1)
        texts.append("\n".join(lines))
    res = vlib.run_impl([{"id": i, "op": "parse", "text": hexs(t), "file": "x.st"} for i, t in enumerate(texts)], run.workdir)
    d = os.path.join(run.workdir, "cli_pos")
    os.makedirs(d, exist_ok=True)
    checked = 0
    for i, t in enumerate(texts):
        r = res[i]
        if "err" not in r:
            continue
        b = t.encode("utf-8")
        line, cols = line_col(b, r["err"]["start"])
        p = os.path.join(d, "f%d.st" % i)
        with open(p, "w", encoding="utf-8") as f:
            f.write(t)
        run.count(("clipos", t), True, "cli-position")
        for cmd in ("check", "echo"):
            pr = subprocess.run([binp, cmd, p], stdout=subprocess.PIPE, stderr=subprocess.PIPE, timeout=60)
            err = re.sub(r"\x1b\[[0-9;]*m", "", pr.stderr.decode("utf-8", "replace"))
            m = re.search(r"error\[(P\d+)\][^\n]*\n\s*┌─ ([^\n]*?):(\d+):(\d+)", err)
            if not m:
                run.violation("impl-violates-property", "`ironplcc %s` prints no located diagnostic for a file with a syntax error" % cmd,
                              {"input": {"text": t}, "op": "cli-" + cmd, "stderr": err[-600:]})
                continue
            pl, pc = int(m.group(3)) - 1, int(m.group(4)) - 1
            checked += 1
            if pl != line or pc not in cols:
                run.violation("impl-violates-property",
                              "`ironplcc %s` prints %s at line %d column %d; its label starts at line %d column %s (1-based) of the file" % (
                                  cmd, m.group(1), pl + 1, pc + 1, line + 1, sorted(c + 1 for c in cols)),
                              {"input": {"text": t}, "op": "cli-" + cmd, "stderr": err[-600:]})
    return checked


def model_tokens(fields):
    dom = fields[0] == "1"
    toks = []
    if len(fields) > 1 and fields[1]:
        for t in fields[1].split(";"):
            k, s, e, l, c = t.split(" ")
            toks.append((k, int(s), int(e), int(l), int(c)))
    errs = []
    if len(fields) > 2 and fields[2]:
        for t in fields[2].split(";"):
            s, e = t.split(" ")
            errs.append((int(s), int(e)))
    return dom, toks, errs


def search(run, info):
    rng = run.rng
    texts = []
    for t in gen_text.CORPUS:
        texts.append(("corpus", t))
    for name, t in gen_text.fixtures():
        texts.append(("fixture", t))
    n_soup = 1500 if run.tier == "quick" else 20000
    for _ in range(n_soup):
        texts.append(("soup", gen_text.token_soup(rng)))
    n_prog = 150 if run.tier == "quick" else 1500
    progs = [gen_prog.render(gen_prog.gen_library(rng), gen_prog.Spelling(rng, respell=True)) for _ in range(n_prog)]
    for p in progs:
        texts.append(("program", p))

    cases = [{"id": i, "op": "tok", "text": hexs(t)} for i, (_, t) in enumerate(texts)]
    impl = vlib.run_impl(cases, run.workdir)
    model = {}
    if info.get("extract_ok"):
        model = vlib.run_model([("lex", i, [hexs(t)]) for i, (_, t) in enumerate(texts)], run.workdir)
    in_dom = 0
    for i, (tag, t) in enumerate(texts):
        r = impl[i]
        nontrivial = len(t) > 0
        run.count(t, nontrivial, "lex:" + tag)
        if "panic" in r or "abort" in r:
            run.violation("impl-violates-property", "tokenize_program crashed",
                          {"input": {"text_hex": hexs(t)}, "observed": r})
            continue
        fail = check_tokens_property(t, r)
        if fail:
            run.violation("impl-violates-property", fail,
                          {"input": {"text_hex": hexs(t), "text": t}, "op": "tok", "observed_tokens": [x[:5] for x in r["tokens"]][:60]})
            continue
        m = model.get(str(i))
        if m and m[0] not in ("model-stack-overflow",):
            dom, mt, me = model_tokens(m)
            if dom:
                in_dom += 1
                run.cov["traces_validated_against_impl"] += 1
                it = [(x[0], x[1], x[2], x[3], x[4]) for x in r["tokens"]]
                ie = [(d["start"], d["end"]) for d in r["diags"] if d["code"] == "P0031"]
                if it != mt or ie != me:
                    run.cov["disagreements_checked"] += 1
                    k = next((j for j in range(min(len(it), len(mt))) if it[j] != mt[j]), min(len(it), len(mt)))
                    # the property held on the implementation's answer (checked above): the tie is broken
                    run.violation("correspondence", "lexer model and tokenize_program disagree at token %d: impl %r model %r; errors impl %r model %r" % (
                        k, it[k:k + 2], mt[k:k + 2], ie[:3], me[:3]),
                        {"input": {"text_hex": hexs(t), "text": t}, "op": "tok"}, no_input=True)
        if i % 400 == 0:
            run.sample({"text": t[:120], "tokens": [x[:5] for x in r["tokens"]][:8]})

    # identifiers and spans of parsed libraries (fixtures and generated programs)
    pcases = []
    ptexts = []
    for name, t in gen_text.fixtures():
        ptexts.append(t)
    ptexts.extend(progs)
    # a byte order mark or other stray character in front must not shift what follows
    for lead in ("\ufeff", "\u00a0", "\ufeff\ufeff"):
        for pr in progs[:10]:
            ptexts.append(lead + pr)
    for i, t in enumerate(ptexts):
        pcases.append({"id": i, "op": "parse", "text": hexs(t), "file": "dir/some file.st", "collect": True})
    pres = vlib.run_impl(pcases, run.workdir)
    nids = 0
    for i, t in enumerate(ptexts):
        r = pres[i]
        run.count(("ids", t), True, "ids")
        if "panic" in r or "abort" in r:
            continue  # C04's business
        if "ok" in r:
            nids += len(r["collect"]["ids"])
            fail = check_ids_property(t, "dir/some file.st", r)
            if fail:
                run.violation("impl-violates-property", fail, {"input": {"text_hex": hexs(t), "text": t}, "op": "parse"})
        elif "err" in r:
            d = r["err"]
            b = preprocess_expected(t.encode("utf-8"))
            if d["file"] != "dir/some file.st" or d["end"] > len(b) or d["start"] > d["end"] \
                    or not is_boundary(b, d["start"]) or not is_boundary(b, d["end"]):
                run.violation("impl-violates-property", "syntax diagnostic label [%d,%d) in %r is not inside the file" % (
                    d["start"], d["end"], d["file"]), {"input": {"text_hex": hexs(t), "text": t}, "op": "parse"})
    sem_labels = check_sem_labels(run)
    # the labels of the three rules on type declarations against the places the Coq models put them (C05_struct_labels,
    # C05_enum_labels, C05_subrange_labels): a name used up to three times, subranges in every position
    du = [[("dir/u 1.st", rules_corr.gen_decl_unit(rng))] for _ in range(400 if run.tier == "quick" else 6000)]
    decl_n, _ = rules_corr.check_declrules(run, du, info, "c05", labels_are_property=True)
    cli_positions = check_cli_positions(run)
    return {"coverage": {
        "semantic_diagnostic_labels_checked_by_code": sem_labels,
        "type_declaration_rule_labels_compared_with_model": decl_n,
        "cli_printed_positions_checked": cli_positions,
        "rule": "texts = fixed corpus of lexical edge cases + repository fixtures + random token soups (keywords in random "
                "case, identifiers, numbers, strings, comments with line breaks and non-ASCII, OSCAT blocks, CRLF, FF, "
                "invalid characters, unterminated constructs) + generated programs in random spellings; non-trivial = non-empty "
                "text, distinct by content hash",
        "in_domain_texts_compared_with_model": in_dom,
        "identifiers_checked": nids,
        "exhaustive": False}}


def replay(run, rep):
    """re-evaluates the property on the recorded input: 0 = holds now, 1 = still fails, 2 = cannot be replayed"""
    inp = rep.get("input", {})
    t = inp.get("text")
    if t is None and inp.get("text_hex"):
        t = bytes.fromhex(inp["text_hex"]).decode("utf-8", "replace")
    if t is None:
        return 2
    op = rep.get("op", "tok")
    if op == "declrules":
        return rules_corr.replay_declrules(run, [tuple(x) for x in inp.get("files", [])])
    if op == "tok":
        r = vlib.run_impl([{"id": 0, "op": "tok", "text": hexs(t)}], run.workdir)[0]
        if "tokens" not in r:
            return 1
        return 1 if check_tokens_property(t, r) else 0
    if op == "parse":
        r = vlib.run_impl([{"id": 0, "op": "parse", "text": hexs(t), "file": "dir/some file.st", "collect": True}], run.workdir)[0]
        if "ok" in r:
            return 1 if check_ids_property(t, "dir/some file.st", r) else 0
        return 0
    if op == "analyze":
        fname = inp.get("file", "u.st")
        r = vlib.run_impl([{"id": 0, "op": "analyze", "files": [[fname, hexs(t)]]}], run.workdir)[0]
        planted = (rep.get("planted") or [None])[0]
        for d in r.get("diags", []):
            for (f, s, e) in [(d["file"], d["start"], d["end"])] + [tuple(x) for x in d.get("secondary", [])]:
                if (f, s, e) == ("", 0, 0) and d["code"] != planted:
                    continue
                if label_sanity(f, s, e, {fname: t}):
                    return 1
            if any(tuple(x) == (d["file"], d["start"], d["end"]) for x in d.get("secondary", [])):
                return 1
        return 0
    if op.startswith("cli-"):
        cmd = op[4:]
        binp = vlib.ironplcc_bin()
        r = vlib.run_impl([{"id": 0, "op": "parse", "text": hexs(t), "file": "x.st"}], run.workdir)[0]
        if "err" not in r:
            return 0
        line, cols = line_col(t.encode("utf-8"), r["err"]["start"])
        p = os.path.join(run.workdir, "replay_cli.st")
        with open(p, "w", encoding="utf-8") as f:
            f.write(t)
        pr = subprocess.run([binp, cmd, p], stdout=subprocess.PIPE, stderr=subprocess.PIPE, timeout=60)
        err = re.sub(r"\x1b\[[0-9;]*m", "", pr.stderr.decode("utf-8", "replace"))
        m = re.search(r"error\[(P\d+)\][^\n]*\n\s*┌─ ([^\n]*?):(\d+):(\d+)", err)
        if not m:
            return 1
        return 0 if (int(m.group(3)) - 1 == line and (int(m.group(4)) - 1) in cols) else 1
    return 2
