"""C03 -- no error is masked: a defect anywhere in the compilation set makes check fail.
Proof: Properties/C03.v (a file that does not parse makes the set fail; the declaration sort keeps every declaration or
reports the duplicate; a declaration failing a table-shaped rule keeps the verdict false in any company).
Tie: re-assembly model vs P0020 on generated name clashes; command-line model (C13) for the front end.
Search: every fault kind placed among valid companion files / declarations in every file order, incl. companions that
reuse the faulty declaration's name; through Project::semantic and through the `ironplcc check` binary."""
import itertools
import os
import re
import subprocess
from concurrent.futures import ThreadPoolExecutor

import gen_sem
import vlib
import scope_corr
import rules_corr
from vlib import hexs

NEED_BIN = True
MANIFEST_ENTRY = {
    "technique": "Coq proof that a non-parsing file makes Project::semantic fail in any company, that the declaration re-assembly is a "
                 "permutation of its input or reports the duplicate name, and that a declaration failing a table-shaped rule is never "
                 "masked; model/implementation correspondence on name clashes; enumeration of fault placements, companions and file orders",
    "text": "Theorems for every file set / declaration list: a file with a lexical or syntax error makes the semantic check of the "
            "whole set fail (and `check` exit non-zero without OK) whatever the other files contain; the declaration sort returns a "
            "permutation of the declarations it was given, and fails with P0020 when two types or two POUs share a name (never "
            "collapses them); a declaration that fails a rule against the name table keeps the verdict false wherever it stands; a "
            "unit that uses an undeclared variable fails the declared-variable rule in any company and at any position (the scope-"
            "stack model: no companion hides it, none declaring the name elsewhere cures it); for the rules on declarations, "
            "invocations and configurations (models of the rule modules, each compared with its module on the facts of the resolved "
            "library): the diagnostics of the per-declaration rules (P0017, P0011, P0029) are those of the parts, in order; a "
            "constant without value, a non-constant external of a constant global and a unit with a bad invocation are reported "
            "whatever accompanies them; a reference to an undeclared type is reported whatever else the library holds, and two "
            "declarations of one type or function block name are diagnosed (P0020), never collapsed (model of the late-bound type "
            "transformation, compared with it on the type facts). "
            "Two files that hold the same text are two sources, both handed to the analysis under their own identifiers: the project never merges files by content (C03_equal_files_both_analyzed, on the project model whose shape is regenerated from project.rs). For the whole pipeline this is tied by search: each fault kind is placed at every position among "
            "valid companions, in every file order, with and without companions reusing its name.",
    "note": "Trusted: Coq kernel, extraction + driver, harness ops project / analyze / facts / latebound, the ironplcc binary runner. Of the "
            "late-bound transformations only the type-initializer one (undeclared and duplicate type names) is modelled. No axioms.",
}
TRUSTED = [
    "Coq 8.16.1 kernel; vm_compute only in the Examples",
    "no axioms: every theorem of Properties/C03.v is closed under the global context",
    "the rule modules are modelled by hand on the facts the harness extracts with the library's own traversal (Model/Rules.v), validated by correspondence with each module run alone",
    "project.rs::semantic and the re-assembly of xform_toposort_declarations.rs are modelled by hand, validated by correspondence",
    "tools/gen_sem.py provides the faulty declarations and valid companions",
]
ASSUMPTIONS = ["'undeclared' faults (P0012 P0015 P0021 P0022) may legitimately be cured by added declarations and are excluded from "
               "the masking check, as the property says"]

# faults that added declarations may legitimately cure: an undeclared type / function block / enumeration (not an undeclared
# variable: variables are declared inside the POU that uses them, so no other top-level declaration can supply one)
CURABLE = {"P0012", "P0021", "P0022"}


def failed(r):
    if "panic" in r or "abort" in r:
        return None
    return not r.get("ok", False)


def search(run, info):
    rng = run.rng
    wd = run.workdir
    binp = vlib.ironplcc_bin()
    nunits = 25 if run.tier == "quick" else 200
    ncomp = 2 if run.tier == "quick" else 4
    cases = []
    meta = []
    valid_pool = [gen_sem.gen_valid(rng) for _ in range(30)]
    pool_texts = [gen_sem.render(u) for u in valid_pool]
    lexical = "PROGRAM plexbad\nVAR x : INT; END_VAR\nx := 1 ? 2;\nEND_PROGRAM\n"
    syntax = "PROGRAM psynbad\nVAR x : INT; END_VAR\nx := ;\nEND_PROGRAM\n"
    for ui in range(nunits):
        u = gen_sem.gen_valid(rng)
        faults = [(c, w, gen_sem.render(m)) for c, w, m in gen_sem.mutants(u, rng) if c not in CURABLE]
        # one of each code per unit keeps the run short; thorough takes all
        seen = set()
        chosen = []
        for f in faults:
            if f[0] not in seen or run.tier == "thorough":
                chosen.append(f)
                seen.add(f[0])
        chosen.append(("LEX", "lexical error", lexical))
        chosen.append(("SYN", "syntax error", syntax))
        # text that is no token at a place where the tokens around it still form a valid program: a lexical error all the same
        base_valid = gen_sem.render(u)
        bl = base_valid.split("\n")
        sites = [j for j, l in enumerate(bl) if l.endswith(";")]
        if sites:
            j = rng.choice(sites)
            junk = rng.choice(["?", "~", "\\", "`", "?? !"])
            how = rng.randrange(3)
            ll = list(bl)
            if how == 0:
                ll[j] = ll[j][:-1] + " " + junk + ";"            # before the ';' of a statement or declaration
            elif how == 1:
                ll.insert(j + 1, junk)                           # on a line of its own
            else:
                ll.append(junk)                                  # at the end of the file
            chosen.append(("LEX", "text that is no token (%r) where the remaining tokens form a valid program" % junk, "\n".join(ll)))
        chosen.append(("LEX", "a file of a single invalid character", "?\n"))
        for code, what, ftext in chosen:
            comps = rng.sample(pool_texts, ncomp)
            if code == "P0015":
                # company that declares the very name the faulty POU misses -- as a local of another POU, and as a POU name
                import re as _re
                m = _re.search(r"(undeclared_\d+) := 1;", ftext)
                if m:
                    nm = m.group(1)
                    comps = comps[:-1] + ["FUNCTION_BLOCK Helper_%s\nVAR %s : INT; END_VAR\n%s := 2;\nEND_FUNCTION_BLOCK\n"
                                          "PROGRAM %s\nVAR hq : INT; END_VAR\nhq := 3;\nEND_PROGRAM\n" % (nm, nm, nm, nm.upper() + "x")]
            if code == "P0011":
                # company that declares the missing task -- in a resource of another configuration, where it does not count
                comps = comps[:-1] + ["PROGRAM HelperProg_t\nVAR hq : INT; END_VAR\nhq := 3;\nEND_PROGRAM\n"
                                      "CONFIGURATION HelperCfg_t\n  RESOURCE HelperRes_t ON PLC\n    TASK %s(INTERVAL := T#50ms, PRIORITY := 2);\n"
                                      "    PROGRAM helper_inst WITH %s : HelperProg_t;\n  END_RESOURCE\nEND_CONFIGURATION\n" % (
                                          rng.choice(["no_such_task", "NO_SUCH_TASK"]), "no_such_task")]
            files = [("bad.st", ftext)] + [("c%d.st" % k, t) for k, t in enumerate(comps)]
            # company that a rule answers "not implemented" for (a constant array with values, a constant of a structure type): the
            # set fails anyway on the unchanged tree; what must not happen is that such an answer replaces or hides the fault's
            if code.startswith("P00"):
                ni = rng.choice(["FUNCTION_BLOCK HelperNi\nVAR CONSTANT\n  Limits : ARRAY[1..2] OF INT := [1, 2];\nEND_VAR\nEND_FUNCTION_BLOCK\n",
                                 "TYPE\n  HelperPt : STRUCT x : INT; END_STRUCT;\nEND_TYPE\nFUNCTION_BLOCK HelperNi\nVAR CONSTANT\n  origin : HelperPt;\nEND_VAR\nEND_FUNCTION_BLOCK\n"])
                fl = [("bad.st", ftext), ("ni.st", ni)]
                for o in ((0, 1), (1, 0)):
                    meta.append((code, what + " (beside a declaration a rule does not implement)", [fl[k] for k in o], "files"))
                    cases.append({"id": len(cases), "op": "project", "files": [[n, hexs(t)] for n, t in [fl[k] for k in o]]})
            orders = list(itertools.permutations(range(len(files))))
            if len(orders) > 6:
                orders = rng.sample(orders, 6 if run.tier == "quick" else 24)
            for o in orders:
                fl = [files[k] for k in o]
                meta.append((code, what, fl, "files"))
                cases.append({"id": len(cases), "op": "project", "files": [[n, hexs(t)] for n, t in fl]})
            # the same declarations in one file, the faulty one at each end and in the middle
            for pos in (0, 1, len(comps)):
                parts = list(comps)
                parts.insert(pos, ftext)
                meta.append((code, what, [("all.st", "\n".join(parts))], "one-file"))
                cases.append({"id": len(cases), "op": "project", "files": [["all.st", hexs("\n".join(parts))]]})
            # ... and with a vendor's description block (the preprocessor blanks what stands between its markers) in front of every
            # valid declaration: what stands between two such blocks is as much part of the file as anything else
            hdr = lambda k: "(*@KEY@:DESCRIPTION*)\n(* version 1.%d, vendor text *)\n(*@KEY@:END_DESCRIPTION*)\n" % k
            for pos in (0, 1, len(comps)):
                parts = [hdr(k) + c for k, c in enumerate(comps)]
                parts.insert(pos, ftext)
                meta.append((code, what + " (valid declarations with description blocks around it)", [("all.st", "\n".join(parts))], "one-file-description-blocks"))
                cases.append({"id": len(cases), "op": "project", "files": [["all.st", hexs("\n".join(parts))]]})
    # companions that reuse the faulty declaration's name in the other name space (a TYPE named like a faulty POU, a
    # FUNCTION_BLOCK named like a faulty TYPE): the fault must still be reported (or the clash diagnosed)
    for _ in range(40 if run.tier == "quick" else 400):
        u = gen_sem.gen_valid(rng)
        ms = [(c, w, m) for c, w, m in gen_sem.mutants(u, rng) if c not in CURABLE]
        if not ms:
            continue
        code, what, mu = rng.choice(ms)
        k = next((j for j in range(len(u)) if mu[j].lines != u[j].lines), None)
        if k is None:
            continue
        fd = mu[k]
        nm = fd.name if rng.random() < 0.5 else fd.name.swapcase()
        if fd.kind == "type":
            comp = "FUNCTION_BLOCK %s\nVAR q : INT; END_VAR\nq := 1;\nEND_FUNCTION_BLOCK\n" % nm
        else:
            comp = rng.choice(["TYPE\n  %s : (Ya%d, Yb%d);\nEND_TYPE\n" % (nm, rng.randrange(999), rng.randrange(999)),
                               "TYPE\n  %s : INT (1..%d);\nEND_TYPE\n" % (nm, rng.randint(2, 99))])
        base = gen_sem.render(mu)
        for layout, fl in (("reuse-same-file-after", [("u.st", base + "\n" + comp)]), ("reuse-same-file-before", [("u.st", comp + "\n" + base)]),
                           ("reuse-other-file-first", [("r.st", comp), ("u.st", base)]), ("reuse-other-file-last", [("u.st", base), ("r.st", comp)])):
            meta.append((code, "%s; a %s named %s accompanies it" % (what, "function block" if fd.kind == "type" else "type", nm), fl, layout))
            cases.append({"id": len(cases), "op": "project", "files": [[n, hexs(t)] for n, t in fl]})
    # duplicate names: a second declaration with the name of an existing one, same and different letter case, same or other file
    dup_meta = []
    for _ in range(60 if run.tier == "quick" else 600):
        u = gen_sem.gen_valid(rng)
        cands = [d for d in u if d.kind in ("fb", "function", "program", "type")]
        d = rng.choice(cands)
        nm = d.name if rng.random() < 0.5 else d.name.upper()
        if d.kind == "type":
            clone = "TYPE\n  %s : (Xa%d, Xb%d);\nEND_TYPE\n" % (nm, rng.randrange(999), rng.randrange(999))
        elif d.kind == "function":
            clone = "FUNCTION %s : INT\nVAR_INPUT q : INT; END_VAR\n%s := q;\nEND_FUNCTION\n" % (nm, nm)
        elif d.kind == "fb":
            clone = "FUNCTION_BLOCK %s\nVAR q : INT; END_VAR\nq := 1;\nEND_FUNCTION_BLOCK\n" % nm
        else:
            clone = "PROGRAM %s\nVAR q : INT; END_VAR\nq := 1;\nEND_PROGRAM\n" % nm
        base = gen_sem.render(u)
        for layout in ("same-file-after", "same-file-before", "other-file-first", "other-file-last"):
            if layout == "same-file-after":
                fl = [("u.st", base + "\n" + clone)]
            elif layout == "same-file-before":
                fl = [("u.st", clone + "\n" + base)]
            elif layout == "other-file-first":
                fl = [("dup.st", clone), ("u.st", base)]
            else:
                fl = [("u.st", base), ("dup.st", clone)]
            meta.append(("DUP", "second declaration named %s (%s)" % (nm, d.kind), fl, layout))
            cases.append({"id": len(cases), "op": "project", "files": [[n, hexs(t)] for n, t in fl]})
            kinds = []
            for x in u:
                kinds.append(("T" if x.kind == "type" else "P", x.name.lower()))
            kinds.append(("T" if d.kind == "type" else "P", nm.lower()))
            dup_meta.append((len(cases) - 1, kinds))
    # a whole file given twice: under another name, as it is or written again (other letter case, other layout), next to it or with
    # an unrelated file between; and one declaration copied unchanged into a file of its own: every name is declared twice
    for _ in range(30 if run.tier == "quick" else 300):
        u = gen_sem.gen_valid(rng)
        base = gen_sem.render(u)
        again = "\n".join((ln.swapcase() if "'" not in ln and '"' not in ln else ln) + ("  " if rng.random() < 0.3 else "")
                          for ln in base.split("\n")) if rng.random() < 0.6 else base
        other = gen_sem.render(gen_sem.gen_valid(rng)) if rng.random() < 0.5 else None
        sets = [("file-twice", [("a.st", base), ("b.st", again)]), ("file-twice-reversed", [("b.st", again), ("a.st", base)])]
        if other is not None:
            sets.append(("file-twice-apart", [("a.st", base), ("m.st", other), ("z.st", again)]))
        d = rng.choice([x for x in u if x.kind in ("fb", "function", "program", "type")] or [u[0]])
        sets.append(("declaration-copied", [("a.st", base), ("b.st", d.text())]))
        for layout, fl in sets:
            meta.append(("DUP", "every declaration of a file declared again by a copy of it" if layout != "declaration-copied"
                         else "a declaration (%s) copied unchanged into another file" % d.name, fl, layout))
            cases.append({"id": len(cases), "op": "project", "files": [[n, hexs(t)] for n, t in fl]})
    res = vlib.run_impl(cases, wd, per_case_timeout=30)
    # the scope walk of the declared-variable rule against its Coq model, on a sample of the file sets
    step = max(1, len(cases) // (400 if run.tier == "quick" else 4000))
    sc_n, sc_bad = scope_corr.check(run, [[(f[0], bytes.fromhex(f[1]).decode("utf-8")) for f in c["files"]] for c in cases[::step]], info, "c03")
    # ... and the other rule visitors against their Coq models (facts of the resolved library), on the same sample
    rl_n, rl_bad = rules_corr.check(run, [[(f[0], bytes.fromhex(f[1]).decode("utf-8")) for f in c["files"]] for c in cases[::step]], info, "c03")
    ty_n, ty_bad = rules_corr.check_types(run, [[(f[0], bytes.fromhex(f[1]).decode("utf-8")) for f in c["files"]] for c in cases[::step]], info, "c03")
    ek_n, ek_bad = rules_corr.check_exprkind(run, [[(f[0], bytes.fromhex(f[1]).decode("utf-8")) for f in c["files"]] for c in cases[::step]], info, "c03")
    tab = {}
    for i, ((code, what, fl, layout), r) in enumerate(zip(meta, res)):
        run.count((code, tuple(fl)), True, "%s:%s" % (code, layout))
        f = failed(r)
        if f is None:
            run.violation("impl-violates-property", "checking the set crashed (%s): %s" % (what, r.get("panic") or r.get("abort")),
                          {"files": fl, "fault": code})
        elif not f:
            run.violation("impl-violates-property", "a set containing a %s (%s) is accepted: the error is masked by its company (%s)" % (
                "duplicate declaration" if code == "DUP" else "fault " + code, what, layout), {"files": fl, "fault": code})
        if i % 500 == 0:
            run.sample({"fault": code, "what": what, "layout": layout, "files": [n for n, _ in fl],
                        "codes": sorted(set(d["code"] for d in r.get("diags", [])))})
    # correspondence: the re-assembly model says duplicate <-> P0020 reported (when nothing earlier aborts)
    if info.get("extract_ok") and dup_meta:
        names = {}
        lines = []
        for j, (ci, kinds) in enumerate(dup_meta):
            enc = ",".join("%s:%d" % (k, names.setdefault(n, len(names) + 1)) for k, n in kinds)
            lines.append(("rule", j, ["reasm", enc]))
        model = vlib.run_model(lines, wd)
        for j, (ci, kinds) in enumerate(dup_meta):
            mo = model.get(str(j))
            r = res[ci]
            if not mo or "diags" not in r:
                continue
            run.cov["traces_validated_against_impl"] += 1
            mdup = mo[0] == "dup"
            idup = any(d["code"] == "P0020" for d in r["diags"])
            # a type and a POU of the same name are reported by a later transform (also P0020): the model only speaks about same-kind clashes
            if mdup and not idup:
                run.cov["disagreements_checked"] += 1
                run.violation("correspondence", "re-assembly model reports a duplicate name, the implementation reports %r" % (
                    sorted(set(d["code"] for d in r["diags"])),), {"files": meta[ci][2]}, no_input=True)
    # the binary on a sample: exit status must be non-zero
    sample = [m for m in meta if m[3] == "files"]
    sample = rng.sample(sample, min(len(sample), 40 if run.tier == "quick" else 400))

    def clijob(k):
        code, what, fl, layout = sample[k]
        d = os.path.join(wd, "cli%d" % k)
        os.makedirs(d, exist_ok=True)
        paths = []
        for n, t in fl:
            p = os.path.join(d, n)
            with open(p, "w", encoding="utf-8") as f:
                f.write(t)
            paths.append(p)
        p = subprocess.run([binp, "check"] + paths, stdout=subprocess.PIPE, stderr=subprocess.PIPE, timeout=60)
        return p.returncode, "OK" in p.stdout.decode("utf-8", "replace").split()

    with ThreadPoolExecutor(max_workers=vlib.NCPU) as ex:
        outs = list(ex.map(clijob, range(len(sample))))
    for (code, what, fl, layout), (rc, ok) in zip(sample, outs):
        run.count(("cli", code, tuple(fl)), True, "cli:" + code)
        if rc == 0 or ok:
            run.violation("impl-violates-property", "`ironplcc check` exits %d%s for a set containing fault %s (%s)" % (
                rc, " and prints OK" if ok else "", code, what), {"files": fl, "fault": code, "via": "binary"})
    return {"coverage": {
        "rule": "fault kinds: lexical error, syntax error, each declaration-local or table rule's Fails shape except the curable "
                "'undeclared' ones, duplicate declaration names (same and different letter case, each POU / type kind); placement: "
                "the faulty file among %d valid companion files in every file order (sampled above 6), the same declarations in one "
                "file with the fault first / second / last, duplicates in the same file before / after and in another file first / "
                "last; verdict through FileBackedProject::semantic and, for a sample, the binary's exit status; non-trivial = every "
                "set, distinct by (fault, files)" % ncomp,
        "sets": len(meta),
        "binary_runs": len(sample),
        "exhaustive": False}}


def replay(run, rep):
    fl = rep.get("files")
    if not fl:
        return 2
    r = vlib.run_impl([{"id": 0, "op": "project", "files": [[n, hexs(t)] for n, t in fl]}], run.workdir)[0]
    f = failed(r)
    return 0 if f else 1
