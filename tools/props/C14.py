"""C14 -- file encoding is transparent: the result depends only on the decoded text.
Proof: Properties/C14.v (UTF-8 / UTF-16 / Windows-1252 round trips, the BOM-sniffing cascade of source.rs).
Tie: decoder list regenerated from source.rs; model cascade vs FileBackedProject::push on the same bytes.
Search: each text stored in five encodings must give the same decoded text, tokens, verdict, codes and positions;
every single byte value in four contexts; random binary files; the real binary on a sample."""
import os
import re
import subprocess

import gen_prog
import vlib
from vlib import hexs

NEED_BIN = True
MANIFEST_ENTRY = {
    "technique": "Coq proof of UTF-8/UTF-16/Windows-1252 decode-after-encode identities and of the BOM-sniffing decoder cascade "
                 "(decoder list regenerated from source.rs) returning the same text for all five storage forms; model/implementation "
                 "correspondence on bytes; direct comparison of results across encodings",
    "text": "Theorems for every text of Unicode scalar values: the cascade (UTF-8 then Windows-1252, each obeying a byte order mark) "
            "returns the text for UTF-8 without mark (text not starting with U+FEFF), UTF-8 with mark, UTF-16LE/BE with mark, and "
            "for Windows-1252 exactly under the stated guards (representable, bytes not valid UTF-8, no mark-like prefix); without "
            "a mark the cascade is total. Everything after decoding is a function of the decoded text. Tied to the code by the "
            "regenerated decoder list (a changed path_to_source shape is refused) and by comparing the model's decoded text with "
            "the project's, byte string by byte string, including all 256 byte values in four contexts.",
    "note": "Trusted: Coq kernel, translator (decoder array and shape fingerprint of path_to_source), extraction + driver, harness. "
            "encoding_rs is modelled (WHATWG UTF-8/UTF-16 decoders, windows-1252 index, BOM sniffing in Encoding::decode), not "
            "verified; validated by correspondence on every run. No axioms.",
}
TRUSTED = [
    "Coq 8.16.1 kernel; vm_compute only in the Example",
    "no axioms: every theorem of Properties/C14.v is closed under the global context",
    "tools/translate.py: the decoder array of source.rs and a fingerprint of the cascade's shape",
    "extraction (ExtrOcamlBasic only) + ocaml/driver.ml",
    "harness op `decode`: writes the bytes to a scratch file and reads it through FileBackedProject::push (source.rs)",
    "encoding_rs modelled by hand (Model/Decode.v), validated by correspondence incl. all 256 single bytes in four contexts",
]
ASSUMPTIONS = [
    "downstream stages are functions of the decoded text (they receive nothing else); checked by comparing tokens, verdicts, "
    "codes and positions across encodings",
]

T1252 = [8364, 129, 8218, 402, 8222, 8230, 8224, 8225, 710, 8240, 352, 8249, 338, 141, 381, 143,
         144, 8216, 8217, 8220, 8221, 8226, 8211, 8212, 732, 8482, 353, 8250, 339, 157, 382, 376]


def enc1252(t):
    out = bytearray()
    for ch in t:
        c = ord(ch)
        if c < 128 or 160 <= c < 256:
            out.append(c)
        elif c in T1252:
            out.append(128 + T1252.index(c))
        else:
            return None
    return bytes(out)


def valid_utf8(b):
    try:
        b.decode("utf-8")
        return True
    except UnicodeDecodeError:
        return False


def forms(t):
    """the storage forms of a text for which the property promises the same result"""
    f = {}
    u8 = t.encode("utf-8")
    if not t.startswith("﻿"):
        f["utf8"] = u8
    f["utf8bom"] = b"\xef\xbb\xbf" + u8
    f["utf16le"] = b"\xff\xfe" + t.encode("utf-16-le")
    f["utf16be"] = b"\xfe\xff" + t.encode("utf-16-be")
    w = enc1252(t)
    if w is not None and not valid_utf8(w) and not w.startswith((b"\xef\xbb\xbf", b"\xff\xfe", b"\xfe\xff")):
        f["cp1252"] = w
    return f


NONASCII_1252 = "éüÖß€“”‰™ÿ±µ"
NONASCII_ANY = "éü€𝄞Ω中"


def sprinkle(rng, text, alphabet):
    """put non-ASCII characters into the comments and strings of a program text"""
    out = []
    i = 0
    n = len(text)
    while i < n:
        if text.startswith("(*", i):
            j = text.find("*)", i + 2)
            if j < 0:
                out.append(text[i:])
                break
            body = text[i + 2:j]
            if rng.random() < 0.7:
                k = rng.randrange(len(body) + 1)
                body = body[:k] + "".join(rng.choice(alphabet) for _ in range(rng.randint(1, 3))) + " " + body[k:]
            out.append("(*" + body + "*)")
            i = j + 2
        elif text[i] == "'":
            j = text.find("'", i + 1)
            if j < 0:
                out.append(text[i:])
                break
            body = text[i + 1:j]
            if rng.random() < 0.7:
                body += rng.choice(alphabet)
            out.append("'" + body + "'")
            i = j + 1
        else:
            out.append(text[i])
            i += 1
    return "".join(out)


FAULTY = [
    "PROGRAM p\nVAR x : INT; END_VAR\n(* @ *) x := 1; ?\nEND_PROGRAM\n",
    "PROGRAM p\nVAR x : INT; END_VAR\n(* @ *) y := 1;\nEND_PROGRAM\n",
    "PROGRAM p\nVAR s : STRING := '@'; END_VAR\n(* @@ *) s := '@' 5;\nEND_PROGRAM\n",
    "TYPE\n(* @ *) LEVEL : (LOW, (* @ *) LOW);\nEND_TYPE\n",
    "FUNCTION_BLOCK f\nVAR (* @ *) a : INT; END_VAR\n(* @ *) IF a THEN (* @ *) b := '@'; END_IF\nEND_FUNCTION_BLOCK\n",
]

CONTEXTS = [
    ("comment", b"PROGRAM p\nVAR x : INT; END_VAR\n(* a", b"b *) x := 1;\nEND_PROGRAM\n"),
    ("string", b"PROGRAM p\nVAR s : STRING; END_VAR\ns := 'a", b"b'; s := '';\nEND_PROGRAM\n"),
    ("between", b"PROGRAM p\nVAR x : INT; END_VAR\nx := ", b" 1;\nEND_PROGRAM\n"),
    ("identifier", b"PROGRAM p\nVAR x : INT; END_VAR\nxa", b"b := 1;\nEND_PROGRAM\n"),
]


def boundary_ok(b, off):
    return off == len(b) or (off < len(b) and (b[off] & 0xC0) != 0x80)


def inside(r):
    """diagnostic positions lie inside the decoded text, on character boundaries"""
    if "text" not in r:
        return None
    tb = bytes.fromhex(r["text"])
    for d in r.get("tok_diags", []) + r.get("diags", []):
        if d["start"] > d["end"] or d["end"] > len(tb) or not boundary_ok(tb, d["start"]) or not boundary_ok(tb, d["end"]):
            return "diagnostic %s label [%d,%d) is not inside the decoded text (%d bytes)" % (d["code"], d["start"], d["end"], len(tb))
    return None


def observable(r):
    if "err" in r:
        return ("err", r["err"])
    return (r["text"], tuple(map(tuple, r.get("tokens", []))),
            tuple((d["code"], d["start"], d["end"]) for d in r.get("tok_diags", [])),
            tuple(sorted((d["code"], d["start"], d["end"]) for d in r.get("diags", []))))


def cli_observe(binp, path):
    p = subprocess.run([binp, "check", path], stdout=subprocess.PIPE, stderr=subprocess.PIPE, timeout=60)
    err = re.sub(r"\x1b\[[0-9;]*m", "", p.stderr.decode("utf-8", "replace"))
    codes = re.findall(r"error\[(P\d+)\]", err)
    locs = re.findall(r"┌─ [^\n]*?:(\d+):(\d+)", err)
    return p.returncode, "OK" in p.stdout.decode("utf-8", "replace").split(), tuple(codes), tuple(locs)


def search(run, info):
    rng = run.rng
    wd = run.workdir
    texts = []
    n_prog = 60 if run.tier == "quick" else 600
    for i in range(n_prog):
        base = gen_prog.render(gen_prog.gen_library(rng), gen_prog.Spelling(rng, respell=True, nonascii=False))
        alphabet = NONASCII_1252 if i % 3 else NONASCII_ANY
        texts.append(("program", sprinkle(rng, base, alphabet)))
    for f in FAULTY:
        for alphabet in (NONASCII_1252, NONASCII_ANY):
            for _ in range(3):
                texts.append(("faulty", "".join(rng.choice(alphabet) if ch == "@" else ch for ch in f)))
    texts.append(("edge", "(* ï»¿ *)"))
    texts.append(("edge", "﻿PROGRAM p END_PROGRAM"))
    texts.append(("edge", "(* Ã© *) x"))   # 1252 bytes that are valid UTF-8: the guard excludes the 1252 form
    texts.append(("edge", ""))
    # a character at the very end (and at the very start) that file formats of old give a meaning: end-of-file marks, NUL, form
    # feed, a lone CR, and characters whose UTF-16 form ends (or starts) in such a byte -- whatever is done about them must be done
    # to the text, not to the bytes
    for ch in ("\x1a", "\x00", "\x04", "\x0c", "\r", "\x1a\x1a", "\u201a", "\u1a00", "\u001a\n", "\u0100", "\ufeff"):
        texts.append(("edge-end", "PROGRAM pz\nVAR x : INT; END_VAR\n(* é *) x := 1;\nEND_PROGRAM\n" + ch))
        texts.append(("edge-start", ch + "PROGRAM pz\nVAR x : INT; END_VAR\n(* é *) x := 1;\nEND_PROGRAM\n"))
    # long files: the first character outside ASCII far into the file, and a multi-byte character across the power-of-two
    # offsets a reader might buffer at
    tail = "PROGRAM plong\nVAR x : INT; s : STRING; END_VAR\ns := 'Größe prüfen'; (* é *) y := 1;\nEND_PROGRAM\n"
    for boundary in ((4096, 8192) if run.tier == "quick" else (512, 1024, 2048, 4096, 8192, 16384, 65536)):
        for delta in (-3, -2, -1, 0, 1, 40):
            pad = boundary + delta - len("(*  *)\n") - len("PROGRAM plong\nVAR x : INT; s : STRING; END_VAR\ns := 'Gr")
            if pad > 0:
                texts.append(("long", "(* " + "p" * pad + " *)\n" + tail))

    # an unterminated string or comment runs to the end of the file and is quoted in its diagnostic: a character outside ASCII at
    # every offset around the sizes a message might be cut at (and, at the thorough tier, at every offset up to 1100)
    offs = list(range(236, 276)) + list(range(500, 520)) if run.tier == "quick" else list(range(1, 1100))
    for k in offs:
        for opener, ch in (("'", "é"), ("(* ", "€"), ('"', "ß")):
            texts.append(("unterminated", "PROGRAM pu\nVAR s : STRING; END_VAR\ns := %s%s%s tail (* ü *) more text to the end\nEND_PROGRAM\n" % (opener, "a" * k, ch)))
    cases = []
    meta = []
    for ti, (tag, t) in enumerate(texts):
        for name, b in forms(t).items():
            meta.append(("form", ti, name, b))
    for b in range(256):
        for cname, pre, post in CONTEXTS:
            meta.append(("byte", b, cname, pre + bytes([b]) + post))
    n_rand = 300 if run.tier == "quick" else 6000
    for _ in range(n_rand):
        k = rng.choice([0, 1, 2, 3, 5, 8, 13, 40])
        body = bytes(rng.randrange(256) for _ in range(k))
        pre = rng.choice([b"", b"", b"\xff\xfe", b"\xfe\xff", b"\xef\xbb\xbf", b"x := '"])
        meta.append(("random", None, None, pre + body))
    for i, m in enumerate(meta):
        cases.append({"id": i, "op": "decode", "bytes": m[3].hex(), "dir": wd, "check": True})
    impl = vlib.run_impl(cases, wd, per_case_timeout=20)
    model = {}
    if info.get("extract_ok"):
        model = vlib.run_model([("decode", i, [m[3].hex()]) for i, m in enumerate(meta)], wd)

    byform = {}
    hist = run.cov["histogram"]
    for i, m in enumerate(meta):
        r = impl[i]
        kind = m[0]
        run.count(m[3], len(m[3]) > 0, "bytes:" + kind)
        if "panic" in r or "abort" in r:
            run.violation("impl-violates-property", "reading / checking the file crashed: %s" % (r.get("panic") or r.get("abort")),
                          {"input": {"bytes_hex": m[3].hex()}, "context": m[1:3]})
            continue
        fail = inside(r)
        if fail:
            run.violation("impl-violates-property", fail, {"input": {"bytes_hex": m[3].hex()}})
            continue
        if kind == "form":
            byform.setdefault(m[1], {})[m[2]] = (r, m[3])
        mo = model.get(str(i))
        if mo:
            run.cov["traces_validated_against_impl"] += 1
            mtext = mo[1] if mo[0] == "some" and len(mo) > 1 else ("" if mo[0] == "some" else None)
            itext = r.get("text")
            if (mtext is None) != (itext is None) or (mtext is not None and mtext != itext):
                run.cov["disagreements_checked"] += 1
                run.violation("correspondence", "decoder model and source.rs disagree on bytes %s: model %s, implementation %s" % (
                    m[3][:24].hex(), "UnsupportedEncoding" if mtext is None else bytes.fromhex(mtext)[:30],
                    r.get("err") if itext is None else bytes.fromhex(itext)[:30]),
                    {"input": {"bytes_hex": m[3].hex()}}, no_input=True)
    # the property itself: all storage forms of one text give the same observable result
    nsets = 0
    for ti, fm in sorted(byform.items()):
        nsets += 1
        names = sorted(fm)
        ref = "utf8" if "utf8" in fm else names[0]
        want_text = texts[ti][1].encode("utf-8").hex()
        for nme in names:
            r, b = fm[nme]
            if r.get("text") != want_text:
                run.violation("impl-violates-property", "text stored as %s is read as a different text (%r...)" % (
                    nme, bytes.fromhex(r.get("text", ""))[:40] if "text" in r else r.get("err")),
                    {"input": {"text": texts[ti][1], "encoding": nme, "bytes_hex": b.hex()}})
                break
            if observable(r) != observable(fm[ref][0]):
                run.violation("impl-violates-property", "tokens / verdict / codes / positions differ between %s and %s" % (nme, ref),
                              {"input": {"text": texts[ti][1], "encoding": nme, "bytes_hex": b.hex()}})
                break
        if ti % 40 == 0:
            run.sample({"text": texts[ti][1][:80], "forms": names,
                        "codes": sorted(set(d["code"] for d in fm[ref][0].get("diags", []) + fm[ref][0].get("tok_diags", [])))})
    # the real binary on a sample of the faulty texts: exit status, codes and line:column across encodings
    ncli = 0
    binp = vlib.ironplcc_bin()
    if info.get("bin_ok"):
        sample = [t for tag, t in texts if tag == "faulty"][: (6 if run.tier == "quick" else 30)]
        for si, t in enumerate(sample):
            obs = {}
            for nme, b in forms(t).items():
                d = os.path.join(wd, "cli_%d_%s" % (si, nme))
                os.makedirs(d, exist_ok=True)
                p = os.path.join(d, "f.st")
                with open(p, "wb") as f:
                    f.write(b)
                obs[nme] = cli_observe(binp, p)
                ncli += 1
            vals = set(obs.values())
            if len(vals) != 1:
                run.violation("impl-violates-property", "`ironplcc check` differs across encodings: %r" % obs,
                              {"input": {"text": t}})
    return {"coverage": {
        "rule": "texts = generated programs with non-ASCII characters sprinkled into comments and strings (Windows-1252-representable "
                "and not) + faulty programs whose diagnostics follow non-ASCII text on the same line + edge texts + long files whose first non-ASCII "
                "character lies around offsets 4096 / 8192 (more powers of two at thorough); each stored in every "
                "form the property covers (UTF-8, UTF-8+BOM, UTF-16LE+BOM, UTF-16BE+BOM, Windows-1252 when the guards hold); plus every "
                "byte value 0x00-0xFF in four contexts (exhaustive) and random binary files; non-trivial = non-empty byte string, "
                "distinct by content",
        "text_sets_compared_across_encodings": nsets,
        "single_byte_cases": 256 * len(CONTEXTS),
        "cli_runs": ncli,
        "exhaustive": False}}


def replay(run, rep):
    inp = rep.get("input", {})
    if "bytes_hex" in inp and "text" not in inp:
        b = bytes.fromhex(inp["bytes_hex"])
        r = vlib.run_impl([{"id": 0, "op": "decode", "bytes": b.hex(), "dir": run.workdir, "check": True}], run.workdir)[0]
        mo = vlib.run_model([("decode", 0, [b.hex()])], run.workdir).get("0")
        mtext = mo[1] if mo and mo[0] == "some" and len(mo) > 1 else ("" if mo and mo[0] == "some" else None)
        bad = "panic" in r or inside(r) or (mtext is None) != (r.get("text") is None) or (mtext is not None and mtext != r.get("text"))
        return 1 if bad else 0
    t = inp.get("text")
    if t is None:
        return 2
    obs = {}
    for nme, b in forms(t).items():
        r = vlib.run_impl([{"id": 0, "op": "decode", "bytes": b.hex(), "dir": run.workdir, "check": True}], run.workdir)[0]
        obs[nme] = observable(r) if "panic" not in r else "panic"
    return 0 if len(set(obs.values())) == 1 and all(o != "panic" and o[0] == t.encode("utf-8").hex() for o in obs.values()) else 1
