"""C02 -- the check verdict agrees with the documented semantic rules, in both directions.
Proof: Properties/C02.v (uniqueness scans = NoDup, subrange rule = mathematical comparison, a failing declaration is
never accepted; rule list of stages.rs).  Tie: rule models vs P0003 / P0005 / P0004 on generated declarations and a
boundary sweep; regenerated stage lists.  Search: valid-by-construction units are accepted without any code; every
documented 'Fails' shape planted at every applicable site is rejected with that rule's code; double faults are rejected."""
import vlib
from vlib import hexs
import gen_sem
import scope_corr
import rules_corr

NEED_BIN = False
MANIFEST_ENTRY = {
    "technique": "Coq proof of the three declaration-local rules (duplicate scans = NoDup for all name lists, subrange rule = "
                 "comparison of the mathematical bounds for all magnitudes), of the scope-stack walk of the declared-variable rule (exact, "
                 "unit-local) and of 'a failing declaration is never accepted' for "
                 "table-shaped rules; rule/transform lists regenerated from stages.rs; exhaustive single-fault and sampled "
                 "double-fault planting over valid-by-construction programs against an independent oracle",
    "text": "Proved for all inputs: P0003/P0005 are reported exactly when element / value names are not pairwise distinct (order-"
            "independently); P0004 exactly when minimum >= maximum as integers of any magnitude and sign; a declaration failing a "
            "table-shaped rule makes the verdict false wherever it stands; P0015 (declared variables): the symbol-table walk accepts a "
            "library exactly when every unit uses only its own name and names declared in that unit before the use, case-"
            "insensitively, and with one faulty unit reports that unit's first undeclared use (model of symbol_table.rs + the rule's "
            "visitor, compared with the rule itself on the resolved library of every generated unit through the `verif` feature "
            "hook). The rules on declarations, invocations and configurations (P0016 constants initialised, P0017 no constant "
            "function block instance, P0018 externals of constant globals, P0011 task references, P0012-14 enumerated initial "
            "values through alias chains, P0006-9 / P0021 invocations against the callee's inputs, edge inputs and outputs, "
            "P0029 unsupported standard blocks) are modelled as functions of the facts of the resolved library and proved exact "
            "against declarative readings (accepted iff ...), with the alias walk's termination; each model is run against its "
            "rule module alone on the facts of every generated library (same codes at the same places, in order) and reports "
            "only problems the module names (regenerated table). Undeclared types (P0022) and duplicate type names (P0020): the "
            "late-bound type-initializer transformation is modelled on the type facts of the library and proved to accept exactly "
            "when every referenced type is elementary, a standard function block or declared, and to report ALL undeclared "
            "references (compared with the transformation run alone: new initializer kinds or diagnostics). The alias resolution of data types is modelled step by step and proved sound for every library and exact (resolved to kind k iff a path of alias declarations leads to a declaration of kind k) for libraries as the declaration sort leaves them (the hypothesis is checked on every sorted stream); the resolution of bare identifiers in expressions is modelled as the stateful fold it is and proved to be the resolution of every unit by itself; both models are compared with the transformations run alone and with tables regenerated from their sources. NOT proved: "
            "the whole-pipeline claim (parse, sort, resolve, all rules together), which is "
            "decided by planting each documented fault at every site of generated valid programs (both directions: valid units "
            "must be accepted with no code, each single fault must be rejected with its code).",
    "note": "Trusted: Coq kernel, translator (stage lists, shape of semantic()/resolve_types()), extraction + driver, harness op "
            "analyze, tools/gen_sem.py (its claim 'this unit is valid / breaks exactly rule r' is what the oracle is). P9999 answers "
            "are outside the property. No axioms.",
}
TRUSTED = [
    "Coq 8.16.1 kernel; vm_compute only in the Example",
    "no axioms: every theorem of Properties/C02.v is closed under the global context",
    "tools/translate.py: ordered transform and rule lists of stages.rs and the way results are combined",
    "tools/gen_sem.py is the oracle for the seven rules that are searched, not proved",
    "harness op `events` (the traversal of the resolved library that emits enter / exit / add / use events; uses the `verif` feature hook of ironplc-analyzer)",
    "harness op `analyze` (parse_program + stages::analyze)",
]
ASSUMPTIONS = ["the generator's fragment avoids constructs the analyzer answers with P9999 (outside the property by its text)"]


def codes_of(r):
    if "panic" in r or "abort" in r:
        return None
    if r.get("parse_errs"):
        return ["PARSE:" + r["parse_errs"][0]["code"]]
    return sorted(set(d["code"] for d in r.get("diags", [])))


def intern(names):
    tab = {}
    return [tab.setdefault(n.lower(), len(tab) + 1) for n in names]


def search(run, info):
    rng = run.rng
    wd = run.workdir
    nunits = 120 if run.tier == "quick" else 1200
    units = [gen_sem.gen_valid(rng) for _ in range(nunits)]
    cases = [{"id": i, "op": "analyze", "files": [["u.st", hexs(gen_sem.render(u))]]} for i, u in enumerate(units)]
    res = vlib.run_impl(cases, wd, per_case_timeout=30)
    ok_units = []
    for i, (u, r) in enumerate(zip(units, res)):
        run.count(("valid", gen_sem.render(u)), True, "valid")
        c = codes_of(r)
        if c is None:
            run.violation("impl-violates-property", "analysis crashed on a valid unit: %s" % (r.get("panic") or r.get("abort")),
                          {"input": {"text": gen_sem.render(u)}, "expect": "accepted"})
        elif c:
            run.violation("impl-violates-property", "a unit that satisfies every rule is rejected with %r" % c,
                          {"input": {"text": gen_sem.render(u)}, "expect": "accepted"})
        else:
            ok_units.append(u)
        if i % 60 == 0:
            run.sample({"unit": gen_sem.render(u)[:300], "codes": c})
    # single faults at every site
    singles = []
    for u in ok_units[: (60 if run.tier == "quick" else 600)]:
        for code, what, mu in gen_sem.mutants(u, rng):
            singles.append((code, what, mu))
    mres = vlib.run_impl([{"id": i, "op": "analyze", "files": [["u.st", hexs(gen_sem.render(m[2]))]]} for i, m in enumerate(singles)], wd,
                         per_case_timeout=30)
    percode = {}
    for (code, what, mu), r in zip(singles, mres):
        run.count(("single", code, gen_sem.render(mu)), True, "single:" + code)
        c = codes_of(r)
        percode[code] = percode.get(code, 0) + 1
        if c is None:
            run.violation("impl-violates-property", "analysis crashed on a single-fault unit (%s): %s" % (code, r.get("panic") or r.get("abort")),
                          {"input": {"text": gen_sem.render(mu)}, "expect": code})
        elif code not in c:
            run.violation("impl-violates-property", "unit violating only rule %s (%s) is %s" % (
                code, what, "accepted" if not c else "rejected with %r, without %s" % (c, code)),
                {"input": {"text": gen_sem.render(mu)}, "expect": code})
    # double faults: two different faulty declarations merged into one unit
    doubles = []
    ndouble = 150 if run.tier == "quick" else 3000
    for _ in range(ndouble):
        u = rng.choice(ok_units) if ok_units else None
        if u is None:
            break
        ms = gen_sem.mutants(u, rng)
        if len(ms) < 2:
            continue
        a, b = rng.sample(ms, 2)
        # combine: take from a every declaration, then overlay b's changed declaration when it is a different one
        ia = next((k for k in range(len(u)) if a[2][k].lines != u[k].lines), None)
        ib = next((k for k in range(len(u)) if b[2][k].lines != u[k].lines), None)
        if ia is None or ib is None or ia == ib:
            continue
        m2 = [d.copy() for d in a[2]]
        m2[ib] = b[2][ib].copy()
        doubles.append((a[0], b[0], m2))
    dres = vlib.run_impl([{"id": i, "op": "analyze", "files": [["u.st", hexs(gen_sem.render(m[2]))]]} for i, m in enumerate(doubles)], wd,
                         per_case_timeout=30)
    for (ca, cb, mu), r in zip(doubles, dres):
        run.count(("double", ca, cb, gen_sem.render(mu)), True, "double")
        c = codes_of(r)
        if c is None:
            run.violation("impl-violates-property", "analysis crashed on a double-fault unit (%s, %s)" % (ca, cb),
                          {"input": {"text": gen_sem.render(mu)}, "expect": ca})
        elif ca not in c and cb not in c:
            run.violation("impl-violates-property", "unit violating rules %s and %s is %s" % (ca, cb, "accepted" if not c else "rejected with %r only" % c),
                          {"input": {"text": gen_sem.render(mu)}, "expect": ca})
    # the symbol-table walk of rule_use_declared_symbolic_var against its Coq model, on every unit generated above
    sc_sets = [[("u.st", gen_sem.render(u))] for u in units] + [[("u.st", gen_sem.render(m[2]))] for m in singles] + \
              [[("u.st", gen_sem.render(m[2]))] for m in doubles]
    sc_n, sc_bad = scope_corr.check(run, sc_sets, info, "c02")
    # the other rule visitors against their Coq models (facts of the resolved library), on the same units
    rl_n, rl_bad = rules_corr.check(run, sc_sets, info, "c02")
    # ... and on units aimed at the rules: few names, reused across units and written in varying letter case
    aimed = [[("u.st", rules_corr.gen_unit(rng))] for _ in range(600 if run.tier == "quick" else 6000)]
    ra_n, ra_bad = rules_corr.check(run, aimed, info, "aimed")
    rl_n += ra_n
    # the late-bound type transformation (undeclared types, P0022) against its Coq model: the generated units, and units
    # aimed at type references (declared / undeclared / elementary / standard / duplicate names, every kind of type)
    ty_n, ty_bad = rules_corr.check_types(run, sc_sets[:: (3 if run.tier == "quick" else 1)], info, "c02")
    tu = [[("u.st", rules_corr.gen_type_unit(rng))] for _ in range(500 if run.tier == "quick" else 5000)]
    tu_n, tu_bad = rules_corr.check_types(run, tu, info, "aimed")
    ty_n += tu_n
    # the alias resolution of data types (xform_resolve_late_bound_data_decl) against its Coq model, on units aimed at it
    au = [[("u.st", rules_corr.gen_alias_unit(rng))] for _ in range(400 if run.tier == "quick" else 5000)]
    dd_n, dd_bad = rules_corr.check_datadecl(run, au + tu[:: (5 if run.tier == "quick" else 1)], info, "c02")
    # the resolution of bare identifiers in expressions (xform_resolve_late_bound_expr_kind) against its Coq model
    ek_n, ek_bad = rules_corr.check_exprkind(run, sc_sets[:: (2 if run.tier == "quick" else 1)] + aimed[:: (3 if run.tier == "quick" else 1)], info, "c02")
    # the three rules on type declarations with their labels (Model/DeclRules.v), on units aimed at them and the generated ones
    du = [[("u.st", rules_corr.gen_decl_unit(rng))] for _ in range(500 if run.tier == "quick" else 6000)]
    dr_n, dr_bad = rules_corr.check_declrules(run, du + sc_sets[:: (4 if run.tier == "quick" else 1)], info, "c02")
    # correspondence of the proved rule models with the implementation
    mcases = []
    mlines = []
    for _ in range(200 if run.tier == "quick" else 2000):
        k = rng.randint(1, 6)
        names = [rng.choice(["a", "b", "c", "Aa", "bB", "x1", "X1", "y"]) for _ in range(k)]
        kind = rng.choice(["struct", "enum"])
        if kind == "struct":
            text = "TYPE\n  S : STRUCT %s END_STRUCT;\nEND_TYPE\n" % " ".join("%s : INT;" % n for n in names)
            code = "P0003"
        else:
            text = "TYPE\n  E : (%s);\nEND_TYPE\n" % ", ".join(names)
            code = "P0005"
        mcases.append((text, code))
        mlines.append(("rule", len(mlines), ["unique", ",".join(map(str, intern(names)))]))
    bounds = [0, 1, 5, 6, 127, 128, 2**63, 2**64, 2**127 - 1, 2**127, 2**127 + 1, 2**128 - 1]
    for lo in bounds:
        for hi in bounds:
            for nl in (False, True):
                for nh in (False, True):
                    if run.tier == "quick" and rng.random() < 0.6:
                        continue
                    text = "TYPE\n  T : INT (%s%d..%s%d);\nEND_TYPE\n" % ("-" if nl else "", lo, "-" if nh else "", hi)
                    mcases.append((text, "P0004"))
                    mlines.append(("rule", len(mlines), ["subrange", "1" if nl else "0", str(lo), "1" if nh else "0", str(hi)]))
    cres = vlib.run_impl([{"id": i, "op": "analyze", "files": [["u.st", hexs(t)]]} for i, (t, _) in enumerate(mcases)], wd)
    model = vlib.run_model(mlines, wd) if info.get("extract_ok") else {}
    for i, ((text, code), r) in enumerate(zip(mcases, cres)):
        run.count(("rule", text), True, "rule:" + code)
        c = codes_of(r)
        mo = model.get(str(i))
        if c is None:
            run.violation("impl-violates-property", "analysis crashed: %s" % (r.get("panic") or r.get("abort")), {"input": {"text": text}, "expect": "no crash"})
            continue
        if mo and mo[0].isdigit():
            run.cov["traces_validated_against_impl"] += 1
            mrep = int(mo[0]) > 0
            irep = code in c
            if mrep != irep:
                run.cov["disagreements_checked"] += 1
                # the models of these declaration-local rules are PROVED to be the documented conditions (C02_unique_names: the names
                # are not pairwise distinct; C02_subrange: minimum >= maximum as integers of any magnitude), so the text is a
                # failing input of the property itself: the code is reported although the documented condition does not hold, or
                # not reported although it does
                run.violation("impl-violates-property", "%s is %s for %r although the documented condition %s (rule model, proved to be the documented rule: %s)" % (
                    code, "reported" if irep else "not reported", text[:120], "does not hold" if irep else "holds", mrep), {"input": {"text": text}, "expect_code": code, "documented_condition_holds": mrep})
    return {"coverage": {
        "rule": "valid-by-construction units (enumerations, structures, subranges, arrays, function blocks with inputs/outputs/"
                "instances and formal / positional calls, functions, programs, configurations with globals, externals and tasks; "
                "all statement forms) must be accepted without any code; every documented Fails shape (P0003 P0004 P0005 P0006 "
                "P0007 P0008 P0009 P0011 P0014 P0015 P0016 P0017 P0018 P0021 P0022 P0029) planted at every applicable site must be rejected "
                "with that code; pairs of faults in different declarations must be rejected with one of the two codes; structure / "
                "enumeration name lists and a subrange boundary sweep are compared with the Coq rule models; non-trivial = every "
                "unit, distinct by text",
        "single_faults_per_code": percode,
        "valid_units": len(units),
        "double_faults": len(doubles),
        "scope_walks_compared_with_model": sc_n,
        "rule_fact_streams_compared_with_model": rl_n,
        "type_fact_streams_compared_with_model": ty_n,
        "expression_event_streams_compared_with_model": ek_n,
        "data_declaration_streams_compared_with_model": dd_n,
        "type_declaration_rule_streams_compared_with_model": dr_n,
        "exhaustive": False}}


def replay(run, rep):
    text = rep.get("input", {}).get("text")
    exp = rep.get("expect")
    if text is None:
        return 2
    r = vlib.run_impl([{"id": 0, "op": "analyze", "files": [["u.st", hexs(text)]]}], run.workdir)[0]
    c = codes_of(r)
    if c is None:
        return 1
    if "expect_code" in rep:
        return 0 if (rep["expect_code"] in c) == bool(rep.get("documented_condition_holds")) else 1
    if exp == "accepted":
        return 1 if c else 0
    if exp == "no crash":
        return 0
    return 0 if exp in c else 1
