"""C06 -- the result is independent of declaration order, file partition, file order and run.
Proof: Properties/C06.v (table-shaped rules give the same verdict for every permutation when names are unique; lookups,
the declaration re-assembly and the uniqueness scans are order-independent).
Tie / Search: every permutation of the top-level declarations (exhaustive up to 4 / 5), every partition into up to 3 files,
every argument order, and repeated process runs (fresh hash seeds) of the real binary, for valid and single-fault units:
the verdict, and for single faults the code and the spelling the diagnostic points at, must not change."""
import itertools
import os
import re
import subprocess
from concurrent.futures import ThreadPoolExecutor

import gen_sem
import vlib
import scope_corr
import rules_corr
from vlib import hexs

NEED_BIN = True
MANIFEST_ENTRY = {
    "technique": "Coq proof that any rule of the shape 'name-keyed table from all declarations, then each declaration against it' has "
                 "a permutation-invariant verdict when names are unique, plus order-independence of lookups, re-assembly and scans; "
                 "exhaustive permutation / partition / argument-order enumeration and repeated process runs on the implementation",
    "text": "Theorems for every declaration list: with unique names the lookup table, the verdict of every table-shaped rule, the "
            "multiset returned by the declaration sort and the duplicate scans are invariant under permutation (files are "
            "concatenated, so partition, file order and HashMap seeds are permutations). For the declared-variable rule (scope-stack "
            "model, compared with the rule on the resolved library) the verdict is the same for every order of the units and, with "
            "one faulty unit, so are the name and place reported. For the rules on declarations, invocations and configurations "
            "(models compared with the rule modules on the facts of the resolved library): per-declaration rules give the same "
            "diagnostics (code and place) as a multiset for every order of the units; the constant rules' verdict is a statement "
            "about the set of declarations; with distinct enumeration / function block names the enumerated-value and invocation "
            "rules' verdict is the same for every order; the late-bound type transformation gives the same new initializer kinds / "
            "undeclared references (as multisets) for every order of declarations and references: a type or function block declared "
            "anywhere is visible everywhere. The other transforms (declaration sort beyond its re-assembly, alias resolution) are NOT "
            "modelled; the whole pipeline "
            "is tied by enumerating all permutations of generated valid and single-fault units "
            "(up to 4 declarations quick / 5 thorough), all partitions into <= 3 files, all argument orders, and by running the "
            "real binary repeatedly (fresh hash seeds), comparing verdict, code and the identifier the diagnostic points at.",
    "note": "Trusted: Coq kernel, harness ops analyze / project, the binary runner. HashMap RandomState can only be observed by "
            "repeated runs. Units with duplicate names are excluded (they are diagnosed, C03). No axioms.",
}
TRUSTED = [
    "Coq 8.16.1 kernel; vm_compute only in the Example",
    "no axioms: every theorem of Properties/C06.v is closed under the global context",
    "the rule modules are modelled by hand on the facts the harness extracts (Model/Rules.v), validated by correspondence with each module run alone; the transforms are tied only by the permutation / partition / run search",
]
ASSUMPTIONS = ["positions are compared as the spelling at the reported span (byte offsets move when declarations move)"]


KNOWN_CYCLE_LOCATION = "cycle-location-depends-on-order"


def observe(r, texts):
    """(verdict, sorted codes, spelling at the first diagnostic per code)"""
    if "panic" in r or "abort" in r:
        return ("crash",)
    ds = r.get("diags", [])
    if r.get("parse_errs"):
        return ("parse-error",)
    spell = []
    for d in ds:
        t = texts.get(d["file"])
        if t is not None:
            b = t.encode("utf-8")
            spell.append((d["code"], b[d["start"]:d["end"]].decode("utf-8", "replace").lower()))
        else:
            spell.append((d["code"], None))
    return ("ok" if not ds else "fail", tuple(sorted(set(d["code"] for d in ds))), tuple(sorted(set(spell), key=str)))


def partitions(n, maxparts):
    """all assignments of n items to <= maxparts non-empty labelled-by-first-occurrence parts"""
    def rec(i, assign, used):
        if i == n:
            yield list(assign)
            return
        for p in range(min(used + 1, maxparts)):
            assign.append(p)
            yield from rec(i + 1, assign, max(used, p + 1))
            assign.pop()
    yield from rec(0, [], 0)


def search(run, info):
    rng = run.rng
    wd = run.workdir
    binp = vlib.ironplcc_bin()
    maxperm = 4 if run.tier == "quick" else 5
    nunits = 40 if run.tier == "quick" else 300
    cases = []
    groups = []   # (description, unit decl texts, [case indices], kind)
    for ui in range(nunits):
        u = gen_sem.gen_valid(rng)
        variants = [("valid", None, u)]
        ms = gen_sem.mutants(u, rng)
        if ms:
            picked = rng.sample(ms, min(len(ms), 2))
            # faults whose detection depends on what is in scope are the ones an order dependence would show on
            picked += [m for m in ms if "without VAR_EXTERNAL" in m[1] or "which only" in m[1] or "used as a variable" in m[1]
                       or "declared without CONSTANT" in m[1]][:4]
            for code, what, mu in picked:
                variants.append(("single-fault", code, mu))
        if ui % 4 == 0:
            # a containment cycle of two or three function blocks next to the valid declarations: one fault, whatever the order
            k = rng.choice([2, 2, 3])
            names = ["Cy%d_%d" % (ui, j) for j in range(k)]
            cyc = [gen_sem.Decl("fb", names[j], ["FUNCTION_BLOCK %s" % names[j], "VAR", "  nxt : %s;" % names[(j + 1) % k], "END_VAR", "END_FUNCTION_BLOCK"])
                   for j in range(k)]
            variants.append(("single-fault", "P0010", list(u[:2]) + cyc))
        if ui % 3 == 0 and u:
            # one declaration written twice -- the very same text, or the same in another letter case: a duplicated definition
            # however the two copies are distributed over files (the place it is reported at may follow the order)
            d0 = rng.choice([x for x in u if x.kind in ("fb", "program", "type", "function")] or [u[0]])
            twin = d0.copy()
            if rng.random() < 0.5:
                twin.lines = [ln.swapcase() if "'" not in ln and '"' not in ln else ln for ln in twin.lines]
            variants.append(("duplicate", "P0020", list(u) + [twin]))
        for kind, code, unit in variants:
            decls = [d.text() for d in unit]
            n = len(decls)
            idxs = []
            if n <= maxperm:
                perms = list(itertools.permutations(range(n)))
            else:
                perms = [tuple(rng.sample(range(n), n)) for _ in range(24)]
            for p in perms:
                text = "\n".join(decls[k] for k in p)
                idxs.append(len(cases))
                cases.append({"id": len(cases), "op": "analyze", "files": [["u.st", hexs(text)]], "_texts": {"u.st": text}})
            # partitions into up to 3 files, each also in reversed file order
            parts = list(partitions(n, 3))
            if len(parts) > 30:
                parts = rng.sample(parts, 30)
            for asg in parts:
                k = max(asg) + 1
                files = [("f%d.st" % j, "\n".join(decls[i] for i in range(n) if asg[i] == j)) for j in range(k)]
                for order in ([files, files[::-1]] if k > 1 else [files]):
                    idxs.append(len(cases))
                    cases.append({"id": len(cases), "op": "project", "files": [[nm, hexs(t)] for nm, t in order], "_texts": dict(order)})
            groups.append((kind, code, decls, idxs))
    res = vlib.run_impl([{k: v for k, v in c.items() if k != "_texts"} for c in cases], wd, per_case_timeout=30)
    # the scope walk of the declared-variable rule against its Coq model, on a sample of the orders and partitions
    step = max(1, len(cases) // (400 if run.tier == "quick" else 4000))
    sc_n, sc_bad = scope_corr.check(run, [[(f[0], c["_texts"][f[0]]) for f in c["files"]] for c in cases[::step]], info, "c06")
    # ... and the other rule visitors against their Coq models (facts of the resolved library), on the same sample
    rl_n, rl_bad = rules_corr.check(run, [[(f[0], c["_texts"][f[0]]) for f in c["files"]] for c in cases[::step]], info, "c06")
    ty_n, ty_bad = rules_corr.check_types(run, [[(f[0], c["_texts"][f[0]]) for f in c["files"]] for c in cases[::step]], info, "c06")
    ek_n, ek_bad = rules_corr.check_exprkind(run, [[(f[0], c["_texts"][f[0]]) for f in c["files"]] for c in cases[::step]], info, "c06")
    known_keys = {x["key"] for x in run.known}
    for gi, (kind, code, decls, idxs) in enumerate(groups):
        obs = {}
        for ci in idxs:
            o = observe(res[ci], cases[ci]["_texts"])
            run.count((gi, ci), True, "%s:%s" % (kind, cases[ci]["op"]))
            obs.setdefault(o if kind == "single-fault" else o[:2], []).append(ci)
        if len(obs) > 1 and code == "P0010" and KNOWN_CYCLE_LOCATION in known_keys and len({k[:2] for k in obs}) == 1:
            # verdict and code agree; only the construct the cycle is reported at differs with the order (recorded finding)
            run.known_finding(KNOWN_CYCLE_LOCATION, "a recursive cycle (P0010) is reported at a different member of the cycle depending on the order of the declarations")
            continue
        if len(obs) > 1:
            keys = sorted(obs, key=str)
            a, b = obs[keys[0]][0], obs[keys[1]][0]
            run.violation("impl-violates-property",
                          "the same declarations give %r in one arrangement and %r in another (%s unit%s)" % (
                              keys[0], keys[1], kind, "" if code is None else ", fault " + code),
                          {"arrangement_a": [[n, bytes.fromhex(h).decode()] for n, h in cases[a]["files"]],
                           "arrangement_b": [[n, bytes.fromhex(h).decode()] for n, h in cases[b]["files"]],
                           "via": [cases[a]["op"], cases[b]["op"]]})
        if gi % 30 == 0:
            run.sample({"kind": kind, "fault": code, "declarations": len(decls), "arrangements": len(idxs), "result": [str(k) for k in obs][:2]})
    # repeated process runs of the real binary (fresh hash seeds) over multi-file sets, every argument order
    nsets = 12 if run.tier == "quick" else 60
    runs = 8 if run.tier == "quick" else 64
    jobs = []
    for si in range(nsets):
        u = gen_sem.gen_valid(rng)
        unit = u
        code = None
        if si % 2:
            ms = gen_sem.mutants(u, rng)
            if ms:
                code, what, unit = rng.choice(ms)
        decls = [d.text() for d in unit]
        k = min(3, len(decls))
        asg = [i % k for i in range(len(decls))]
        d = os.path.join(wd, "run%d" % si)
        os.makedirs(d, exist_ok=True)
        paths = []
        # layouts: files side by side; files of one base name in different directories (what orders the sources must not be
        # the base name alone); the latter with a declaration of file 0 declared again in file 1 (which of the two a
        # duplicate is reported at must not change from run to run)
        layout = si % 3
        parts = ["\n".join(decls[i] for i in range(len(decls)) if asg[i] == j) for j in range(k)]
        if layout == 2 and k > 1:
            first = next((x for i, x in enumerate(unit) if asg[i] == 0 and x.kind in ("fb", "program", "type")), None)
            if first is not None:
                clone = ("TYPE\n  %s : (Dx1, Dx2);\nEND_TYPE\n" % first.name) if first.kind == "type" else \
                        ("FUNCTION_BLOCK %s\nVAR q : INT; END_VAR\nq := 1;\nEND_FUNCTION_BLOCK\n" % first.name)
                parts[1] = parts[1] + "\n" + clone
        for j in range(k):
            if layout == 0:
                p = os.path.join(d, "f%d.st" % j)
            else:
                os.makedirs(os.path.join(d, "p%d" % j), exist_ok=True)
                p = os.path.join(d, "p%d" % j, "unit.st")
            with open(p, "w", encoding="utf-8") as f:
                f.write(parts[j])
            paths.append(p)
        orders = list(itertools.permutations(paths))
        for rr in range(runs):
            jobs.append((si, code, orders[rr % len(orders)], d))

    def job(j):
        si, code, order, d = j
        p = subprocess.run([binp, "check"] + list(order), stdout=subprocess.PIPE, stderr=subprocess.PIPE, timeout=60)
        err = re.sub(r"\x1b\[[0-9;]*m", "", p.stderr.decode("utf-8", "replace"))
        codes = tuple(sorted(set(re.findall(r"^error\[(P\d+)\]", err, re.M))))
        # the primary label of each diagnostic (the first location printed after its headline), by path relative to the set
        prim = []
        for block in re.split(r"(?=^error\[P\d+\])", err, flags=re.M):
            m = re.search(r"┌─ ([^\n]*?):(\d+):(\d+)", block)
            if m:
                prim.append((os.path.relpath(m.group(1), d) if os.path.isabs(m.group(1)) else m.group(1), m.group(2), m.group(3)))
        return p.returncode, codes, tuple(sorted(set(prim)))

    with ThreadPoolExecutor(max_workers=vlib.NCPU) as ex:
        outs = list(ex.map(job, jobs))
    byset = {}
    for (si, code, order, d), o in zip(jobs, outs):
        run.count(("run", si, order, len(byset.get(si, []))), True, "process-run")
        byset.setdefault(si, []).append((o, order))
    for si, lst in byset.items():
        kinds = {}
        for o, order in lst:
            kinds.setdefault(o, order)
        if len(kinds) > 1:
            ks = sorted(kinds, key=str)
            run.violation("impl-violates-property", "`ironplcc check` on the same files gives %r in one run / argument order and %r in another" % (ks[0], ks[1]),
                          {"files": {"/".join(p.split(os.sep)[-2:]): open(p, encoding="utf-8").read() for p in kinds[ks[0]]},
                           "order_a": ["/".join(p.split(os.sep)[-2:]) for p in kinds[ks[0]]], "order_b": ["/".join(p.split(os.sep)[-2:]) for p in kinds[ks[1]]]})
    return {"coverage": {
        "rule": "generated valid units and single-fault mutants of them; all permutations of the top-level declarations up to %d "
                "declarations (24 sampled permutations beyond), all partitions into <= 3 files (30 sampled when more) in both file "
                "orders through FileBackedProject, and %d process runs per multi-file set of the real binary cycling through every "
                "argument order; observed: verdict, code set, and for single faults the spelling under each diagnostic; non-trivial "
                "= every arrangement" % (maxperm, runs),
        "units": len(groups),
        "arrangements": len(cases),
        "process_runs": len(jobs),
        "exhaustive": False}}


def replay(run, rep):
    a = rep.get("arrangement_a")
    b = rep.get("arrangement_b")
    if not a or not b:
        return 2
    via = rep.get("via", ["project", "project"])
    out = []
    for arr, op in ((a, via[0]), (b, via[1])):
        r = vlib.run_impl([{"id": 0, "op": op, "files": [[n, hexs(t)] for n, t in arr]}], run.workdir)[0]
        out.append(observe(r, dict((n, t) for n, t in arr))[:2])
    return 0 if out[0] == out[1] else 1
