"""C15 -- semantic tokens decode to exactly the highlighted lexemes of the document.
Proof: Properties/C15.v (relative encoding round trip, order/non-overlap, null on error, legend table).
Tie: model response vs the real server's `data`, number for number, on in-domain documents.
Search: the real `ironplcc lsp --stdio` driven through edit histories; every response decoded with an
independent decoder and compared with the lexemes of the current text and their acceptable classes."""
import gen_prog
import gen_text
import lspclient
import vlib
from vlib import hexs

NEED_BIN = True
MANIFEST_ENTRY = {
    "technique": "Coq proof that the LSP relative encoding of the lexer model's highlighted tokens decodes to exactly those lexemes "
                 "in increasing non-overlapping order (all texts), legend table regenerated from lsp_project.rs and proved "
                 "class-consistent; model/server correspondence and direct decoding of real server responses after edit histories",
    "text": "For every history of messages: a request for the semantic tokens of a file document is answered, under its id, with the tokens of what the history left as that document's contents -- its last didOpen / non-empty didChange since it was last closed, null when closed or never opened -- and of nothing else (C15_tokens_of_current_contents, on the server model that is compared frame by frame with the real server). Theorems for every text: decode_rel(semantic_tokens(tokenize t)) is entry for entry the (line, start, length, class) list "
            "of the highlighted lexemes; the encoder's subtractions never underflow; consecutive lexemes do not overlap and start "
            "positions strictly increase; the response is null iff the lexer rejects some slice; every token kind's legend entry "
            "(table regenerated from lsp_project.rs each run) names a class acceptable for the kind, kinds without a class and "
            "the synthetic ';' are never highlighted. Tied to the code by comparing the model's response with the real server's "
            "data arrays and by decoding real responses (after didOpen/didChange histories) against the lexemes of the current text.",
    "note": "Trusted: Coq kernel, translator (match arms and legend of lsp_project.rs), extraction + driver, LSP client script. "
            "Positions are in the server's unit (bytes since the last LF; identical to UTF-16 units on ASCII lines); u32 casts not "
            "modelled (documents < 4 GiB). Which word kinds must be highlighted is pinned in Spec/LspClass.v. No axioms.",
}
TRUSTED = [
    "Coq 8.16.1 kernel; vm_compute for the finite legend-table obligation and the Example",
    "no axioms: every theorem of Properties/C15.v is closed under the global context",
    "tools/translate.py: transcription of token.rs and of the match arms / legend / emitted fields of lsp_project.rs",
    "extraction (ExtrOcamlBasic only) + ocaml/driver.ml",
    "tools/lspclient.py frames JSON-RPC for the real `ironplcc lsp --stdio` built from /repo's working tree",
    "the delta-encoding closure of LspProject::tokenize is modelled by hand (Model/SemTokens.v), validated by correspondence",
]
ASSUMPTIONS = [
    "position unit = bytes since the last line feed (what the server emits); on lines with non-ASCII text before a token this "
    "differs from UTF-16 code units, which the property text does not fix",
    "a multi-line comment is one lexeme whose length runs over the line break (clients without multilineTokenSupport may clip it)",
]


def decode(data):
    """independent decoder of the LSP relative encoding"""
    out = []
    line = col = 0
    for i in range(0, len(data) - 4, 5):
        dl, dc, ln, ty, mod = data[i:i + 5]
        if dl == 0:
            col += dc
        else:
            line += dl
            col = dc
        out.append((line, col, ln, ty, mod))
    return out


def parse_model(fields):
    dom = fields[0] == "1"
    resp = None if fields[1] == "null" else [int(x) for x in fields[1].split()] if fields[1] else []
    lex = []
    if len(fields) > 2 and fields[2]:
        for it in fields[2].split(";"):
            k, l, c, n, allowed, must = it.split(" ")
            lex.append((k, int(l), int(c), int(n), [] if allowed == "-" else allowed.split("|"), must == "1"))
    legend = fields[3].split(" ") if len(fields) > 3 else []
    return dom, resp, lex, legend


def check_response(text, data, dom, lexemes, legend, lexer_rejects, impl_tokens=None):
    """the property on the server's answer.  data: list of ints, or None for a null result"""
    if lexer_rejects:
        if data is not None:
            return "text contains a slice that is not a token, but the result is not null"
        return None
    if data is None:
        return "null result for a text that tokenizes completely"
    if len(data) % 5 != 0:
        return "data length %d is not a multiple of 5" % len(data)
    dec = decode(data)
    prev = None
    for d in dec:
        if prev is not None and not (d[0] > prev[0] or (d[0] == prev[0] and d[1] > prev[1])):
            return "decoded start positions not strictly increasing: %r then %r" % (prev, d)
        if prev is not None and d[0] == prev[0] and d[1] < prev[1] + prev[2]:
            return "decoded ranges overlap: %r then %r" % (prev, d)
        if d[4] != 0:
            return "token modifiers %d without a modifier legend" % d[4]
        if d[3] >= len(legend):
            return "token type %d outside the legend" % d[3]
        prev = d
    if not dom:
        # outside the model's domain (or without a model: the translator refused the source): the lexemes are those of the
        # implementation's own tokenizer (whose positions C05 checks); the class is not compared
        if impl_tokens is None:
            return None
        # positions and lengths must be counted in one and the same unit: bytes, characters or UTF-16 units
        tb_all = text.encode("utf-8")
        fails = {}
        for unit in ("bytes", "chars", "utf16"):
            def measure(bs):
                x = bs.decode("utf-8", "replace")
                return len(bs) if unit == "bytes" else len(x) if unit == "chars" else len(x.encode("utf-16-le")) // 2
            bypos = {}
            for t in impl_tokens:
                tb = bytes.fromhex(t[5])
                if t[0] in ("Whitespace", "Newline") or not tb:
                    continue
                ls = tb_all.rfind(b"\n", 0, t[1]) + 1
                bypos[(t[3], measure(tb_all[ls:t[1]]))] = (t[0], measure(tb))
            why = None
            for d in dec:
                le = bypos.get((d[0], d[1]))
                if le is None:
                    why = "decoded range line %d start %d length %d does not start at a lexeme of the document" % (d[0], d[1], d[2])
                    break
                if d[2] != le[1]:
                    why = "decoded range at %d:%d has length %d, the %s lexeme there has %d" % (d[0], d[1], d[2], le[0], le[1])
                    break
            if why is None:
                return None
            fails[unit] = why
        return "no unit of position fits the ranges: counted in bytes, %s; in characters, %s; in UTF-16 units, %s" % (
            fails["bytes"], fails["chars"], fails["utf16"])
    # every decoded range is exactly one lexeme with an acceptable class, in order; every must-lexeme appears
    bypos = {}
    for k, l, c, n, allowed, must in lexemes:
        bypos[(l, c)] = (k, n, allowed, must)
    seen = set()
    for d in dec:
        le = bypos.get((d[0], d[1]))
        if le is None:
            return "decoded range line %d start %d length %d does not start at a lexeme" % (d[0], d[1], d[2])
        k, n, allowed, must = le
        if n != d[2]:
            return "decoded range at %d:%d has length %d, the %s lexeme there has %d" % (d[0], d[1], d[2], k, n)
        if legend[d[3]] not in allowed:
            return "%s lexeme at %d:%d classified %r, acceptable %r" % (k, d[0], d[1], legend[d[3]], allowed)
        seen.add((d[0], d[1]))
    for k, l, c, n, allowed, must in lexemes:
        if must and (l, c) not in seen:
            return "%s lexeme at %d:%d (length %d) is not in the response" % (k, l, c, n)
    return None


def gen_docs(run):
    rng = run.rng
    docs = []
    fixed = [
        "", "x", "IF (* c *) x\nTHEN", "(* a\nb *) x := 1;\r\n(* c *)\tEND_IF y", "a ? b", "(* open", "x := %IX1.2 + 16#FF;",
        "PROGRAM p\nVAR x : INT; END_VAR\n(* c *) x := 1;\nEND_PROGRAM\n", "IF a THEN END_IF END_IF x", "'é' z (* ü *) q\nw",
        "TYPE t : ARRAY[1..2] OF STRING; END_TYPE", "VAR RETAIN CONSTANT x AT %I* : WSTRING; END_VAR", "a => b .. c",
        "x (* é *) y", "// line\ny", "a\fb",
    ]
    for t in fixed:
        docs.append(("fixed", t))
    for name, t in gen_text.fixtures():
        docs.append(("fixture", t))
    n_prog = 60 if run.tier == "quick" else 600
    for _ in range(n_prog):
        sp = gen_prog.Spelling(rng, respell=True, nonascii=rng.random() < 0.5)
        docs.append(("program", gen_prog.render(gen_prog.gen_library(rng), sp)))
    n_soup = 150 if run.tier == "quick" else 2000
    for _ in range(n_soup):
        docs.append(("soup", gen_text.token_soup(rng, errors=rng.random() < 0.25)))
    return docs


def search(run, info):
    rng = run.rng
    docs = gen_docs(run)
    texts = [t for _, t in docs]
    model = {}
    if info.get("extract_ok"):
        model = vlib.run_model([("semtok", i, [hexs(t)]) for i, t in enumerate(texts)], run.workdir)
    impl_tok = vlib.run_impl([{"id": i, "op": "tok", "text": hexs(t)} for i, t in enumerate(texts)], run.workdir)
    binp = vlib.ironplcc_bin()
    uris = ["file:///w/a.st", "file:///w/b.st", "file:///w/sub/c.st"]
    # sessions: each walks through a slice of the documents as an edit history over three URIs
    per = 12
    order = list(range(len(texts)))
    rng.shuffle(order)
    sessions = [order[i:i + per] for i in range(0, len(order), per)]
    jobs = []
    for s in sessions:
        msgs = []
        reqs = []  # (request id, doc index)
        opened = set()
        current = {}
        ver = {}   # per document, restarting at 1 when the document is opened again (what editors do)
        rid = 1
        for di in s:
            u = rng.choice(uris)
            if u in opened and rng.random() < 0.75:
                k = rng.choice([1, 1, 1, 2])
                chg = [texts[rng.choice(s)] for _ in range(k - 1)] + [texts[di]]
                ver[u] += 1
                msgs.append(lspclient.did_change(u, ver[u], chg))
            else:
                if u in opened and rng.random() < 0.6:
                    msgs.append({"jsonrpc": "2.0", "method": "textDocument/didClose", "params": {"textDocument": {"uri": u}}})
                ver[u] = 1
                msgs.append(lspclient.did_open(u, ver[u], texts[di]))
                opened.add(u)
            current[u] = di
            msgs.append(lspclient.sem_tokens(rid, u))
            reqs.append((rid, di))
            rid += 1
            # sometimes ask again for another document that was edited earlier
            if rng.random() < 0.3:
                u2 = rng.choice(sorted(current))
                msgs.append(lspclient.sem_tokens(rid, u2))
                reqs.append((rid, current[u2]))
                rid += 1
        jobs.append((msgs, reqs))

    from concurrent.futures import ThreadPoolExecutor

    def runjob(j):
        msgs, reqs = j
        return lspclient.session(binp, msgs, timeout=300), reqs, msgs

    nresp = 0
    ncorr = 0
    with ThreadPoolExecutor(max_workers=vlib.NCPU) as ex:
        results = list(ex.map(runjob, jobs))
    for res, reqs, msgs in results:
        if res["exit"] != 0:
            run.violation("impl-violates-property", "language server ended with status %r during a semantic-token session" % (res["exit"],),
                          {"messages": msgs, "stderr": res["stderr"][-800:]})
            continue
        byid = {}
        for f in res["frames"]:
            if "id" in f and "method" not in f:
                byid.setdefault(f["id"], []).append(f)
        for rid, di in reqs:
            t = texts[di]
            tag = docs[di][0]
            run.count(("resp", t), len(t) > 0, "doc:" + tag)
            fr = byid.get(rid, [])
            if len(fr) != 1 or "result" not in fr[0]:
                run.violation("impl-violates-property", "semantic token request %d got %d replies / an error" % (rid, len(fr)),
                              {"messages": msgs, "request_id": rid})
                continue
            result = fr[0]["result"]
            data = None if result is None else result.get("data")
            nresp += 1
            m = model.get(str(di))
            it = impl_tok[di]
            lexer_rejects = bool(it.get("diags")) if "tokens" in it else None
            if m and m[0] != "model-stack-overflow":
                dom, mresp, lexemes, legend = parse_model(m)
            else:
                dom, mresp, lexemes, legend = False, None, [], ["variable", "keyword", "modifier", "comment", "string", "operator"]
            if lexer_rejects is None:
                continue
            fail = check_response(t, data, dom, lexemes, legend, lexer_rejects, it.get("tokens"))
            if fail:
                upto = next((i for i, mm in enumerate(msgs) if mm.get("id") == rid), len(msgs) - 1)
                run.violation("impl-violates-property", fail,
                              {"input": {"text": t, "text_hex": hexs(t)}, "response_data": data, "decoded": decode(data or [])[:40],
                               "messages": msgs[:upto + 1], "request_id": rid})
                continue
            if dom and m:
                ncorr += 1
                run.cov["traces_validated_against_impl"] += 1
                if mresp != data:
                    run.cov["disagreements_checked"] += 1
                    run.violation("correspondence", "semantic-token model and server disagree: model %r server %r" % (
                        (mresp or [])[:25] if mresp is not None else None, (data or [])[:25] if data is not None else None),
                        {"input": {"text": t, "text_hex": hexs(t)}}, no_input=True)
            if nresp % 150 == 1:
                run.sample({"text": t[:100], "data": (data or [])[:25] if data is not None else None, "decoded": decode(data or [])[:5]})
    return {"coverage": {
        "rule": "documents = fixed edge cases + repository fixtures + generated programs in random spellings (comments before tokens "
                "on the same line, multi-line comments, CRLF, FF, non-ASCII in comments/strings) + token soups (a quarter with "
                "lexical errors); each session is an edit history (didOpen / didChange with 1-2 changes / didClose and re-open over three URIs, versions counted per document and restarting at 1 on every open) with a "
                "semantic-token request after each edit and repeated requests for earlier documents; non-trivial = non-empty "
                "document, distinct by content",
        "responses_checked": nresp,
        "responses_compared_with_model": ncorr,
        "sessions": len(jobs),
        "exhaustive": False}}


def replay(run, rep):
    t = rep.get("input", {}).get("text")
    if t is None:
        return 2
    binp = vlib.ironplcc_bin()
    u = "file:///w/a.st"
    if rep.get("messages") and rep.get("request_id") is not None:
        # the recorded edit history up to the failing request
        res = lspclient.session(binp, rep["messages"])
        fr = [f for f in res["frames"] if f.get("id") == rep["request_id"] and "method" not in f]
    else:
        res = lspclient.session(binp, [lspclient.did_open(u, 1, t), lspclient.sem_tokens(1, u)])
        fr = [f for f in res["frames"] if f.get("id") == 1]
    if res["exit"] != 0 or len(fr) != 1:
        return 1
    model = vlib.run_model([("semtok", 0, [hexs(t)])], run.workdir)
    it = vlib.run_impl([{"id": 0, "op": "tok", "text": hexs(t)}], run.workdir)[0]
    dom, mresp, lexemes, legend = parse_model(model["0"])
    result = fr[0].get("result")
    data = None if result is None else result.get("data")
    fail = check_response(t, data, dom, lexemes, legend, bool(it.get("diags")))
    print(fail or ("model/server differ" if dom and mresp != data else "ok"))
    return 1 if fail or (dom and mresp != data) else 0
