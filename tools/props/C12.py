"""C12 -- the language server answers every request once and survives any message sequence.
Proof: Properties/C12.v (reply ids = request ids, in order, for every message sequence; error iff unimplemented or wrongly shaped parameters).
Tie: the frames of the real `ironplcc lsp --stdio` compared, in order, with the model's for the same messages.
Search: random interleavings of the property's alphabet; exit status, one reply per request id, none for notifications."""
from concurrent.futures import ThreadPoolExecutor

import lsp_common as L
import lspclient
import vlib
from vlib import hexs

NEED_BIN = True
MANIFEST_ENTRY = {
    "technique": "Coq proof by induction over the message sequence that the language-server model writes exactly one reply per "
                 "request id, in order, and none for notifications or client responses; frame-by-frame correspondence of model and "
                 "real server on random sessions; exit status and reply multiset observed on the real binary",
    "text": "Theorem for every message sequence over the property's alphabet and every analysis/tokenizer: the reply ids written are "
            "exactly the request ids received, in order (so every request is answered once and nothing else is); an error reply is "
            "written exactly for unimplemented methods (MethodNotFound) and for parameters of the wrong shape (InvalidParams). The model is a total function, so survival and exit status are not theorems: "
            "they are observed on the real `ironplcc lsp --stdio` for every generated session, whose frames (publish / reply / error, "
            "with uri, version, id, null-ness) are compared in order with the model's.",
    "note": "Trusted: Coq kernel, extraction + driver, tools/lspclient.py. lsp-server / JSON-RPC framing, process exit status and "
            "panics are runtime behaviour observed, not proved. No axioms.",
}
TRUSTED = [
    "Coq 8.16.1 kernel; vm_compute only in the Example",
    "no axioms: every theorem of Properties/C12.v is closed under the global context",
    "lsp.rs handlers are modelled by hand (Model/Lsp.v), validated by ordered frame correspondence on every run",
    "tools/lspclient.py; lsp-server crate framing; OS exit status",
]
ASSUMPTIONS = ["messages are well-formed JSON-RPC (an object with a method and/or an id); parameters of any JSON shape"]

UNIMPL_REQ = ["textDocument/hover", "textDocument/completion", "workspace/symbol", "textDocument/definition",
              # protocol-level and made-up methods: a message with an id is a request and is answered, whatever its name
              "$/cancelRequest", "$/progress", "$/ironplc/status", "workspace/executeCommand", "textDocument/semanticTokens/range",
              "window/workDoneProgress/create", "x", "textDocument/didOpenX", "initialized"]
UNIMPL_NOTE = ["workspace/didChangeConfiguration", "textDocument/didSave", "$/setTrace",
               "$/cancelRequest", "$/progress", "workspace/didChangeWatchedFiles", "x/y"]
# notifications the server implements, sent with parameters that do not have their shape: nothing is done for them
IMPL_NOTE = ["textDocument/didOpen", "textDocument/didChange", "textDocument/didClose"]


def gen_session(rng, ndocs, maxlen):
    n = rng.randint(1, maxlen)
    msgs = []
    rid = 1
    ver = 1
    for _ in range(n):
        k = rng.choice("OOCCCSSQNAXBM")
        uid = rng.randint(1, 3)
        is_file = rng.random() < 0.85
        if k == "O":
            msgs.append(("O", uid, is_file, ver, rng.randrange(ndocs)))
            ver += 1
        elif k == "C":
            cnt = rng.choice([0, 1, 1, 2])
            msgs.append(("C", uid, is_file, ver, [rng.randrange(ndocs) for _ in range(cnt)]))
            ver += 1
        elif k == "S":
            msgs.append(("S", rid, uid, is_file))
            rid += 1
        elif k == "Q":
            msgs.append(("Q", rid, rng.choice(UNIMPL_REQ)))
            rid += 1
        elif k == "N":
            msgs.append(("N", rng.choice(UNIMPL_NOTE)))
        elif k == "M":
            msgs.append(("N", rng.choice(IMPL_NOTE), rng.randrange(len(L.BAD_PARAMS))))
        elif k == "X":
            msgs.append(("X", uid, is_file))
        elif k == "B":
            msgs.append(("B", rid, rng.randrange(len(L.BAD_PARAMS))))
            rid += 1
        else:
            msgs.append(("A", rng.randint(1000, 2000)))
    return msgs


SHUT = lspclient.SHUT_ID


def gen_life(rng, ndocs):
    """the life of the process: a short session with an ending of its own -- shutdown and exit (with or without
    messages after them), exit without shutdown, an input that just ends, shutdown alone, shutdown followed by
    something other than exit"""
    body = gen_session(rng, ndocs, 12)
    tail = gen_session(rng, ndocs, 3)
    k = rng.randrange(8)
    if k == 0:
        end = [("H", SHUT), ("Z",)] + tail
    elif k == 1:
        end = [("Z",), ("H", SHUT), ("Z",)]
    elif k == 2:
        end = []
    elif k == 3:
        end = [("H", SHUT)]
    elif k == 4:
        end = [("H", SHUT)] + (tail or [("N", "foo/bar")])[:1] + [("Z",)]
    elif k == 5:
        end = [("H", SHUT), ("H", SHUT + 1), ("Z",)]
    elif k == 6:
        end = [("Z",)] + tail
    else:
        end = [("H", SHUT), ("Z",), ("H", SHUT + 1), ("Z",)]
    return body + end


def check_life(msgs, res, mo):
    """the real process against the model's prediction [frames, shutdown id or -, clean]"""
    clean = mo[2] == "1"
    if (res["exit"] == 0) != clean:
        return "the process ended with status %r where the model says %s" % (res["exit"], "0" if clean else "not 0")
    shut = [f.get("id") for f in res["frames"] if f.get("id") in (SHUT, SHUT + 1) and "method" not in f]
    want = [] if mo[1] == "-" else [int(mo[1])]
    if shut != want:
        return "shutdown replies %r where the model says %r" % (shut, want)
    ms = L.model_skeleton(mo[0], None)
    rs = L.skeleton([f for f in res["frames"] if f.get("id") != SHUT + 1])
    if ms != rs:
        k = next((j for j in range(min(len(ms), len(rs))) if ms[j] != rs[j]), min(len(ms), len(rs)))
        return "frames differ at %d: model %r, server %r" % (k, ms[k:k + 2], rs[k:k + 2])
    return None


def check_life_property(msgs, res):
    """what the property itself says about such a session: shutdown directly followed by exit, with nothing but ordinary
    messages before -> status 0 and every request before answered once"""
    kinds = [m[0] for m in msgs]
    if "H" in kinds:
        i = kinds.index("H")
        if "Z" not in kinds[:i] and kinds[i + 1:i + 2] == ["Z"]:
            return check_session(msgs[:i], res)
    return None


def check_session(msgs, res):
    """the property on the real server's behaviour"""
    if res["exit"] != 0:
        return "server ended with status %r" % (res["exit"],)
    want = [m[1] for m in msgs if m[0] in ("S", "Q", "B")]
    got = []
    for f in res["frames"]:
        if "id" in f and "method" not in f and f["id"] != lspclient.SHUT_ID:
            got.append(f["id"])
            if "result" not in f and "error" not in f:
                return "reply %r has neither result nor error" % f["id"]
    shut = [f for f in res["frames"] if f.get("id") == lspclient.SHUT_ID]
    if len(shut) != 1:
        return "shutdown was answered %d times" % len(shut)
    if sorted(got) != sorted(want):
        missing = [i for i in want if i not in got]
        extra = [i for i in got if got.count(i) > want.count(i)]
        return "request ids %r unanswered, ids %r answered more than asked" % (missing[:5], sorted(set(extra))[:5])
    for m in msgs:
        if m[0] == "Q":
            fr = [f for f in res["frames"] if f.get("id") == m[1] and "method" not in f]
            if fr and "error" not in fr[0]:
                return "request %d for unimplemented method %s got a result, not an error" % (m[1], m[2])
    return None


def search(run, info):
    rng = run.rng
    texts = [t for _, t in L.DOCS]
    tk = vlib.run_impl([{"id": i, "op": "tok", "text": hexs(t)} for i, t in enumerate(texts)], run.workdir)
    clean = [not r.get("diags") for r in tk]
    nsess = 400 if run.tier == "quick" else 8000
    sessions = [gen_session(rng, len(texts), 60) for _ in range(nsess)]
    # fixed regression sessions (the defects repaired earlier)
    names = [n for n, _ in L.DOCS]
    for a, b in (("unfinished-with-blank-lines", "unfinished-trimmed"), ("valid-with-blank-lines", "valid-trimmed")):
        ia, ib = names.index(a), names.index(b)
        for x, y in ((ia, ib), (ib, ia)):
            sessions.append([("O", 1, True, 1, x), ("C", 1, True, 2, [y]), ("S", 1, 1, True), ("C", 1, True, 3, [x]), ("S", 2, 1, True)])
    sessions += [[("B", 1, k) for k in range(len(L.BAD_PARAMS))], [("N", n, k) for n in IMPL_NOTE for k in range(len(L.BAD_PARAMS))],
                 [("O", 1, True, 1, 0), ("X", 1, True), ("S", 1, 1, True), ("X", 1, True), ("X", 2, False), ("C", 1, True, 2, [1])],
                 [("A", 77)], [("Q", 1, "textDocument/hover")], [("C", 1, True, 1, [])], [("O", 1, True, 1, 0), ("C", 1, True, 2, [1, 0])],
                 [("S", 1, 2, True)], [("S", 1, 1, False)], []]
    binp = vlib.ironplcc_bin()
    model = {}
    if info.get("extract_ok"):
        model = vlib.run_model([("lsp", i, [L.to_model(m, clean) for m in s]) for i, s in enumerate(sessions)], run.workdir)

    def runjob(s):
        return lspclient.session(binp, [L.to_real(m, texts) for m in s], timeout=120)

    with ThreadPoolExecutor(max_workers=vlib.NCPU) as ex:
        results = list(ex.map(runjob, sessions))
    # the life of the process
    nlife = 160 if run.tier == "quick" else 2400
    lives = [gen_life(rng, len(texts)) for _ in range(nlife)]
    lives += [[("Z",)], [], [("H", SHUT)], [("H", SHUT), ("Z",)], [("H", SHUT), ("Q", 5, "textDocument/hover"), ("Z",)],
              [("Z",), ("H", SHUT), ("Z",)], [("Q", 5, "textDocument/hover"), ("H", SHUT), ("Z",), ("Q", 6, "textDocument/hover")]]
    lmodel = {}
    if info.get("extract_ok"):
        lmodel = vlib.run_model([("lsp", "L%d" % i, ["L"] + [L.to_model(m, clean) for m in s]) for i, s in enumerate(lives)], run.workdir)

    def lifejob(s):
        return lspclient.session(binp, [L.to_real(m, texts) for m in s], timeout=120, shutdown=False, do_exit=False)

    with ThreadPoolExecutor(max_workers=vlib.NCPU) as ex:
        lres = list(ex.map(lifejob, lives))
    ends = {}
    for i, (s, res) in enumerate(zip(lives, lres)):
        run.count(("life",) + tuple(map(str, s)), True, "life-status:%s" % ("0" if res["exit"] == 0 else "not-0"))
        fail = check_life_property(s, res)
        if fail:
            run.violation("impl-violates-property", "life of the process: " + fail, {"life": [list(m) for m in s], "stderr": res["stderr"][-600:]})
            continue
        mo = lmodel.get("L%d" % i)
        if mo is not None and len(mo) == 3:
            run.cov["traces_validated_against_impl"] += 1
            fail = check_life(s, res, mo)
            if fail:
                run.cov["disagreements_checked"] += 1
                run.violation("correspondence", "life of the process: " + fail, {"life": [list(m) for m in s], "stderr": res["stderr"][-300:]}, no_input=True)
    hist = {}
    for i, (s, res) in enumerate(zip(sessions, results)):
        run.count(tuple(map(str, s)), len(s) > 0, "len:%d" % (10 * (len(s) // 10)))
        for m in s:
            hist[m[0]] = hist.get(m[0], 0) + 1
        fail = check_session(s, res)
        if fail:
            run.violation("impl-violates-property", fail, {"session": [list(m) for m in s], "stderr": res["stderr"][-600:],
                                                           "docs": dict((str(i), n) for i, (n, _) in enumerate(L.DOCS))})
            continue
        mo = model.get(str(i))
        if mo is not None and mo and mo[0] not in ("unknown-op", "bad-args"):
            run.cov["traces_validated_against_impl"] += 1
            ms = L.model_skeleton(mo[0], None)
            rs = L.skeleton(res["frames"])
            if ms != rs:
                run.cov["disagreements_checked"] += 1
                k = next((j for j in range(min(len(ms), len(rs))) if ms[j] != rs[j]), min(len(ms), len(rs)))
                run.violation("correspondence", "language-server model and real server differ at frame %d: model %r, server %r" % (
                    k, ms[k:k + 2], rs[k:k + 2]), {"session": [list(m) for m in s]}, no_input=True)
        if i % 100 == 0:
            run.sample({"session": [list(m) for m in s][:8], "frames": L.skeleton(res["frames"])[:8]})
    run.cov["histogram"].update({"msg:" + k: v for k, v in hist.items()})
    return {"coverage": {
        "rule": "sessions = random interleavings (length 1-60) of didOpen / didChange with 0, 1 or 2 content changes / "
                "didClose / semanticTokens requests / requests and notifications for unimplemented methods / requests and "
                "notifications of implemented methods with parameters of the wrong shape / client responses, over three "
                "document numbers as file: and non-file URIs incl. unopened ones, followed by shutdown and exit; plus fixed "
                "regression sessions; plus the life of the process: short sessions ending in shutdown+exit (and messages after), "
                "exit without shutdown, an input that ends, shutdown alone, shutdown followed by another message or a second "
                "shutdown -- status 0, the shutdown reply and the frames written compared with the model's session; non-trivial = at least one message, distinct by message list",
        "sessions": len(sessions),
        "exhaustive": False}}


def replay(run, rep):
    if rep.get("life") is not None:
        texts = [t for _, t in L.DOCS]
        msgs = [tuple(m) for m in rep["life"]]
        res = lspclient.session(vlib.ironplcc_bin(), [L.to_real(m, texts) for m in msgs], timeout=120, shutdown=False, do_exit=False)
        return 1 if check_life_property(msgs, res) else 0
    s = rep.get("session")
    if s is None:
        return 2
    texts = [t for _, t in L.DOCS]
    msgs = [tuple(m) for m in s]
    res = lspclient.session(vlib.ironplcc_bin(), [L.to_real(m, texts) for m in msgs], timeout=120)
    return 1 if check_session(msgs, res) else 0
