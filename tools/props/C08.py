"""C08 -- letter case, layout and comments never change what a program means.
Proof: Properties/C08.v (every alphabetic token of the regenerated token table is case-insensitive; the END_IF terminator
insertion makes the ';' optional wherever END_IF is followed by another significant token; trivia tokens never reach the
grammar's significant positions -- see DESIGN.md).  The respelling theorem proper is the corollary of C01's parser theorem
on its proof scope.
Tie: regenerated token table.  Search: every generated unit in several random spellings (keyword case per letter, identifier
case per occurrence, trivia at every inter-token slot incl. CRLF, form feed, multi-line and nested-looking comments, optional
';' after END_IF): the libraries must be equal by Rust's own == and the analysis code sets must be equal; per-keyword sweep."""
import ast_common
import gen_ast
import re
import gen_prog
import gen_sem
import gen_text
import vlib
import st_corr
from vlib import hexs

NEED_BIN = False
MANIFEST_ENTRY = {
    "technique": "Coq obligation over the regenerated token table that every alphabetic token is matched case-insensitively and that "
                 "identifiers compare by their lower-cased spelling; Coq theorem that the END_IF terminator insertion makes the ';' "
                 "optional; random respelling of generated units compared with Rust's own library equality and analysis code sets",
    "text": "Proved: all alphabetic literal tokens of token.rs carry ignore(case) (table regenerated each run); after the terminator "
            "insertion every END_IF is followed by a ';' before the next significant token whether or not one was written, and the "
            "inserted token changes nothing else. The claim that the parsed library is invariant under every respelling is a theorem "
            "on the scope of C01's parser proofs: expressions (C08_expression_respelling) and statement lists (C08_statement_respelling: "
            "two well-formed spellings with the same erasure -- any trivia at any slot, redundant parentheses, '+' signs; keyword and "
            "identifier case lie below the token classes -- give the same result of the modelled entry point); for the whole grammar it is decided by search: each generated unit "
            "(syntactic generator and valid-by-construction generator) is written in several random spellings and the libraries are "
            "compared with Rust's == (which ignores positions and identifier case) together with the analysis verdict and codes.",
    "note": "Trusted: Coq kernel, translator (token table), harness op respell. Known findings: a comment ending in '**)' is a lexical "
            "error; no trivia is accepted inside a repeated array initial element 'n(v)'. No axioms.",
}
TRUSTED = [
    "Coq 8.16.1 kernel; vm_compute for the finite token-table obligation",
    "no axioms: every theorem of Properties/C08.v is closed under the global context",
    "tools/translate.py: token table of token.rs",
    "harness op `respell`: parse_program on both spellings, Rust ==, stages::analyze code sets",
]
ASSUMPTIONS = ["trivia inside lexical productions (typed literals INT#5, durations, based numbers, direct addresses) is outside the claim"]

KNOWN_COMMENT = "comment-ending-in-star-star-paren"
KNOWN_REPEAT = "no-trivia-inside-repeated-array-element"


def search(run, info):
    rng = run.rng
    wd = run.workdir
    k = 3 if run.tier == "quick" else 16
    units = []
    for _ in range(150 if run.tier == "quick" else 2500):
        lx, tree, known = gen_ast.gen_unit(rng, depth=rng.choice([2, 3]))
        units.append(("ast", lx, False))
    for _ in range(80 if run.tier == "quick" else 1000):
        units.append(("syntactic", gen_prog.gen_library(rng), False))
    cases = []
    meta = []
    for ui, (kind, lx, _) in enumerate(units):
        base = gen_prog.render(lx)
        for j in range(k):
            mode = j % 3
            if mode == 0:
                sp = gen_prog.Spelling(rng, respell=True)                              # everything
            elif mode == 1:
                sp = gen_prog.Spelling(rng, respell=True, trivia=False, optsemi=False)  # letter case only
            else:
                sp = gen_prog.Spelling(rng, respell=True, kw_case=False, id_case=False)  # layout, comments, optional ';' only
            other = gen_prog.render(lx, sp)
            meta.append((ui, kind, base, other, ("all", "case", "layout")[mode]))
            cases.append({"id": len(cases), "op": "respell", "a": hexs(base), "b": hexs(other), "analyze": True})
    # valid-by-construction units: the verdict must stay OK under respelling of case (their text is line based)
    for _ in range(60 if run.tier == "quick" else 600):
        u = gen_sem.gen_valid(rng)
        base = gen_sem.render(u)
        # letters outside character strings only: the contents of a string literal are data, not spelling
        flip = rng.random() < 0.5
        import re as _rx
        parts = _rx.split(r"('[^']*')", base)
        other = "".join(p if p.startswith("'") else ("".join(ch.upper() if rng.random() < 0.5 else ch.lower() for ch in p) if flip else p.swapcase())
                        for p in parts)
        meta.append((-1, "valid-unit", base, other, "case"))
        cases.append({"id": len(cases), "op": "respell", "a": hexs(base), "b": hexs(other), "analyze": True})
    # per-keyword sweep: every alphabetic keyword that occurs in the generated texts, in lower / upper / alternating case
    words = sorted(set(gen_text.keywords()))
    swept = set()
    pool = [gen_prog.render(lx) for _, lx, _ in units]
    import re
    for w in words:
        rx = re.compile(r"(?<![A-Za-z0-9_#'\"])%s(?![A-Za-z0-9_#])" % re.escape(w))
        src = next((t for t in pool if rx.search(t) and "(*" not in t and "'" not in t and '"' not in t), None)
        if src is None:
            continue
        swept.add(w)
        for variant in (w.lower(), w.upper(), "".join(c.upper() if i % 2 else c.lower() for i, c in enumerate(w))):
            other = rx.sub(variant, src)
            meta.append((-2, "keyword:" + w, src, other, "keyword"))
            cases.append({"id": len(cases), "op": "respell", "a": hexs(src), "b": hexs(other), "analyze": False})
    # regression corpus of the defects repaired earlier, and the known findings
    fixed_corpus = [
        ("PROGRAM p\nVAR x : INT; END_VAR\nx := 5 MOD 2;\nIF NOT (x = 1) THEN x := 2; END_IF;\nEND_PROGRAM\n",
         "program p\nvar x : int; end_var\nx := 5 mod 2;\nif not (x = 1) then x := 2; end_if;\nend_program\n"),
        ("PROGRAM p\nVAR x : INT; END_VAR\nIF x = 1 THEN IF x = 2 THEN x := 3; END_IF; END_IF;\nEND_PROGRAM\n",
         "PROGRAM p\nVAR x : INT; END_VAR\nIF x = 1 THEN IF x = 2 THEN x := 3; END_IF END_IF\nEND_PROGRAM\n"),
        ("TYPE\n  S : STRUCT a : INT; END_STRUCT;\n  R : INT (1..10);\nEND_TYPE\nPROGRAM p\nVAR v : S; w : ARRAY[1..2] OF INT; END_VAR\nv.a := w[1];\nEND_PROGRAM\n",
         "TYPE\n  S : STRUCT a : INT ; END_STRUCT ;\n  R : INT (1 .. 10) ;\nEND_TYPE\nPROGRAM p\nVAR v : S ; w : ARRAY [1 .. 2] OF INT ; END_VAR\nv . a := w [ 1 ] ;\nEND_PROGRAM\n"),
    ]
    for a, b in fixed_corpus:
        meta.append((-3, "fixed-regression", a, b, "corpus"))
        cases.append({"id": len(cases), "op": "respell", "a": hexs(a), "b": hexs(b), "analyze": True})
    known_corpus = [
        (KNOWN_COMMENT, "PROGRAM p\nVAR x : INT; END_VAR\nx := 1;\nEND_PROGRAM\n", "PROGRAM p\nVAR x : INT; END_VAR\nx := (* note **) 1;\nEND_PROGRAM\n",
         "a comment whose body ends in '*' (e.g. '(* note **)') is a lexical error instead of trivia"),
        (KNOWN_REPEAT, "TYPE\n  A : ARRAY [1..4] OF INT := [2(7), 8];\nEND_TYPE\n", "TYPE\n  A : ARRAY [1..4] OF INT := [2 ( 7 ), 8];\nEND_TYPE\n",
         "no blank or comment is accepted inside a repeated array initial element 'n(v)'"),
    ]
    for key, a, b, what in known_corpus:
        meta.append((-4, "known:" + key, a, b, what))
        cases.append({"id": len(cases), "op": "respell", "a": hexs(a), "b": hexs(b), "analyze": False})
    res = vlib.run_impl(cases, wd, per_case_timeout=30)
    known_keys = {x["key"] for x in run.known}
    for (ui, kind, a, b, mode), r in zip(meta, res):
        run.count((a, b), a != b, "%s:%s" % (kind.split(":")[0], mode if ui >= -1 else "sweep"))
        if "panic" in r or "abort" in r:
            run.violation("impl-violates-property", "parser crashed on a respelling", {"a": a, "b": b})
            continue
        if ui == -4:
            key = kind.split(":", 1)[1]
            bad = r.get("a") == "ok" and (r.get("b") != "ok" or not r.get("equal"))
            if bad and key in known_keys:
                run.known_finding(key, mode)
            elif bad:
                run.violation("impl-violates-property", "respelling changes the result: %s" % mode, {"a": a, "b": b})
            continue
        if r.get("a") != "ok":
            # the base spelling itself is not accepted: when the other spelling is, the two spellings are read differently
            if r.get("b") == "ok":
                run.violation("impl-violates-property", "the canonical spelling of a program is rejected (%s) and a respelling (%s) of it is accepted" % (
                    r.get("err_a", {}).get("msg", "")[-120:], mode), {"a": b, "b": a, "mode": mode})
            elif kind in ("ast", "valid-unit", "fixed-regression"):
                run.violation("correspondence", "a generated base text is rejected by the parser: %s" % r.get("err_a", {}).get("msg", "")[-100:],
                              {"a": a}, no_input=True)
            continue
        if r.get("b") != "ok":
            run.violation("impl-violates-property", "a respelling (%s) of an accepted program is rejected: %s" % (
                mode, r.get("err_b", {}).get("msg", "")[-140:]), {"a": a, "b": b, "mode": mode})
            continue
        if not r.get("equal"):
            run.violation("impl-violates-property", "a respelling (%s) parses to a different library" % mode, {"a": a, "b": b, "mode": mode})
            continue
        if r.get("codes_a") != r.get("codes_b"):
            run.violation("impl-violates-property", "a respelling (%s) changes the analysis result from %r to %r" % (mode, r.get("codes_a"), r.get("codes_b")),
                          {"a": a, "b": b, "mode": mode})
        if len(run.cov["samples"]) < 3 and a != b:
            run.sample({"mode": mode, "a": a[:120], "b": b[:160]})
    # ---- the statement parser model (C08_statement_respelling): three spellings per body ----
    st_stats = st_corr.check(run, info, 150 if run.tier == "quick" else 2500, 0, "c08")
    decl_stats = st_corr.check_fbd(run, info, 100 if run.tier == "quick" else 1500, 0, "c08")
    return {"coverage": {
        "rule": "units from the AST-level and the syntactic generator, each in %d random spellings cycling through: everything / letter case "
                "only / layout, comments and the optional ';' only; valid-by-construction units with random letter case (verdict and codes); "
                "every alphabetic keyword that occurs, in lower / upper / alternating case; a corpus of repaired defects and of the known "
                "findings; non-trivial = the two spellings differ, distinct by the pair of texts" % k,
        "keywords_swept": len(swept),
        "keywords_in_token_table": len(words),
        "exhaustive": False}}


def replay(run, rep):
    a, b = rep.get("a"), rep.get("b")
    if a is None or b is None:
        return 2
    r = vlib.run_impl([{"id": 0, "op": "respell", "a": hexs(a), "b": hexs(b), "analyze": True}], run.workdir)[0]
    ok = r.get("a") == "ok" and r.get("b") == "ok" and r.get("equal") and r.get("codes_a") == r.get("codes_b")
    return 0 if ok or r.get("a") != "ok" else 1
