"""C11 -- LSP diagnostics depend only on current document contents and equal `check`.
Proof: Properties/C11.v (one publish per notification with its version; published content = analysis of the contents
after the edit; history independence for every message sequence given an order-insensitive analysis; last change wins).
Tie: ordered frame correspondence (shared with C12) on every history.
Search: all histories up to length 3 (quick) / 4 (thorough) over 2 URIs x document alphabet x {open, change}; every publish
compared with a fresh server opened with the same current contents and with `ironplcc check` on files with those contents;
random long histories over generated documents."""
import itertools
import os
import urllib.parse
import re
import subprocess
from concurrent.futures import ThreadPoolExecutor

import lsp_common as L
import lspclient
import vlib
from vlib import hexs

NEED_BIN = True
MANIFEST_ENTRY = {
    "technique": "Coq proof over all message sequences that the language-server model publishes exactly once per didOpen/didChange "
                 "with its version, that the published content is the analysis of the stored contents, and that servers with equal "
                 "contents behave identically (history independence); exhaustive short histories on the real server compared with a "
                 "fresh server and with `ironplcc check`",
    "text": "Theorems for every message sequence: one publishDiagnostics per didOpen/didChange, for that document and version; what is "
            "published is the analysis applied to the contents after the edit (last change wins, an empty change list keeps them); after any history the server holds for each document exactly what that document's own last edits left (C11_contents_are_the_last_edits: said without the store); two "
            "servers whose stored contents agree write identical frames for every continuation, assuming the analysis is a function of "
            "the contents (C06's order-independence, stated as a hypothesis). Tied to lsp.rs/lsp_project.rs/project.rs by ordered frame "
            "correspondence. The equality with a fresh server and with `ironplcc check` (codes and start positions per file) is "
            "decided by exhaustive enumeration of short histories on the real binary, not by proof.",
    "note": "Trusted: Coq kernel, extraction + driver, tools/lspclient.py, ANSI-stripped codespan output of `check`. The analysis is a "
            "parameter of the model. Fresh-server runs are repeated to separate hash-order nondeterminism (C06) from history dependence. "
            "No axioms.",
}
TRUSTED = [
    "Coq 8.16.1 kernel; vm_compute only in the Example",
    "no axioms: every theorem of Properties/C11.v is closed under the global context",
    "lsp.rs / lsp_project.rs / project.rs handlers modelled by hand (Model/Lsp.v), validated by ordered frame correspondence",
    "tools/lspclient.py; codespan-reporting's `error[code]` / `file:line:col` output format",
]
ASSUMPTIONS = [
    "the analysis is order-insensitive on the compared contents (C06); where repeated fresh runs disagree among themselves the case is "
    "counted as order-dependent and attributed to C06, not to C11",
]


DISK_TEXT = "FUNCTION_BLOCK Counter\nVAR stale : INT; END_VAR\nstale := stale + 2;\nEND_FUNCTION_BLOCK\n"


def state_after(history):
    """contents per uri id after a history of (kind, uid, doc)"""
    st = {}
    for k, uid, d in history:
        if k == "X":
            st.pop(uid, None)
        else:
            st[uid] = d
    return st


def changes_of(k, d):
    """the content changes of a change step: "C" one, "D" two, "T" three; the last one is document d"""
    n = len(L.DOCS)
    return {"C": [d], "D": [(d + 2) % n, d], "T": [d, (d + 3) % n, d] if d % 2 else [(d + 1) % n, (d + 1) % n, d]}[k]


def lsp_diags(binp, msgs, uri):
    res = lspclient.session(binp, msgs, timeout=120)
    pubs = [f["params"] for f in res["frames"] if f.get("method") == "textDocument/publishDiagnostics"]
    return res, pubs


def fresh_publish(binp, texts, state, uid):
    """a freshly started server: every other open document first, then `uid` last"""
    msgs = []
    v = 1
    for other in sorted(state):
        if other != uid:
            msgs.append(lspclient.did_open(L.uri_str(other, True), v, texts[state[other]]))
            v += 1
    msgs.append(lspclient.did_open(L.uri_str(uid, True), v, texts[state[uid]]))
    res, pubs = lsp_diags(binp, msgs, None)
    if res["exit"] != 0 or not pubs:
        return None
    last = pubs[-1]
    return tuple(sorted(L.diag_key(d) for d in last["diagnostics"]))


def cli_check(binp, texts, state, wd, tag):
    """`ironplcc check` on files with the same contents: per uid, sorted (code, line0, col0)"""
    d = os.path.join(wd, "cli_" + tag)
    os.makedirs(d, exist_ok=True)
    paths = {}
    for uid in sorted(state):
        # the same relative path as in the document's URI: files are analyzed in the order of their identifiers
        p = os.path.join(d, urllib.parse.unquote(L.uri_str(uid, True)[len("file:///"):]))
        os.makedirs(os.path.dirname(p), exist_ok=True)
        with open(p, "w", encoding="utf-8") as f:
            f.write(texts[state[uid]])
        paths[uid] = p
    p = subprocess.run([binp, "check"] + [paths[u] for u in sorted(paths)], stdout=subprocess.PIPE, stderr=subprocess.PIPE, timeout=60)
    err = re.sub(r"\x1b\[[0-9;]*m", "", p.stderr.decode("utf-8", "replace"))
    out = {u: [] for u in state}
    # one block per diagnostic: "error[Pxxxx]: ..." and one "┌─ path:line:col" header per file it labels (the first
    # is the primary label).  A file is reported (code, line, col) when it holds the primary label and (code, None, None)
    # when it holds only a secondary label; a diagnostic that names no file (e.g. P0030) belongs to no document.
    for block in re.split(r"(?=error\[P\d+\])", err):
        m = re.match(r"error\[(P\d+)\]", block)
        if not m:
            continue
        locs = re.findall(r"┌─ ([^\n]*?):(\d+):(\d+)", block)
        for li, (path, line, col) in enumerate(locs):
            for u, pp in paths.items():
                if os.path.realpath(pp) == os.path.realpath(path):
                    out[u].append((m.group(1), int(line) - 1, int(col) - 1) if li == 0 else (m.group(1), None, None))
    return p.returncode, {u: tuple(sorted(v, key=str)) for u, v in out.items()}


def same_report(lsp, cli):
    """codes and start positions agree; for a diagnostic whose primary label is in another file only the code is compared"""
    lsp = sorted(set(lsp), key=str)
    cli = sorted(set(cli), key=str)
    exact = [c for c in cli if c[1] is not None]
    loose = [c[0] for c in cli if c[1] is None]
    rest = list(lsp)
    for c in exact:
        if c in rest:
            rest.remove(c)
        else:
            return False
    for code in loose:
        hit = next((r for r in rest if r[0] == code), None)
        if hit is None:
            return False
        rest.remove(hit)
    return not rest


def search(run, info):
    rng = run.rng
    texts = [t for _, t in L.DOCS]
    names = [n for n, _ in L.DOCS]
    binp = vlib.ironplcc_bin()
    wd = run.workdir
    tk = vlib.run_impl([{"id": i, "op": "tok", "text": hexs(t)} for i, t in enumerate(texts)], wd)
    clean = [not r.get("diags") for r in tk]
    depth = 3 if run.tier == "quick" else 4
    docs_alpha = list(range(5)) if run.tier == "quick" else list(range(5))
    steps = [(k, uid, d) for k in "OC" for uid in (1, 2) for d in docs_alpha]
    histories = [list(h) for h in itertools.product(steps, repeat=depth)]
    # cross-file pair and the longer documents in random histories
    nrand = 150 if run.tier == "quick" else 1500
    for _ in range(nrand):
        n = rng.randint(4, 40)
        histories.append([(rng.choice("OC"), rng.randint(1, 2), rng.randrange(len(texts))) for _ in range(n)])
    # re-opening a document: editors count versions per document and restart at 1 on every didOpen, so a later change can
    # carry a version the server has seen before
    for a, b in itertools.product(range(2), repeat=2):
        for c, d in itertools.product(docs_alpha, repeat=2):
            histories.append([("O", 1, a), ("C", 1, b), ("O", 1, c), ("C", 1, d)])
    # closing a document: it is no longer part of what is analysed (all histories of the quick depth with at least one didClose,
    # and random long ones)
    xsteps = steps + [("X", 1, None), ("X", 2, None)]
    histories += [list(h) for h in itertools.product(xsteps, repeat=3) if any(x[0] == "X" for x in h) and h[-1][0] != "X"]
    for _ in range(nrand // 2):
        n = rng.randint(4, 40)
        h = []
        for _ in range(n):
            k = rng.choice("OCCX")
            h.append((k, rng.randint(1, 2), None if k == "X" else rng.randrange(len(texts))))
        histories.append(h + [(rng.choice("OC"), rng.randint(1, 2), rng.randrange(len(texts)))])
    # a change notification with two or three content changes: the last one is the content ("D": two, the first being another
    # document of the alphabet; "T": three)
    dsteps = [(k, uid, d) for k in "DT" for uid in (1, 2) for d in docs_alpha]
    histories += [list(h) for h in itertools.product(steps + dsteps, repeat=2) if any(x[0] in "DT" for x in h)]
    for _ in range(nrand // 2):
        n = rng.randint(3, 30)
        h = []
        for _ in range(n):
            k = rng.choice("OCDTX")
            h.append((k, rng.randint(1, 2), None if k == "X" else rng.randrange(len(texts))))
        histories.append(h + [(rng.choice("OCD"), rng.randint(1, 2), rng.randrange(len(texts)))])
    for d in range(5, len(texts)):
        histories.append([("O", 1, d)])
        histories.append([("O", 1, 0), ("C", 1, d)])
        histories.append([("O", 2, 0), ("O", 1, d), ("C", 2, d)])
    fresh_cache = {}
    cli_cache = {}
    # the documents are files that exist, with content on disk that no message carries (a function block named like the one of
    # document 0, which document 4 depends on): the disk is not part of the history
    L.put_on_disk(os.path.join(wd, "c11-disk"), DISK_TEXT)

    def versions_of(h):
        ver = {}
        out = []
        for (k, uid, d) in h:
            if k != "X":
                ver[uid] = 1 if k == "O" else ver.get(uid, 0) + 1
            out.append(ver.get(uid, 0))
        return out

    def msgs_of(h):
        out = []
        for v, (k, uid, d) in zip(versions_of(h), h):
            if k == "O":
                out.append(("O", uid, True, v, d))
            elif k == "X":
                out.append(("X", uid, True))
            else:
                out.append(("C", uid, True, v, changes_of(k, d)))
        return out

    def runjob(h):
        ms = msgs_of(h)
        return lspclient.session(binp, [L.to_real(m, texts) for m in ms], timeout=120)

    with ThreadPoolExecutor(max_workers=vlib.NCPU) as ex:
        results = list(ex.map(runjob, histories))
    model = {}
    if info.get("extract_ok"):
        model = vlib.run_model([("lsp", i, [L.to_model(m, clean) for m in msgs_of(h)]) for i, h in enumerate(histories)], wd)

    # the states reached, to be compared with fresh servers and the command line
    needed = set()
    for h in histories:
        st = {}
        for (k, uid, d) in h:
            if k == "X":
                st.pop(uid, None)
                continue
            st[uid] = d
            needed.add((tuple(sorted(st.items())), uid))
    needed = sorted(needed)

    def freshjob(key):
        st, uid = key
        state = dict(st)
        outs = set()
        for _ in range(3):
            outs.add(fresh_publish(binp, texts, state, uid))
        return key, outs

    with ThreadPoolExecutor(max_workers=vlib.NCPU) as ex:
        for key, outs in ex.map(freshjob, needed):
            fresh_cache[key] = outs
    states = sorted({k[0] for k in needed})

    def clijob(st):
        return st, cli_check(binp, texts, dict(st), wd, "_".join("%d-%d" % kv for kv in st))

    with ThreadPoolExecutor(max_workers=vlib.NCPU) as ex:
        for st, r in ex.map(clijob, states):
            cli_cache[st] = r

    order_dependent = 0
    pubs_checked = 0
    for hi, (h, res) in enumerate(zip(histories, results)):
        run.count(tuple(h), True, "len:%d" % len(h))
        if res["exit"] != 0:
            run.violation("impl-violates-property", "server ended with status %r" % (res["exit"],),
                          {"history": [list(x) for x in h], "docs": names, "stderr": res["stderr"][-500:]})
            continue
        pubs = [f["params"] for f in res["frames"] if f.get("method") == "textDocument/publishDiagnostics"]
        nnote = len([x for x in h if x[0] != "X"])
        if len(pubs) != nnote:
            run.violation("impl-violates-property", "%d didOpen/didChange notifications were answered by %d publishDiagnostics" % (nnote, len(pubs)),
                          {"history": [list(x) for x in h], "docs": names})
            continue
        st = {}
        bad = False
        vers = versions_of(h)
        pit = iter(pubs)
        for i, (k, uid, d) in enumerate(h):
            if k == "X":
                st.pop(uid, None)
                continue
            p = next(pit)
            st[uid] = d
            pubs_checked += 1
            if p["uri"] != L.uri_str(uid, True) or p.get("version") != vers[i]:
                run.violation("impl-violates-property", "notification %d for %s version %d was answered for %s version %r" % (
                    i, L.uri_str(uid, True), vers[i], p["uri"], p.get("version")), {"history": [list(x) for x in h], "docs": names})
                bad = True
                break
            got = tuple(sorted(L.diag_key(x) for x in p["diagnostics"]))
            key = (tuple(sorted(st.items())), uid)
            fr = fresh_cache.get(key, set())
            if len(fr) > 1:
                order_dependent += 1
                if got in fr:
                    continue
            if got not in fr:
                run.violation("impl-violates-property",
                              "after history %r the server published %r for document %d; a fresh server with the same contents publishes %r" % (
                                  [(a, b, names[c] if c is not None else None) for a, b, c in h[:i + 1]], got, uid, sorted(fr, key=str)[:2]),
                              {"history": [list(x) for x in h[:i + 1]], "docs": names, "published": got, "fresh": sorted(fr, key=str)})
                bad = True
                break
            rc, cli = cli_cache[tuple(sorted(st.items()))]
            if len(fr) == 1 and cli.get(uid) is not None:
                if not same_report(got, cli[uid]):
                    run.violation("impl-violates-property",
                                  "document %d (%s): the server publishes %r, `ironplcc check` on the same contents reports %r for that file" % (
                                      uid, names[d], got, cli[uid]),
                                  {"history": [list(x) for x in h[:i + 1]], "docs": names, "published": got, "check": cli[uid]})
                    bad = True
                    break
        if bad:
            continue
        mo = model.get(str(hi))
        if mo is not None and mo and mo[0] not in ("unknown-op", "bad-args"):
            run.cov["traces_validated_against_impl"] += 1
            if L.model_skeleton(mo[0], None) != L.skeleton(res["frames"]):
                run.cov["disagreements_checked"] += 1
                run.violation("correspondence", "language-server model and real server write different frames for history %r" % (h[:4],),
                              {"history": [list(x) for x in h]}, no_input=True)
        if hi % 1500 == 0:
            run.sample({"history": [(a, b, names[c] if c is not None else None) for a, b, c in h[:4]],
                        "published": [sorted(L.diag_key(x) for x in p["diagnostics"]) for p in pubs[:4]]})
    return {"coverage": {
        "rule": "all notification sequences of length %d over 2 URIs x 5 document texts (valid, lexical error, syntax error, semantic "
                "error, depends-on-other-document) x {didOpen, didChange} (every prefix is checked through its publish; versions are "
                "counted per document and restart at 1 on every didOpen), the 100 open-change-reopen-change histories, all histories of "
                "length 3 over the same steps and didClose of either URI that contain a didClose and end in a notification, all histories "
                "of length 2 with a didChange of two or three content changes (the last one counts), plus random "
                "histories of length 4-40 over 10 documents incl. a pair with a two-file diagnostic and three with non-ASCII characters in front of the diagnosed place; every publish is compared with a "
                "fresh server (3 runs) given the same current contents and with `ironplcc check`; non-trivial = every history, "
                "distinct by message list" % depth,
        "histories": len(histories),
        "publishes_checked": pubs_checked,
        "distinct_states_compared_with_fresh_and_cli": len(needed),
        "publishes_in_order_dependent_states": order_dependent,
        "exhaustive": True,
        "exhaustive_note": "the short-history family is enumerated completely (depth %d); the random family is sampled" % depth}}


def replay(run, rep):
    h = rep.get("history")
    if h is None:
        return 2
    texts = [t for _, t in L.DOCS]
    binp = vlib.ironplcc_bin()
    L.put_on_disk(os.path.join(run.workdir, "c11-disk"), DISK_TEXT)
    h = [tuple(x) for x in h]
    msgs = []
    ver = {}
    for (k, uid, d) in h:
        if k == "X":
            msgs.append(("X", uid, True))
            continue
        ver[uid] = 1 if k == "O" else ver.get(uid, 0) + 1
        msgs.append(("O", uid, True, ver[uid], d) if k == "O" else ("C", uid, True, ver[uid], changes_of(k, d)))
    res = lspclient.session(binp, [L.to_real(m, texts) for m in msgs], timeout=120)
    pubs = [f["params"] for f in res["frames"] if f.get("method") == "textDocument/publishDiagnostics"]
    if res["exit"] != 0 or len(pubs) != len([x for x in h if x[0] != "X"]):
        return 1
    st = state_after(h)
    uid = h[-1][1]
    got = tuple(sorted(L.diag_key(x) for x in pubs[-1]["diagnostics"]))
    fr = {fresh_publish(binp, texts, st, uid) for _ in range(3)}
    return 0 if got in fr else 1
