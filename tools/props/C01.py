"""C01 -- parsing is faithful: the library returned denotes exactly the source program.
Proof: Properties/C01.v (precedence table regenerated from parser.rs equals the IEC 61131-3 B.3.1 table; the model of the
expression / statement parser returns the erasure of every well-formed spelled expression tree).
Tie: regenerated precedence table; model parser vs parse_program on generated expressions and statements.
Search: AST-level generator with an independent expected tree; every unit in several spellings; every ordered operator pair in
both association shapes; every statement form nested in every statement form."""
import ast_common
import debugtree
import gen_ast
import vlib
import st_corr
from vlib import hexs

NEED_BIN = False
MANIFEST_ENTRY = {
    "technique": "Coq proof (mutual induction over spelled statement / expression trees, explicit fuel bounds) that a PEG-faithful model of the statement and expression grammar returns the denoted tree for every well-formed spelling; Coq obligation that the precedence! table regenerated from parser.rs is the IEC 61131-3 B.3.1 table (levels, operators, "
                 "left associativity); Coq proof that the precedence-climbing expression parser model returns the intended tree for "
                 "every well-formed spelling (any size, any trivia, any redundant parentheses); model/parser correspondence; "
                 "AST-generator search with expected trees over declarations, statements and the exhaustive operator-pair family",
    "text": "Proved (all sizes): the operator table the parser is built from is exactly the Annex B.3.1 table; the expression-parser model "
            "(peg precedence climbing over that table, unary operators, parentheses, trivia) returns erase(s) for every well-formed "
            "spelled expression s; the statement-parser model (PEG transcription of B.3.2 and of function calls with positional / "
            "named / output parameters, signed constants, BOOL#TRUE, structured and array variables a.b[i, j].c: assignment, function-block call, IF / ELSIF / ELSE, CASE (integer, subrange and name selectors), FOR [BY], WHILE, REPEAT, "
            "EXIT, RETURN, nested to any depth) returns exactly the denoted statement list for every well-formed spelling, end to end "
            "through the FUNCTION_BLOCK wrapper with the fuel the entry point supplies (never exhausted). The model is compared with "
            "parse_program three ways (meaning / parser / model) on generated bodies and on token-level mutants (accept / reject and "
            "tree). The variable declaration blocks of a function block (VAR_INPUT / OUTPUT / IN_OUT / EXTERNAL / VAR with qualifiers, name lists, elementary or named types, constant and enumerated initial values, edge inputs; PEG order of the specification alternatives) are proved the same way (C01_declarations_faithful: declarations and statements of every well-formed spelling, through the entry point) and compared three ways and on token-level mutants. TYPE blocks (arrays over subranges, integer subranges with signed bounds and defaults, enumerations by values or of another enumeration, elementary types with a constant default, late-bound names) interleaved with functions (return type, their own declaration blocks, required statement list; C01_function_faithful), function blocks and programs are proved the same way (C01_types_faithful) and compared three ways and on mutants. A chain of any length of one operator is read as the tree that leans to the left (C01_chain_associates_left). NOT proved: structure and string type declarations, other initializer forms (arrays, strings, structures, subranges, located variables), typed / time / real literals, direct addresses, "
            "SFC and configurations -- for those the property is decided by search: an AST-level generator knows what each unit means "
            "(names, kinds, classes, qualifiers, types, initial values, nesting, association) and the parser's library must equal it, "
            "in the canonical and in random spellings.",
    "note": "Trusted: Coq kernel, translator (precedence! block), extraction + driver, tools/gen_ast.py (the oracle for what a unit "
            "means) and tools/debugtree.py (reads Rust's Debug output). Known findings: the base type of a structure-initialization "
            "type declaration is not kept in the library; the edge-detecting inputs of a PROGRAM are parsed and dropped. Libraries of "
            "TYPE blocks, function blocks and programs are proved too (C01_library_faithful, C01_types_faithful). No axioms.",
}
TRUSTED = [
    "Coq 8.16.1 kernel",
    "no axioms: every theorem of Properties/C01.v is closed under the global context",
    "tools/translate.py: the precedence! block of parser.rs (levels, tokens, constructors, associativity markers)",
    "tools/gen_ast.py is the oracle of the search; tools/debugtree.py parses {:?} of the Library",
    "peg 0.8 precedence! semantics are modelled (Model/ExprParser.v), validated by correspondence",
]
ASSUMPTIONS = ["positions and the original spelling of identifiers are ignored in the comparison (they are C05's and C08's subject)"]

KNOWN_STRUCT_INIT = "structure-initialization-type-declaration-base-dropped"
KNOWN_SUBRANGE_DEFAULT = "subrange-default-in-structure-element-dropped"


def compare(expected, r):
    if "panic" in r or "abort" in r:
        return "parser crashed: %s" % (r.get("panic") or r.get("abort"))
    if "ok" not in r:
        d = r.get("err", {})
        return "well-formed source rejected: %s at %s" % (d.get("msg", "")[-120:], d.get("start"))
    got = debugtree.compact(debugtree.norm(debugtree.parse(r["ok"])))
    return debugtree.diff(expected, got)


def strip_base(v):
    if isinstance(v, list):
        return [strip_base(x) for x in v]
    if isinstance(v, tuple):
        name, body = v
        if isinstance(body, dict):
            return (name, {k: strip_base(x) for k, x in body.items() if not (name == "StructureInitializationDeclaration" and k == "base_type_name")})
        return (name, [strip_base(x) for x in body])
    return v


def strip_default(v):
    if isinstance(v, list):
        return [strip_default(x) for x in v]
    if isinstance(v, tuple):
        name, body = v
        if isinstance(body, dict):
            return (name, {k: strip_default(x) for k, x in body.items() if not (name == "StructureElementDeclaration" and k == "default")})
        return (name, [strip_default(x) for x in body])
    return v


def search(run, info):
    rng = run.rng
    wd = run.workdir
    k = 2 if run.tier == "quick" else 8
    nunits = 250 if run.tier == "quick" else 4000
    items = []
    for _ in range(nunits):
        lx, tree, known = gen_ast.gen_unit(rng, depth=rng.choice([2, 3, 3, 4]))
        items.append((lx, tree, known, "unit"))
    for lx, tree, tag in ast_common.operator_pair_family(rng):
        items.append((lx, tree, set(), tag))
    for lx, tree, tag in ast_common.statement_nesting_family(rng):
        items.append((lx, tree, set(), tag))
    cases = []
    meta = []
    for ii, (lx, tree, known, tag) in enumerate(items):
        sp = ast_common.spellings(rng, lx, k if tag == "unit" else 1)
        for si, text in enumerate(sp):
            meta.append((ii, si, text))
            cases.append({"id": len(cases), "op": "parse", "text": hexs(text)})
    res = vlib.run_impl(cases, wd, per_case_timeout=20)
    known_keys = {x["key"] for x in run.known}
    fam = {}
    for (ii, si, text), r in zip(meta, res):
        lx, tree, known, tag = items[ii]
        t = tag.split(":")[0]
        run.count(text, True, "%s:%s" % (t, "canonical" if si == 0 else "respelled"))
        fam[t] = fam.get(t, 0) + 1
        # a recorded finding the unit exercises explains one kind of difference; everything else must still be faithful, so the
        # comparison is repeated without that field -- in whichever order the differences come up
        d = compare(tree, r)
        for _ in range(4):
            if not d:
                break
            if KNOWN_SUBRANGE_DEFAULT in known and KNOWN_SUBRANGE_DEFAULT in known_keys and "StructureElementDeclaration: fields ['default'" in d:
                run.known_finding(KNOWN_SUBRANGE_DEFAULT, "the default of a subrange structure element (m : UINT (0..3) := 1;) is not kept in the library")
                tree = strip_default(tree)
            elif KNOWN_STRUCT_INIT in known and KNOWN_STRUCT_INIT in known_keys and "StructureInitializationDeclaration: fields ['base_type_name'" in d:
                run.known_finding(KNOWN_STRUCT_INIT, "the base type of a structure-initialization type declaration (T : Base := (a := 1);) is not kept in the library")
                tree = strip_base(tree)
            else:
                break
            d = compare(tree, r)
        if d:
            run.violation("impl-violates-property", "the parsed library differs from the source (%s, %s spelling): %s" % (
                tag, "canonical" if si == 0 else "random", d[-300:]), {"input": {"text": text}, "family": tag, "difference": d[-600:]})
        if (ii * 7 + si) % 400 == 0:
            run.sample({"family": tag, "source": text[:160]})
    # ---- correspondence of the Coq expression parser (the subject of C01_expression_faithful) with parse_program ----
    import gen_prog
    nexpr = 400 if run.tier == "quick" else 6000
    exprs = [ast_common.model_expr(rng, rng.choice([2, 3, 4, 5])) for _ in range(nexpr)]
    ecases = []
    emeta = []
    for e in exprs:
        g = gen_ast.Gen(rng, redundant_parens=True)
        lx = g.spell(e, 0)
        for sp in (None, gen_prog.Spelling(rng, respell=True, nonascii=False)):
            etext = gen_prog.render(lx, sp).strip("\n") if sp is None else gen_prog.render(lx, sp)
            ptext = "PROGRAM p\nr := " + etext + " ;\nEND_PROGRAM\n"
            emeta.append((e, etext, ptext))
            ecases.append({"id": len(ecases), "op": "parse", "text": hexs(ptext)})
    eres = vlib.run_impl(ecases, wd, per_case_timeout=20)
    emodel = vlib.run_model([("expr", i, ["parse", hexs(m[1])]) for i, m in enumerate(emeta)], wd) if info.get("extract_ok") else {}
    for i, ((e, etext, ptext), r) in enumerate(zip(emeta, eres)):
        run.count(("expr", etext), True, "expression-model")
        want = ast_common.sexp_of_expr(e)
        got = None
        if "ok" in r:
            tr = debugtree.compact(debugtree.norm(debugtree.parse(r["ok"])))
            try:
                got = ast_common.sexp_of_tree(tr[1]["elements"][0][1]["body"][1]["body"][0][1]["value"])
            except Exception:
                got = None
        if got != want:
            run.violation("impl-violates-property", "expression %r is parsed as %s, it means %s" % (etext[:120], got, want),
                          {"input": {"text": ptext}, "family": "expression-model", "difference": "%s vs %s" % (got, want)})
            continue
        mo = emodel.get(str(i))
        if mo:
            run.cov["traces_validated_against_impl"] += 1
            mtree = mo[1].replace("_", "") if mo[0] == "ok" and len(mo) > 1 else mo[0]
            if mtree != got:
                run.cov["disagreements_checked"] += 1
                run.violation("correspondence", "expression parser model and parse_program disagree on %r: model %s, parser %s" % (etext[:100], mtree, got),
                              {"input": {"text": ptext}}, no_input=True)
    # ---- the statement / expression parser model (C01_statements_faithful, C01_function_block_body) ----
    st_stats = st_corr.check(run, info, 250 if run.tier == "quick" else 4000, 500 if run.tier == "quick" else 8000, "c01")
    # ---- the declaration parser model (variable declaration blocks of a function block) ----
    decl_stats = st_corr.check_fbd(run, info, 150 if run.tier == "quick" else 2500, 600 if run.tier == "quick" else 8000, "c01")
    # ---- the library model: several function blocks and programs ----
    lib_stats = st_corr.check_lib(run, info, 120 if run.tier == "quick" else 2000, 500 if run.tier == "quick" else 8000, "c01")
    # ---- ... with TYPE blocks (arrays, subranges, enumerations, simple and late-bound declarations) ----
    lib2_stats = st_corr.check_lib2(run, info, 100 if run.tier == "quick" else 2000, 600 if run.tier == "quick" else 10000, "c01")
    return {"coverage": {
        "statement_model": st_stats,
        "declaration_model": decl_stats,
        "library_model": lib_stats,
        "type_library_model": lib2_stats,
        "rule": "units from the AST-level generator (TYPE blocks with enumeration / alias / subrange / array / simple / string / structure / "
                "structure-initialization declarations; FUNCTION / FUNCTION_BLOCK / PROGRAM with every VAR class x qualifier x ten initialiser "
                "kinds; all statement forms; expressions over all operators, unary operators, calls, structured and array variables, typed and "
                "based literals), each in the canonical and %d random spellings; every ordered pair of the 16 binary operator spellings in "
                "both association shapes with plain and unary operands (1024 trees, exhaustive); every statement form nested in every "
                "statement form; non-trivial = every source text, distinct by text" % k,
        "families": fam,
        "exhaustive": False,
        "exhaustive_note": "the operator-pair and statement-nesting families are enumerated completely; units are sampled"}}


def replay(run, rep):
    text = rep.get("input", {}).get("text")
    if text is None:
        return 2
    # without the expected tree only acceptance can be replayed; the difference is kept in the replay file
    r = vlib.run_impl([{"id": 0, "op": "parse", "text": hexs(text)}], run.workdir)[0]
    return 0 if "ok" in r and not rep.get("difference") else 1
