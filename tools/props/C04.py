"""C04 -- total and terminating: no input crashes or hangs lex, parse, analyse or render.
Proof: Properties/C04.v (reviewed panic inventory regenerated from the source; step bound of the tokenizer; total,
value-or-failure conversions; total subrange rule; total decoding).  These do not exhibit time or stack.
Search (testing, labelled as such): arbitrary bytes, every token kind alone and in pairs, token soups, token-level
mutants of valid programs, extreme literals, nesting up to depth 12, inputs up to 64 KiB; each through
tokenize / parse / analyze / render in a worker with a watchdog (debug build; release too at the thorough tier)."""
import time

import gen_prog
import gen_sem
import gen_text
import vlib
from vlib import hexs

NEED_BIN = False
NEED_RELEASE = True
MANIFEST_ENTRY = {
    "technique": "Coq obligation that the inventory of panic-capable constructs regenerated from the input-reachable sources equals a "
                 "reviewed, classified list; Coq theorems that the modelled stages are total with value-or-failure outcomes and a "
                 "linear step bound for the tokenizer; watchdog-supervised fuzzing of the real pipeline for crashes, aborts and time",
    "text": "Proved: every unwrap/expect/panic!/todo!/unreachable! outside tests in the files an input reaches is one of five reviewed "
            "sites (a new one breaks the obligation); the tokenizer model takes at most one step per character; number conversions, "
            "the subrange rule and decoding have an answer (value or failure) for every input of every size; the recursion of the "
            "statement / expression parser model needs at most three units of fuel per token on every well-formed statement list, "
            "whatever its size and nesting (the termination argument of the recursive-descent parser on the modelled sub-language; "
            "the model agrees with parse_program on accept / reject for token-level mutants, see C01). Also proved: a bracket-free chain of n operators of one level is read by the parser model as a tree n+1 deep (C04_operator_chain_is_deep) -- what the bound on nesting does not bound, and the cause of the recorded finding operator-chain-stack-overflow. NOT provable in this "
            "family and therefore observed only: the wall-clock budget, native stack depth and process aborts. Those are tested by "
            "running tokenize, parse, analyze and render on arbitrary bytes, all single and paired token kinds, token soups, "
            "token-level mutants of valid programs, extreme literals, flat chains of operators / selectors / statements / branches, and nesting to depth 12 under catch_unwind with a watchdog.",
    "note": "partial by nature: panics from arithmetic overflow, slicing or third-party crates are not inventoried syntactically and "
            "are caught only by the search (debug build has overflow checks; release is run at the thorough tier). Known finding: a single expression or variable with thousands of operators / selectors in a row overflows the native stack (operator-chain-stack-overflow). Trusted: Coq "
            "kernel, translator (panic-site scan), harness watchdog. No axioms.",
}
TRUSTED = [
    "Coq 8.16.1 kernel",
    "no axioms: every theorem of Properties/C04.v is closed under the global context",
    "tools/translate.py: syntactic scan for panic! todo! unimplemented! unreachable! .unwrap() .expect( in 18 source files",
    "harness op `pipeline` under catch_unwind; abnormal worker exit is attributed to the case that was running",
]
ASSUMPTIONS = ["time budget per input: 5 s on this machine (observed, not proved)",
               "overflow / slice / third-party panics are outside the syntactic inventory and covered by testing only"]

BUDGET_S = 5.0
KNOWN_CHAIN = "operator-chain-stack-overflow"


def mutate(rng, toks):
    t = list(toks)
    if not t:
        return t
    for _ in range(rng.choice([1, 1, 2, 3])):
        k = rng.randrange(4)
        i = rng.randrange(len(t))
        if k == 0:
            del t[i]
        elif k == 1:
            t.insert(i, t[i])
        elif k == 2 and len(t) > 1:
            j = rng.randrange(len(t))
            t[i], t[j] = t[j], t[i]
        else:
            t[i] = rng.choice(gen_text.keywords() + gen_text.PUNCT + ["x", "1", "1.5", "'s'", "T#1s", "16#FF", "%IX1", "%I*"])
        if not t:
            break
    return t


def tokens_of(text):
    import re
    return re.findall(r"\(\*.*?\*\)|'[^']*'|\"[^\"]*\"|[A-Za-z_][A-Za-z0-9_]*|\d[\d_.#A-Fa-f]*|:=|=>|<=|>=|<>|\*\*|\.\.|\S", text, re.S)


def gen_inputs(run):
    rng = run.rng
    thorough = run.tier == "thorough"
    out = []
    kws = gen_text.keywords()
    singles = sorted(set(kws + gen_text.PUNCT + ["x", "1", "1.5", "1.5e3", "'s'", "\"w\"", "T#1s", "16#FF", "8#7", "2#1", "%IX1", "%I*", "(* c *)",
                                                 "// c", "\n", " ", "?", "END_IF"]))
    for s in singles:
        out.append(("single-token", s.encode()))
    pairs = [(a, b) for a in singles for b in singles]
    if not thorough:
        pairs = rng.sample(pairs, 2500)
    for a, b in pairs:
        out.append(("token-pair", (a + " " + b).encode()))
    for _ in range(2000 if not thorough else 40000):
        n = rng.choice([0, 1, 2, 3, 8, 40, 200])
        out.append(("bytes", bytes(rng.randrange(256) for _ in range(n))))
    for size in ((65536,) if not thorough else (65536, 65536, 65535, 40000)):
        out.append(("bytes-64k", bytes(rng.randrange(256) for _ in range(size))))
        out.append(("ascii-64k", bytes(rng.choice(b" \n\tabxyzIFTHEN();:=+-*/0123456789") for _ in range(size))))
        big = (gen_sem.render(gen_sem.gen_valid(rng)) + "\n") * 200
        out.append(("program-64k", big.encode()[:65536]))
    for _ in range(1500 if not thorough else 30000):
        out.append(("soup", gen_text.token_soup(rng).encode()))
    for _ in range(300 if not thorough else 6000):
        base = gen_prog.render(gen_prog.gen_library(rng)) if rng.random() < 0.5 else gen_sem.render(gen_sem.gen_valid(rng))
        toks = tokens_of(base)
        for _ in range(5):
            out.append(("mutant", " ".join(mutate(rng, toks)).encode()))
    # programs that reach the semantic rules and the late-bound transformations: valid units, every planted fault, and the
    # units aimed at the rules (few names reused across units; instances of declared, undeclared and standard function blocks
    # invoked in every argument shape; types of every kind referenced, declared or not)
    import rules_corr
    for _ in range(60 if not thorough else 1200):
        u = gen_sem.gen_valid(rng)
        out.append(("semantic-valid", gen_sem.render(u).encode()))
        for code, what, mu in gen_sem.mutants(u, rng)[: (6 if not thorough else 40)]:
            out.append(("semantic-fault", gen_sem.render(mu).encode()))
    for _ in range(500 if not thorough else 10000):
        out.append(("semantic-aimed", rules_corr.gen_unit(rng).encode()))
        out.append(("semantic-aimed-types", rules_corr.gen_type_unit(rng).encode()))
    lits = ["T#0.5d", "T#99999999999999999d", "T#18446744073709551617s", "T#-9223372036854775808s", "T#1.1234567890123456s", "%I1", "%IX4294967296",
            "%MW1.99999999999999999999", "TOD#12:00:256", "TOD#25:61:61", "D#99999-99-99", "D#2024-02-30", "DT#2024-01-01-24:00:00",
            "340282366920938463463374607431768211456", "16#" + "F" * 40, "2#" + "1" * 200, "8#" + "7" * 60, "1" * 400, "1.0E400", "1.0E-400",
            "1." + "0" * 400, "-0", "INT#-32769", "BOOL#2", "''", "'" + "x" * 5000 + "'"]
    for l in lits:
        out.append(("extreme-literal", ("PROGRAM p\nVAR x : INT := %s; END_VAR\nx := %s;\nEND_PROGRAM\n" % (l, l)).encode()))
        out.append(("extreme-literal", ("TYPE\n  T : INT (%s..%s);\n  A : ARRAY [%s..%s] OF INT;\nEND_TYPE\n" % (l, l, l, l)).encode()))
        out.append(("extreme-literal", ("CONFIGURATION c\nRESOURCE r ON PLC\nTASK t(INTERVAL := %s, PRIORITY := %s);\nPROGRAM i WITH t : p;\nEND_RESOURCE\nEND_CONFIGURATION\n" % (l, l)).encode()))
        out.append(("extreme-literal", ("PROGRAM p\nVAR x AT %s : BOOL; END_VAR\nEND_PROGRAM\n" % l).encode()))
    # every literal of the C09 families (integers in four bases, reals, durations with fractions around the 15-digit limit,
    # dates, times of day, strings, addresses): each is an input that must be answered, whatever its value
    import importlib
    c09 = importlib.import_module("props.C09")
    lit_cases = c09.gen_cases(run)
    if not thorough and len(lit_cases) > 1500:
        keep = [c for c in lit_cases if c.tag.startswith("duration") or c.tag.startswith("tod") or c.tag.startswith("dt")]
        rest = [c for c in lit_cases if c not in keep]
        lit_cases = keep + rng.sample(rest, max(0, 1500 - len(keep))) if len(keep) < 1500 else rng.sample(keep, 1500)
    for c in lit_cases:
        out.append(("literal-family", c.src.encode()))
    # the OSCAT description markers the preprocessor looks for, in every arrangement of up to four pieces
    import itertools
    pieces = ["(*@KEY@:DESCRIPTION*)", "(*@KEY@:END_DESCRIPTION*)", " x := 1; ", "\n(* c *)\n"]
    for k in range(1, 5):
        for combo in itertools.product(pieces, repeat=k):
            if any(c.startswith("(*@") for c in combo):
                out.append(("oscat-markers", "".join(combo).encode()))
    # statement nesting to depth 12 inside every kind of unit (a function block's body is itself one level in for the renderer),
    # each statement form, and mixtures
    forms = {
        "IF": ("IF x > 0 THEN\n", "END_IF;\n"),
        "CASE": ("CASE x OF\n1:\n", "END_CASE;\n"),
        "FOR": ("FOR i := 1 TO 3 DO\n", "END_FOR;\n"),
        "WHILE": ("WHILE x > 0 DO\n", "END_WHILE;\n"),
        "REPEAT": ("REPEAT\n", "UNTIL x > 0 END_REPEAT;\n"),
    }
    wrappers = [("PROGRAM p\nVAR x : INT; i : INT; END_VAR\n", "END_PROGRAM\n"),
                ("FUNCTION_BLOCK fb\nVAR x : INT; i : INT; END_VAR\n", "END_FUNCTION_BLOCK\n"),
                ("FUNCTION fn : INT\nVAR_INPUT x : INT; END_VAR\nVAR i : INT; END_VAR\n", "END_FUNCTION\n")]
    for head, tail in wrappers:
        for depth in (6, 7, 11, 12):
            for name, (op, cl) in forms.items():
                out.append(("nesting-units", (head + op * depth + "x := 1;\n" + cl * depth + tail).encode()))
            mix = [rng.choice(list(forms)) for _ in range(depth)]
            out.append(("nesting-units", (head + "".join(forms[m][0] for m in mix) + "x := 1;\n" + "".join(forms[m][1] for m in reversed(mix)) + tail).encode()))
    # long tokens with characters of two, three and four bytes at every offset, as the token a syntax error is reported at (the
    # message quotes it), as a valid token, and unterminated: whatever slices or measures a token's text must do so on
    # character boundaries
    for ch in ("\u00fc", "\u20ac", "\U0001d11e"):
        for lead in range(0, 140 if thorough else 70):
            body = "a" * lead + ch + "b" * 3
            for tokn in ("'%s'" % body, "\"%s\"" % body, "(* %s *)" % body, "// %s" % body):
                out.append(("long-token", ("PROGRAM p\nVAR s : STRING; END_VAR\ns := CONCAT(s %s\n);\nEND_PROGRAM\n" % tokn).encode()))
            out.append(("long-token", ("PROGRAM p\nVAR s : STRING; END_VAR\ns := '%s';\nEND_PROGRAM\n" % body).encode()))
            out.append(("long-token", ("PROGRAM p\nVAR s : STRING; END_VAR\ns := '%s\nEND_PROGRAM\n" % body).encode()))
        # ... and unterminated, at the offsets around 256 and 512 too
        for lead in list(range(236, 276)) + list(range(500, 520)):
            body = "a" * lead + ch + "b" * 3
            out.append(("long-token", ("PROGRAM p\nVAR s : STRING; END_VAR\ns := '%s\nEND_PROGRAM\n" % body).encode()))
            out.append(("long-token", ("PROGRAM p\nVAR s : STRING; END_VAR\n(* %s\nEND_PROGRAM\n" % body).encode()))
            out.append(("long-token", ("PROGRAM p\nVAR s : STRING; END_VAR\ns := CONCAT(s '%s'\n);\nEND_PROGRAM\n" % body).encode()))
            out.append(("long-token", ("PROGRAM p\nVAR %s : INT; END_VAR\nEND_PROGRAM\n" % body).encode()))
    # every containment graph on three function blocks (who holds an instance of whom, self-references included; 512 graphs): the
    # declaration sort and whatever walks a cycle to describe it must end on each of them (seed C04l: a walk along first edges
    # that never comes back to its start when two cycles share a declaration)
    for mask in range(512):
        unit = []
        for i in range(3):
            held = [j for j in range(3) if mask >> (3 * i + j) & 1]
            unit.append("FUNCTION_BLOCK N%d\nVAR\n%s  k : INT;\nEND_VAR\nEND_FUNCTION_BLOCK\n" % (i, "".join("  v%d : N%d;\n" % (j, j) for j in held)))
        out.append(("containment-graph", "".join(unit).encode()))
    # flat chains: ONE expression or variable with many operators / selectors and no bracket at all.  The tree is as deep as
    # the chain is long (C04_operator_chain_is_deep), and the folds and visitors descend it.  Up to 256 links must be answered;
    # beyond that the recorded finding operator-chain-stack-overflow applies (abnormal end by stack overflow only).
    def unit_of(body):
        return ("FUNCTION_BLOCK f\nVAR a : INT; r : Rec; q : ARRAY [1..2] OF INT; b : BOOL; END_VAR\n%s\nEND_FUNCTION_BLOCK\n" % body).encode()
    chains = {"plus": lambda n: "a := " + "+".join(["a"] * (n + 1)) + ";",
              "minus-star": lambda n: "a := a" + "".join((" - a", " * a")[i % 2] for i in range(n)) + ";",
              "and": lambda n: "b := " + " AND ".join(["b"] * (n + 1)) + ";",
              "compare-or": lambda n: "b := " + " OR ".join(["a < a"] * (n // 2 + 1)) + ";",
              "field": lambda n: "a := r" + ".x" * n + ";",
              "index": lambda n: "a := q" + "[1]" * n + ";"}
    for name, mk in chains.items():
        for n in (12, 100, 256):
            out.append(("chain-short", unit_of(mk(n))))
        for n in (5000, 12000):
            b = unit_of(mk(n))
            if len(b) <= 65536:
                out.append(("chain-long", b))
    # long but not deep: unary operators, statement lists, ELSIF branches (lists, or nested by construction elsewhere)
    for n in (256, 5000):
        out.append(("flat-long", unit_of("b := " + "NOT " * n + "b;")))
        out.append(("flat-long", unit_of("a := 1;" * n)))
        out.append(("flat-long", unit_of("IF b THEN a := 1; " + "ELSIF b THEN a := 1; " * n + "END_IF;")))
    for depth in range(1, 13):
        e = "(" * depth + "1" + ")" * depth
        out.append(("nesting", ("PROGRAM p\nVAR x : INT; END_VAR\nx := %s;\nEND_PROGRAM\n" % e).encode()))
        out.append(("nesting", ("PROGRAM p\nVAR x : INT; END_VAR\nx := %s;\nEND_PROGRAM\n" % ("(" * depth + "1")).encode()))
        out.append(("nesting", ("PROGRAM p\nVAR x : INT; END_VAR\nx := %s1;\nEND_PROGRAM\n" % ("-(" * depth)).encode()))
        ifs = "IF x > 0 THEN\n" * depth + "x := 1;\n" + "END_IF;\n" * depth
        out.append(("nesting", ("PROGRAM p\nVAR x : INT; END_VAR\n%sEND_PROGRAM\n" % ifs).encode()))
        out.append(("nesting", ("PROGRAM p\nVAR x : INT; END_VAR\n%sEND_PROGRAM\n" % ("IF x > 0 THEN\n" * depth)).encode()))
        st = "TYPE\n  S : STRUCT a : " * 1 + "INT; END_STRUCT;\nEND_TYPE\n"
        out.append(("nesting", ("PROGRAM p\nVAR x : INT; END_VAR\nx := f(%s1%s);\nEND_PROGRAM\n" % ("g(" * depth, ")" * depth)).encode()))
    return out


def search(run, info):
    inputs = gen_inputs(run)
    cases = [{"id": i, "op": "pipeline", "bytes": b.hex()} for i, (_, b) in enumerate(inputs)]
    builds = [("debug", False)]
    if run.tier == "thorough" and info.get("harness_release_ok"):
        builds.append(("release", True))
    slow = []
    for bname, rel in builds:
        t0 = time.time()
        res = vlib.run_impl(cases, run.workdir, release=rel, per_case_timeout=BUDGET_S)
        for i, ((tag, b), r) in enumerate(zip(inputs, res)):
            run.count((bname, b), len(b) > 0, "%s:%s" % (bname, tag))
            if "panic" in r:
                run.violation("impl-violates-property", "panic in the %s build on a %s input (%d bytes): %s" % (bname, tag, len(b), r["panic"][:200]),
                              {"input": {"bytes_hex": b.hex(), "text": b.decode("utf-8", "replace")[:400]}, "build": bname})
            elif "abort" in r and tag == "chain-long" and r["abort"] != "timeout":
                # judged on the class of the input (one bracket-free chain of more than 256 operators / selectors) and on the way
                # it fails (the process ends abnormally; a panic or a timeout there is still a violation)
                run.known_finding(KNOWN_CHAIN, "a single expression or variable with thousands of operators / selectors in a row and no "
                                  "brackets (%d bytes here) ends the process abnormally (stack overflow in the recursive folds and "
                                  "visitors; the %s build)" % (len(b), bname))
            elif "abort" in r:
                run.violation("impl-violates-property", "the %s build %s on a %s input (%d bytes)" % (
                    bname, "ran beyond the time budget" if r["abort"] == "timeout" else "ended abnormally (%s)" % r["abort"], tag, len(b)),
                    {"input": {"bytes_hex": b.hex(), "text": b.decode("utf-8", "replace")[:400]}, "build": bname})
            if i % 2000 == 0:
                run.sample({"kind": tag, "bytes": len(b), "outcome": {k: r.get(k) for k in ("stage", "ntok", "codes")}})
        run.notes.append("%s build: %d inputs in %.1f s" % (bname, len(cases), time.time() - t0))
    return {"coverage": {
        "rule": "inputs = every token kind alone, pairs of token kinds, arbitrary bytes (0-200 bytes and 64 KiB), 64 KiB of ASCII noise and "
                "of repeated valid programs, token soups, token-level mutants (delete / duplicate / swap / replace) of generated programs, "
                "extreme literals in four contexts, long tokens with multi-byte characters at every offset (offending, valid, unterminated), the OSCAT description markers in every arrangement of up to four pieces, bracket / statement / call nesting to depth 12 (closed and unclosed); each through "
                "tokenize, parse, analyze, render under catch_unwind with a %.0f s per-input watchdog; non-trivial = non-empty input, "
                "distinct by content and build" % BUDGET_S,
        "builds": [b for b, _ in builds],
        "testing_not_proof": True,
        "exhaustive": False}}


def replay(run, rep):
    h = rep.get("input", {}).get("bytes_hex")
    if h is None:
        return 2
    rel = rep.get("build") == "release"
    r = vlib.run_impl([{"id": 0, "op": "pipeline", "bytes": h}], run.workdir, release=rel, per_case_timeout=BUDGET_S)[0]
    return 1 if ("panic" in r or "abort" in r) else 0
