"""C10 -- re-rendering round-trips: echo output parses back to the same library.
Proof: Properties/C10.v (the renderer model for expressions writes a well-formed, fully parenthesised spelling whose erasure is
the tree; with C01's parser theorem: parse(render e) = e for every expression tree).  Tie: model renderer vs write_to_string on generated expressions.
Search: parse -> render -> parse on every generated unit (AST-level and syntactic generators) and every repository fixture:
the re-parsed library must equal the first (Rust ==) and rendering it again must give the same text."""
import re

import ast_common
import debugtree
import gen_ast
import gen_prog
import gen_text
import vlib
import st_corr
from vlib import hexs

NEED_BIN = False
MANIFEST_ENTRY = {
    "technique": "Coq proof that the expression renderer model emits a fully parenthesised spelling that the expression parser model reads "
                 "back to the same tree (every expression tree, any depth); model/renderer correspondence; parse-render-parse search over "
                 "generated units and fixtures with Rust's own library equality and text fixed point",
    "text": "Proved (expressions): for every expression tree the rendered token sequence is a well-formed spelling whose parse is "
            "the tree, hence rendering is a fixed point on that scope; (statements) what the renderer model writes for a statement "
            "list -- assignments, calls with all parameter forms, IF / ELSIF / ELSE, CASE, FOR [BY], WHILE, REPEAT, EXIT, RETURN, any nesting "
            "-- is a well-formed spelling of the list, so the parser model reads back exactly the list, through the function-block "
            "entry point and with its fuel; the guard excludes negative integer constants and negative CASE selector bounds (written '- 5': refuted by witnesses, "
            "the recorded finding); (declarations) the variable declarations of a function block -- one block per variable with its class "
            "and qualifier, elementary or named type, constant or enumerated initial value, edge inputs -- are read back exactly "
            "(C10_declarations_parse_render; a negative initial value is refuted); (libraries) TYPE declarations -- arrays, integer subranges, enumerations, elementary types with a default, late-bound names, each written in a TYPE block of its own -- function blocks and programs are read back as the same flat library and rendering again gives the same tokens (C10_library_parse_render, C10_library_fixed_point; a negative bound is refuted). The renderer model is compared token for token with write_to_string. "
            "(times of day) the seconds text the renderer writes for TIME_OF_DAY# / DATE_AND_TIME# -- two digits, '.', the microseconds as six digits without trailing zeros, at least two -- is read back by the literal model as exactly that time, for every hour, minute, second and microsecond (C10_time_of_day_round_trip; the digits-level fact by a general lemma about digit lists, no enumeration); the STORED time (nanoseconds) is read back exactly when it has no part finer than a microsecond, both directions (C10_stored_time_round_trip_iff: the recorded finding is precisely nanos mod 1000 <> 0); (dates) every date the literal model accepts is read back from DATE#yyyy-mm-dd as that date (C10_date_round_trip); (durations) whatever decimal spelling of n < 2^64 stands in TIME#<n>ms, it is read back as exactly n milliseconds (C10_milliseconds_read_back); the models' texts are compared with write_to_string and the model's reading of the renderer's digits with the value the parser gave the original literal. "
            "For declarations and the remaining statement forms the round trip is decided by search: every generated unit and every fixture is parsed, rendered, re-parsed and compared with Rust's ==; the second "
            "rendering must equal the first. The renderer has several recorded defects (known findings) whose classes are excluded by "
            "predicates on the unit and on the way the round trip fails.",
    "note": "Trusted: Coq kernel, harness op roundtrip (parse_program, write_to_string, Rust ==). Known findings (the repository's golden "
            "files pin these renderings, so they are recorded, not repaired): negative literals rendered '- 5'; reals with integral value "
            "rendered as integers; array initial values without brackets / dropped; structure-initialization type declarations without "
            "base type; TASK INTERVAL rendered as INTERNAL; durations finer than a millisecond and times finer than a microsecond. No axioms.",
}
TRUSTED = [
    "Coq 8.16.1 kernel",
    "no axioms: every theorem of Properties/C10.v is closed under the global context",
    "harness op `roundtrip`: parse_program, write_to_string, parse_program, Rust ==, write_to_string",
    "renderer.rs is modelled only for expressions; declarations and statements are searched",
]
ASSUMPTIONS = ["library equality is Rust's derived PartialEq (ignores positions and identifier case)"]

# known findings: key -> (description, predicate on (source text, failure dict))
KF = {
    "render-negative-literal-blank": "a negative integer literal (subrange bound, CASE selector, default value) is rendered as '- 5' with a blank after the sign, which is not a signed integer for the parser",
    "render-real-integral-as-integer": "a real literal with an integral value (3.0, 1.0E10, LREAL#11.0) is rendered without fractional part and read back as an integer",
    "render-array-initial-values": "array initial values are rendered without brackets in variable declarations and dropped from array type declarations",
    "structure-initialization-type-declaration-base-dropped": "a structure-initialization type declaration is rendered without its base type (the library does not keep it)",
    "render-task-interval-keyword": "the INTERVAL of a TASK is rendered as 'INTERNAL := ...', which the parser rejects",
}


def classify(text, r):
    """which known finding (if any) explains this failed round trip; judged on the way it fails"""
    if r.get("parse2") == "err":
        out = bytes.fromhex(r["render1"]).decode("utf-8", "replace")
        d = r["err"]
        b = out.encode()
        ls = b.rfind(b"\n", 0, d["start"]) + 1
        le = b.find(b"\n", d["start"])
        line = b[ls:le if le >= 0 else len(b)].decode("utf-8", "replace")
        at = b[d["start"]:d["start"] + 12].decode("utf-8", "replace")
        pre = b[ls:d["start"]].decode("utf-8", "replace")
        # an integral real with a type prefix is written REAL#100: the parser stops at the digits right after REAL# / REAL#-
        if re.search(r"L?REAL#[-+]?\s*$", pre) and re.match(r"\s*[-+]?\d", at):
            return "render-real-integral-as-integer"
        if re.search(r"(\(|,|^|\s|NOT|-|\.\.)- \d", line) and (at.startswith(" ") or at[:1].isdigit() or at.startswith("-")):
            return "render-negative-literal-blank"
        if re.search(r"(L?REAL)#[-+]?\d+(?![\d.])", line) and re.match(r"[-+]?\d", at.strip()):
            return "render-real-integral-as-integer"
        if re.search(r"ARRAY .* OF \w+ *:= *[^\[]", line):
            return "render-array-initial-values"
        if re.match(r"\s*\w+ := \(", line):
            return "structure-initialization-type-declaration-base-dropped"
        if "INTERNAL :=" in line:
            return "render-task-interval-keyword"
        if line.strip().startswith("VAR_GLOBAL") and re.search(r"\bRESOURCE\b", out[:out.find(line)] if line in out else ""):
            return "render-configuration-globals"
        if re.search(r"(L?REAL)#[-+]?\d+(?![\d.])", line):
            return "render-real-integral-as-integer"
        return None
    if r.get("parse2") == "ok" and not r.get("equal"):
        a = debugtree.compact(debugtree.norm(debugtree.parse(r["tree1"])))
        b = debugtree.compact(debugtree.norm(debugtree.parse(r["tree2"])))
        d = debugtree.diff(a, b) or ""
        if "RealLiteral vs IntegerLiteral" in d or ("'real" in d.lower() and "integerliteral" in d.lower()):
            return "render-real-integral-as-integer"
        if "ArrayDeclaration.init" in d:
            return "render-array-initial-values"
        if "global_var" in d:
            return "render-configuration-globals"
        return None
    return None


def search(run, info):
    rng = run.rng
    wd = run.workdir
    texts = []
    for _ in range(300 if run.tier == "quick" else 5000):
        lx, tree, known = gen_ast.gen_unit(rng, depth=rng.choice([2, 3, 4]))
        texts.append(("ast-unit", gen_prog.render(lx), known))
    for lx, tree, tag in ast_common.operator_pair_family(rng):
        texts.append(("operator-pair", gen_prog.render(lx), set()))
    for lx, tree, tag in ast_common.statement_nesting_family(rng):
        texts.append(("statement-nesting", gen_prog.render(lx), set()))
    # character strings: every two-character escape and '$' next to the closing quote, as initial value and in an expression
    bodies = ["", "a", "$$", "a$$", "$$a", "$$$$", "USD $$", "$N$L", "a$Nb", "$R$T$P", "x$$$$y$$", "$41", "it is", "$$ $$", "q$$q$$"]
    texts.append(("string-escapes", "FUNCTION_BLOCK fq\nVAR\ns : STRING;\nw : WSTRING;\nEND_VAR\nw := \"it's\";\ns := 'say \"hi\"';\nw := CONCAT(\"'\", \"a'b'c\");\nEND_FUNCTION_BLOCK\n", set()))
    for b in bodies:
        for q in ("'", '"'):
            ty = "STRING" if q == "'" else "WSTRING"
            lit = q + b + q
            texts.append(("string-escapes", "FUNCTION_BLOCK fs\nVAR\ns : %s := %s;\nt : %s;\nEND_VAR\nt := %s;\nt := CONCAT(s, %s);\nEND_FUNCTION_BLOCK\n" % (
                ty, lit, ty, lit, lit), set()))
    # bodies that hold only empty statements, and the bodies of the statement-model generator (empty statements, signed constants)
    for body in ["FOR i := 1 TO 2 DO ; END_FOR;", "FOR i := 1 TO 2 BY 1 DO ;; END_FOR;", "WHILE i < 2 DO ; END_WHILE;", "REPEAT ; UNTIL i < 2 END_REPEAT;",
                 "IF i < 2 THEN i := 1; ELSIF i < 3 THEN ; ELSE ; END_IF;", "IF i < 2 THEN ; ELSIF i < 3 THEN ; ELSIF i < 4 THEN i := 2; END_IF;",
                 "IF i < 2 THEN END_IF;", "WHILE i < 2 DO REPEAT ; UNTIL TRUE END_REPEAT; END_WHILE;", ";", ";;"]:
        texts.append(("empty-bodies", "FUNCTION_BLOCK fe\nVAR i : INT; END_VAR\n%s\nEND_FUNCTION_BLOCK\n" % body, set()))
    # directly represented variables: every location, with every size prefix and with none, declared at an address and used in
    # statements
    for loc in "IQM":
        for sz in ("", "X", "B", "W", "D", "L"):
            ty = "BOOL" if sz in ("", "X") else "INT"
            texts.append(("direct-variables", "PROGRAM pd\nVAR\n  a AT %%%s%s1 : %s;\n  AT %%%s%s0.3 : %s;\nEND_VAR\n%%%s%s2.1 := %%%s%s2.0;\nEND_PROGRAM\n" % (
                loc, sz, ty, loc, sz, ty, loc, sz, loc, sz), set()))
    import gen_st
    for _ in range(150 if run.tier == "quick" else 3000):
        sx, lx = gen_st.G_(rng, depth=rng.choice([1, 2, 3])).body()
        # a negative constant under a unary operator (- -5) is the recorded negative-literal rendering
        kn = set()
        if "i:-" in sx:
            kn.add("render-negative-literal-blank")
        if "r:" in sx:
            kn.add("render-real-integral-as-integer")
        texts.append(("statement-model", gen_prog.render(lx), kn))
    # the witnesses of the recorded renderer gaps for constructs the AST-level generator does not produce
    witness_keys = {}
    for f in run.known:
        w = f.get("witness", {}).get("text")
        if w and f["key"] not in ("structure-initialization-type-declaration-base-dropped",):
            witness_keys[len(texts)] = f["key"]
            texts.append(("known-witness", w, None))
    for name, t in gen_text.fixtures():
        texts.append(("fixture", t, None))
    res = vlib.run_impl([{"id": i, "op": "roundtrip", "text": hexs(t)} for i, (_, t, _) in enumerate(texts)], wd, per_case_timeout=30)
    known_keys = {x["key"] for x in run.known}
    stats = {}
    for idx, ((tag, t, known), r) in enumerate(zip(texts, res)):
        run.count(t, True, tag)
        if "panic" in r or "abort" in r:
            run.violation("impl-violates-property", "round trip crashed: %s" % (r.get("panic") or r.get("abort")), {"input": {"text": t}})
            continue
        if r.get("parse1") != "ok":
            stats["not-accepted"] = stats.get("not-accepted", 0) + 1
            continue      # the property speaks about sources the parser accepts
        fail = None
        if r.get("render1") == "err":
            fail = "rendering the parsed library failed: %r" % (r.get("diags", [])[:1],)
        elif r.get("parse2") == "err":
            ob = bytes.fromhex(r["render1"])
            st = r["err"]["start"]
            ls = ob.rfind(b"\n", 0, st) + 1
            le = ob.find(b"\n", st)
            fail = "the rendered text is rejected by the parser at %r in line %r" % (
                ob[st:st + 10].decode("utf-8", "replace"), ob[ls:le if le >= 0 else len(ob)].decode("utf-8", "replace").strip()[:110])
        elif not r.get("equal"):
            fail = "the re-parsed library differs from the first"
        elif not r.get("fixed_point"):
            fail = "rendering the re-parsed library gives a different text"
        if fail is None:
            stats["ok"] = stats.get("ok", 0) + 1
            if len(run.cov["samples"]) < 3:
                run.sample({"family": tag, "source": t[:120], "rendered": bytes.fromhex(r["render1"]).decode("utf-8", "replace")[:160]})
            continue
        key = classify(t, r)
        if tag == "known-witness":
            key = witness_keys.get(idx)
        allowed = key is not None and key in known_keys and (known is None or key in known)
        if allowed:
            run.known_finding(key, KF.get(key) or next((f["class"] + ": " + f["failure_mode"] for f in run.known if f["key"] == key), key))
            stats["known:" + key] = stats.get("known:" + key, 0) + 1
            continue
        rendered = bytes.fromhex(r["render1"]).decode("utf-8", "replace") if isinstance(r.get("render1"), str) and r.get("render1") != "err" else None
        run.violation("impl-violates-property", "%s (%s)" % (fail, tag), {"input": {"text": t}, "rendered": rendered, "classified_as": key})
    # ---- correspondence of the Coq renderer model (the subject of C10_parse_render) with write_to_string ----
    nexpr = 300 if run.tier == "quick" else 5000
    exprs = [ast_common.model_expr(rng, rng.choice([2, 3, 4, 5])) for _ in range(nexpr)]
    etexts = []
    for e in exprs:
        g = gen_ast.Gen(rng, redundant_parens=False)
        etexts.append("PROGRAM p\nr := " + gen_prog.render(g.spell(e, 0)).strip("\n") + " ;\nEND_PROGRAM\n")
    eres = vlib.run_impl([{"id": i, "op": "roundtrip", "text": hexs(t)} for i, t in enumerate(etexts)], wd, per_case_timeout=30)
    emodel = vlib.run_model([("expr", i, ["render", ast_common.sexp_of_expr(e)]) for i, e in enumerate(exprs)], wd) if info.get("extract_ok") else {}
    for i, (e, t, r) in enumerate(zip(exprs, etexts, eres)):
        run.count(("render", t), True, "expression-model")
        if r.get("parse1") != "ok" or r.get("render1") in (None, "err"):
            run.violation("impl-violates-property", "expression statement could not be parsed / rendered", {"input": {"text": t}})
            continue
        if not (r.get("parse2") == "ok" and r.get("equal") and r.get("fixed_point")):
            run.violation("impl-violates-property", "expression does not survive render and re-parse: %s" % ast_common.sexp_of_expr(e)[:200],
                          {"input": {"text": t}, "rendered": bytes.fromhex(r["render1"]).decode("utf-8", "replace")})
            continue
        mo = emodel.get(str(i))
        if mo:
            out = bytes.fromhex(r["render1"]).decode("utf-8", "replace")
            line = next((l for l in out.split("\n") if l.strip().startswith("r :=")), "")
            impl_toks = [x.lower() for x in line.split()[2:-1]]
            model_toks = [x.split(":", 1)[1].lower() for x in mo[0].split(" ")] if mo[0] else []
            run.cov["traces_validated_against_impl"] += 1
            if impl_toks != model_toks:
                run.cov["disagreements_checked"] += 1
                run.violation("correspondence", "renderer model and write_to_string differ: model %r, renderer %r" % (" ".join(model_toks)[:150], " ".join(impl_toks)[:150]),
                              {"input": {"text": t}}, no_input=True)
    # ---- times of day: the model of the renderer's seconds text (C10_time_of_day_round_trip) against write_to_string, and the
    #      round trip itself: fractions of one to six digits with and without leading / trailing zeros; finer than a microsecond
    #      is the recorded finding ----
    tod_n = time_literals(run, info, wd, stats)
    # ---- the statement renderer model (C10_statements_parse_render) against write_to_string ----
    st_render_n = st_corr.check_render(run, info, 200 if run.tier == "quick" else 4000, "c10")
    # ... and for function blocks with variable declarations (C10_declarations_parse_render)
    decl_render_n = st_corr.check_render_fbd(run, info, 200 if run.tier == "quick" else 4000, "c10")
    # ... and for whole libraries with TYPE blocks, function blocks and programs (C10_library_parse_render)
    lib_render_n = st_corr.check_render_lib2(run, info, 200 if run.tier == "quick" else 4000, "c10")
    return {"coverage": {
        "time_of_day_texts_compared_with_model": tod_n,
        "statement_renderer_outputs_compared_with_model": st_render_n,
        "declaration_renderer_outputs_compared_with_model": decl_render_n,
        "library_renderer_outputs_compared_with_model": lib_render_n,
        "rule": "parse -> render -> parse -> render on units of the AST-level generator, the exhaustive operator-pair and statement-nesting "
                "families, the character-string escape family, bodies of empty statements, bodies of the statement-model generator, every repository fixture and the witnesses of the recorded renderer gaps; sources the parser rejects are skipped; a failed "
                "round trip is attributed to a known finding only when the way it fails matches that finding's pattern and (for AST-level "
                "units) the unit contains the construct; non-trivial = every accepted source, distinct by text",
        "outcomes": stats,
        "exhaustive": False}}


def time_literals(run, info, wd, stats):
    rng = run.rng
    fracs = ["", "0", "5", "05", "50", "005", "500", "0005", "00005", "000005", "000001", "999999", "123456", "12345", "100000", "010000",
             "001000", "25", "250", "2500", "000010", "7", "07", "007"]
    for _ in range(40 if run.tier == "quick" else 2000):
        n = rng.randint(1, 6)
        fracs.append("".join(rng.choice("0000123456789") for _ in range(n)))
    fine = ["0000005", "1234567", "0000001", "123456789", "5000001"]       # finer than a microsecond: kept by the library, not written
    cases = []
    for f in fracs + fine:
        h, m, sec = rng.randrange(24), rng.randrange(60), rng.randrange(60)
        lit = "%02d:%02d:%02d%s" % (h, m, sec, "." + f if f else "")
        if rng.random() < 0.5:
            lit = "%d:%d:%d%s" % (h, m, sec, "." + f if f else "")
        kind = rng.choice(["TOD", "TIME_OF_DAY", "DT"])
        src = "PROGRAM p\nVAR\n  t : %s := %s#%s%s;\nEND_VAR\nEND_PROGRAM\n" % (
            "DATE_AND_TIME" if kind == "DT" else "TIME_OF_DAY", "DATE_AND_TIME" if kind == "DT" else kind, "2024-02-29-" if kind == "DT" else "", lit)
        micro = int((f + "000000")[:6]) if f else 0
        cases.append((src, h, m, sec, micro, f in fine))
    res = vlib.run_impl([{"id": i, "op": "roundtrip", "text": hexs(c[0])} for i, c in enumerate(cases)], wd, per_case_timeout=30)
    model = vlib.run_model([("lit", i, ["todtext", hexs(str(c[1])), hexs(str(c[2])), hexs(str(c[3])), hexs(str(c[4]))]) for i, c in enumerate(cases)], wd) \
        if info.get("extract_ok") else {}
    known_keys = {x["key"] for x in run.known}
    n = 0
    for i, ((src, h, m, sec, micro, is_fine), r) in enumerate(zip(cases, res)):
        run.count(("tod", src), True, "time-of-day")
        if "panic" in r or "abort" in r or r.get("parse1") != "ok" or r.get("render1") in (None, "err"):
            run.violation("impl-violates-property", "a time of day literal is not accepted / rendered: %r" % (r.get("panic") or r.get("abort") or r.get("diags"),),
                          {"input": {"text": src}})
            continue
        out = bytes.fromhex(r["render1"]).decode("utf-8", "replace")
        mm = re.search(r"#(?:\d{4}-\d{2}-\d{2}-)?\d{2}:\d{2}:([0-9.]+)\s*;", out)
        ok = r.get("parse2") == "ok" and r.get("equal") and r.get("fixed_point")
        if is_fine:
            if not ok and "render-fractional-time-values" in known_keys and r.get("parse2") == "ok":
                run.known_finding("render-fractional-time-values", next(f["class"] + ": " + f["failure_mode"] for f in run.known if f["key"] == "render-fractional-time-values"))
                stats["known:render-fractional-time-values"] = stats.get("known:render-fractional-time-values", 0) + 1
            elif not ok:
                run.violation("impl-violates-property", "a time of day finer than a microsecond: the rendered text is rejected", {"input": {"text": src}, "rendered": out})
            continue
        if not ok:
            run.violation("impl-violates-property", "a time of day does not survive render and re-parse (rendered %r)" % (mm.group(0) if mm else out[:120]),
                          {"input": {"text": src}, "rendered": out})
            continue
        mo = model.get(str(i))
        if mo and mm:
            n += 1
            run.cov["traces_validated_against_impl"] += 1
            mtext = "".join(chr(int(x)) for x in mo[0].split(".")) if mo[0] else ""
            back = mo[1:]
            if mtext != mm.group(1) or back != [str(h), str(m), str(sec), str(micro * 1000)]:
                run.cov["disagreements_checked"] += 1
                run.violation("correspondence", "time-of-day renderer model and write_to_string differ: model %r (read back %r), renderer %r" % (mtext, back, mm.group(1)),
                              {"input": {"text": src}, "obligation": "C10_time_of_day_round_trip"}, no_input=True)
    # dates: DATE# and the date of DATE_AND_TIME# (C10_date_round_trip), same two comparisons
    dates = [(1, 1, 1), (9999, 12, 31), (2024, 2, 29), (2000, 2, 29), (1900, 2, 28), (10, 10, 10), (999, 9, 9), (1970, 1, 1), (2023, 11, 30)]
    for _ in range(30 if run.tier == "quick" else 1500):
        dates.append((rng.choice([rng.randint(1, 9999), rng.randint(1, 99), rng.randint(1900, 2100)]), rng.randint(1, 12), rng.randint(1, 28)))
    dcases = []
    for (y, mo_, d) in dates:
        kind = rng.choice(["D", "DATE", "DT"])
        lit = rng.choice(["%04d-%02d-%02d", "%d-%d-%d"]) % (y, mo_, d)
        src = "PROGRAM p\nVAR\n  t : %s := %s#%s%s;\nEND_VAR\nEND_PROGRAM\n" % (
            "DATE_AND_TIME" if kind == "DT" else "DATE", "DATE_AND_TIME" if kind == "DT" else kind, lit, "-01:02:03" if kind == "DT" else "")
        dcases.append((src, y, mo_, d))
    res = vlib.run_impl([{"id": i, "op": "roundtrip", "text": hexs(c[0])} for i, c in enumerate(dcases)], wd, per_case_timeout=30)
    model = vlib.run_model([("lit", i, ["datetext", hexs(str(c[1])), hexs(str(c[2])), hexs(str(c[3]))]) for i, c in enumerate(dcases)], wd) \
        if info.get("extract_ok") else {}
    for i, ((src, y, mo_, d), r) in enumerate(zip(dcases, res)):
        run.count(("date", src), True, "date")
        if "panic" in r or "abort" in r or r.get("parse1") != "ok" or r.get("render1") in (None, "err"):
            run.violation("impl-violates-property", "a date literal is not accepted / rendered: %r" % (r.get("panic") or r.get("abort") or r.get("diags"),),
                          {"input": {"text": src}})
            continue
        out = bytes.fromhex(r["render1"]).decode("utf-8", "replace")
        if not (r.get("parse2") == "ok" and r.get("equal") and r.get("fixed_point")):
            run.violation("impl-violates-property", "a date does not survive render and re-parse", {"input": {"text": src}, "rendered": out})
            continue
        mm = re.search(r"#(\d+-\d+-\d+)", out)
        mo = model.get(str(i))
        if mo and mm:
            n += 1
            run.cov["traces_validated_against_impl"] += 1
            mtext = "".join(chr(int(x)) for x in mo[0].split(".")) if mo[0] else ""
            if mtext != mm.group(1) or mo[1:] != [str(y), str(mo_), str(d)]:
                run.cov["disagreements_checked"] += 1
                run.violation("correspondence", "date renderer model and write_to_string differ: model %r (read back %r), renderer %r" % (mtext, mo[1:], mm.group(1)),
                              {"input": {"text": src}, "obligation": "C10_date_round_trip"}, no_input=True)
    # durations: TIME#<n>ms (C10_milliseconds_read_back).  The model reads the renderer's digits back; that must be the value the
    # parser gave the ORIGINAL literal (whole milliseconds here; finer ones are the recorded finding, exercised by its witness)
    durs = ["T#0ms", "T#1ms", "T#999ms", "T#1000ms", "T#1500ms", "T#2s", "T#1.5s", "T#0.001s", "T#1m", "T#1.5m", "T#1h", "T#0.5h", "T#1d", "T#2.5d",
            "TIME#86400001ms", "T#4294967296ms", "t#12.345s", "T#9223372036854775s", "T#100000d", "T#0.25s", "T#59.999s"]
    for _ in range(30 if run.tier == "quick" else 1500):
        u = rng.choice(["ms", "s", "m", "h", "d"])
        if u == "ms":
            durs.append("T#%dms" % rng.choice([rng.randrange(10), rng.randrange(100000), rng.randrange(10 ** 12)]))
        else:
            durs.append("T#%d%s%s" % (rng.randrange(1000), rng.choice(["", ".5", ".25", ".125", ".001"]) if u != "d" or True else "", u))
    dsrc = ["PROGRAM p\nVAR\n  t : TIME := %s;\nEND_VAR\nEND_PROGRAM\n" % l for l in durs]
    res = vlib.run_impl([{"id": i, "op": "roundtrip", "text": hexs(t)} for i, t in enumerate(dsrc)], wd, per_case_timeout=30)
    val = vlib.run_impl([{"id": i, "op": "parse", "text": hexs(t), "collect": True} for i, t in enumerate(dsrc)], wd, per_case_timeout=30)
    outs = []
    for r in res:
        out = bytes.fromhex(r["render1"]).decode("utf-8", "replace") if isinstance(r.get("render1"), str) and r.get("render1") != "err" else ""
        mm = re.search(r"TIME#(\d+)ms", out)
        outs.append((out, mm.group(1) if mm else None))
    model = vlib.run_model([("lit", i, ["mstext", hexs(o[1])]) for i, o in enumerate(outs) if o[1] is not None], wd) if info.get("extract_ok") else {}
    for i, (lit, src, r, v, (out, digits)) in enumerate(zip(durs, dsrc, res, val, outs)):
        run.count(("duration", src), True, "duration")
        if "panic" in r or "abort" in r or r.get("parse1") != "ok" or digits is None:
            run.violation("impl-violates-property", "a duration literal is not accepted / rendered as TIME#<n>ms: %r" % (r.get("panic") or r.get("abort") or r.get("diags") or out[:80],),
                          {"input": {"text": src}})
            continue
        consts = ((v.get("collect") or {}).get("consts") or [])
        dv = next((c for c in consts if c.get("kind") == "duration"), None)
        whole_ms = dv is not None and int(dv["nanos"]) % 1000000 == 0
        ok = r.get("parse2") == "ok" and r.get("equal") and r.get("fixed_point")
        if not ok and whole_ms:
            run.violation("impl-violates-property", "a duration of whole milliseconds does not survive render and re-parse (%s rendered TIME#%sms)" % (lit, digits),
                          {"input": {"text": src}, "rendered": out})
            continue
        if not ok:
            if "render-fractional-time-values" in known_keys and r.get("parse2") == "ok":
                run.known_finding("render-fractional-time-values", next(f["class"] + ": " + f["failure_mode"] for f in run.known if f["key"] == "render-fractional-time-values"))
            else:
                run.violation("impl-violates-property", "a duration finer than a millisecond: the rendered text is rejected", {"input": {"text": src}, "rendered": out})
            continue
        mo = model.get(str(i))
        if mo and dv is not None:
            n += 1
            run.cov["traces_validated_against_impl"] += 1
            if mo != [str(dv["seconds"]), str(dv["nanos"])]:
                run.cov["disagreements_checked"] += 1
                run.violation("correspondence", "the model reads TIME#%sms back as %r, the parser gave the original %s the value %r" % (digits, mo, lit, (dv["seconds"], dv["nanos"])),
                              {"input": {"text": src}, "obligation": "C10_milliseconds_read_back"}, no_input=True)
    return n


def replay(run, rep):
    t = rep.get("input", {}).get("text")
    if t is None:
        return 2
    r = vlib.run_impl([{"id": 0, "op": "roundtrip", "text": hexs(t)}], run.workdir)[0]
    if r.get("parse1") != "ok":
        return 0
    ok = r.get("parse2") == "ok" and r.get("equal") and r.get("fixed_point")
    return 0 if ok else 1
