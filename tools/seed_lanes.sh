#!/bin/bash
# seed_lanes.sh <lanes> [ids...]: runs the seeded changes in <lanes> lanes side by side, each lane on its own copy of /verif and of
# the repository under /tmp/pv (removed at the end), and merges the lanes' results into seeded/results.json.  /repo itself is
# not touched, so other runs may read it meanwhile.
n=${1:-3}; shift
ids="$@"
[ -z "$ids" ] && ids=$(cd /verif/seeded && ls -d */ | tr -d / | sort)
rm -rf /tmp/pv; mkdir -p /tmp/pv
k=0
for id in $ids; do echo $id >> /tmp/pv/ids_$((k % n)); k=$((k+1)); done
for k in $(seq 0 $((n-1))); do
  ( cp -r /verif /tmp/pv/verif$k && git clone -q /repo /tmp/pv/repo$k &&
    sed -i "s|/repo/compiler|/tmp/pv/repo$k/compiler|g" /tmp/pv/verif$k/harness/Cargo.toml &&
    cd /tmp/pv/verif$k && VERIF_REPO=/tmp/pv/repo$k python3 tools/run_seeds.py $(cat /tmp/pv/ids_$k | tr '\n' ' ') > /tmp/pv/lane$k.log 2>&1 ) &
done
wait
python3 - "$n" <<'PY'
import json, sys
n = int(sys.argv[1])
p = '/verif/seeded/results.json'
res = json.load(open(p))
for k in range(n):
    ids = open('/tmp/pv/ids_%d' % k).read().split()
    lane = json.load(open('/tmp/pv/verif%d/seeded/results.json' % k))
    for i in ids:
        if i in lane:
            res[i] = lane[i]
json.dump(res, open(p, 'w'), indent=1, sort_keys=True)
missed = sorted(i for i, r in res.items() if not r.get('caught'))
print('seeds:', len(res), 'missed:', missed)
PY
cat /tmp/pv/lane*.log | grep -c caught
rm -rf /tmp/pv
