"""AST-level generator for C01 / C08 / C10: every node knows how it is written (a lexeme list for gen_prog.render, so that
keyword case, identifier case, trivia, redundant parentheses and the optional ';' after END_IF can be respelled) and what
the parser must return for it (the tree in the compact normalised form of tools/debugtree.py).  The expected tree states
the MEANING of the source (names, kinds, classes, qualifiers, types, values, nesting, association by IEC 61131-3 B.3.1);
where the parser is known to drop something the node says so in `known`."""
from gen_prog import kw, ident, sym, lit, G, OS, N
import gen_text

RESERVED = None


def reserved():
    global RESERVED
    if RESERVED is None:
        RESERVED = set(k.lower() for k in gen_text.keywords())
    return RESERVED


def T(_nm, **f):
    return (_nm, dict(f))


def V(name, *items):
    return (name, list(items))


def low(s):
    return s.lower()


# ---------------------------------------------------------------------------------------------
# expressions
# ---------------------------------------------------------------------------------------------
LEVEL = {"OR": 0, "XOR": 1, "AND": 2, "&": 2, "=": 3, "<>": 3, "<": 4, ">": 4, "<=": 4, ">=": 4, "+": 5, "-": 5, "*": 6, "/": 6, "MOD": 6, "**": 7}
OPNAME = {"OR": ("Compare", "or"), "XOR": ("Compare", "xor"), "AND": ("Compare", "and"), "&": ("Compare", "and"), "=": ("Compare", "eq"),
          "<>": ("Compare", "ne"), "<": ("Compare", "lt"), ">": ("Compare", "gt"), "<=": ("Compare", "lteq"), ">=": ("Compare", "gteq"),
          "+": ("BinaryOp", "add"), "-": ("BinaryOp", "sub"), "*": ("BinaryOp", "mul"), "/": ("BinaryOp", "div"), "MOD": ("BinaryOp", "mod"),
          "**": ("BinaryOp", "pow")}
BINOPS = list(LEVEL)
UNARY, PRIMARY = 8, 9


def int_tree(v, typ=None):
    return T("IntegerLiteral", data_type=typ, value="i:%d" % v)


class Expr:
    level = PRIMARY

    def lex(self, g):
        raise NotImplementedError

    def tree(self):
        raise NotImplementedError


class IntConst(Expr):
    def __init__(self, v, typ=None, spelling=None):
        self.v, self.typ, self.spelling = v, typ, spelling

    def lex(self, g):
        s = self.spelling or str(self.v)
        return [lit((self.typ + "#" if self.typ else "") + s)]

    def tree(self):
        return V("Const", int_tree(self.v, low(self.typ) if self.typ else None))


class BoolConst(Expr):
    def __init__(self, v):
        self.v = v

    def lex(self, g):
        k = g.rng.random()
        if k < 0.15:
            return [kw("BOOL"), G, sym("#"), G, kw("TRUE" if self.v else "FALSE")]
        if k < 0.25:
            return [kw("BOOL"), G, sym("#"), G, lit("1" if self.v else "0")]
        return [kw("TRUE" if self.v else "FALSE")]

    def tree(self):
        return V("Const", V("Boolean", T("BooleanLiteral", value="true" if self.v else "false")))


class RealConst(Expr):
    def __init__(self, text, value_repr):
        self.text, self.value_repr = text, value_repr

    def lex(self, g):
        return [lit(self.text)]

    def tree(self):
        return V("Const", T("RealLiteral", data_type=None, value=self.value_repr))


class StrConst(Expr):
    def __init__(self, body):
        self.body = body

    def lex(self, g):
        return [lit("'" + self.body + "'")]

    def tree(self):
        return V("Const", V("CharacterString", T("CharacterStringLiteral", value=["c:" + c for c in self.body])))


class Name(Expr):
    """a plain identifier in expression position"""

    def __init__(self, name):
        self.name = name

    def lex(self, g):
        return [ident(self.name)]

    def tree(self):
        return T("LateBound", name=low(self.name))

    def var_tree(self):
        return V("Named", T("NamedVariable", name=low(self.name)))


class Field(Expr):
    def __init__(self, rec, field):
        self.rec, self.field = rec, field

    def lex(self, g):
        return self.rec.lex(g) + [sym("."), ident(self.field)]

    def var_tree(self):
        return V("Structured", T("StructuredVariable", field=low(self.field), record=self.rec.var_tree()))

    def tree(self):
        return V("Variable", V("Symbolic", self.var_tree()))


class Index(Expr):
    def __init__(self, arr, subs):
        self.arr, self.subs = arr, subs

    def lex(self, g):
        out = self.arr.lex(g) + [sym("[")]
        for i, s in enumerate(self.subs):
            if i:
                out.append(sym(","))
            out += g.spell(s, 0)
        return out + [sym("]")]

    def var_tree(self):
        return V("Array", T("ArrayVariable", subscripted_variable=self.arr.var_tree(), subscripts=[s.tree() for s in self.subs]))

    def tree(self):
        return V("Variable", V("Symbolic", self.var_tree()))


class Call(Expr):
    def __init__(self, name, args):
        self.name, self.args = name, args      # args: list of (formal name | None, Expr)

    def lex(self, g):
        out = [ident(self.name), sym("(")]
        for i, (n, e) in enumerate(self.args):
            if i:
                out.append(sym(","))
            if n:
                out += [ident(n), sym(":=")]
            out += g.spell(e, 0)
        return out + [sym(")")]

    def tree(self):
        ps = []
        for n, e in self.args:
            if n:
                ps.append(T("NamedInput", name=low(n), expr=e.tree()))
            else:
                ps.append(T("PositionalInput", expr=e.tree()))
        return T("Function", name=low(self.name), param_assignment=ps)


class Unary(Expr):
    level = UNARY

    def __init__(self, op, e):
        self.op, self.e = op, e      # op: "-" | "NOT"

    def lex(self, g):
        inner = g.spell(self.e, PRIMARY)
        return [sym("-") if self.op == "-" else kw("NOT")] + inner

    def tree(self):
        return V("UnaryOp", T("UnaryExpr", op="neg" if self.op == "-" else "not", term=self.e.tree()))


class Bin(Expr):
    def __init__(self, op, l, r):
        self.op, self.l, self.r = op, l, r
        self.level = LEVEL[op]

    def lex(self, g):
        o = self.op
        ol = kw(o) if o.isalpha() else sym(o)
        return g.spell(self.l, self.level) + [ol] + g.spell(self.r, self.level + 1)

    def tree(self):
        kind, name = OPNAME[self.op]
        inner = "CompareExpr" if kind == "Compare" else "BinaryExpr"
        return V(kind, T(inner, op=name, left=self.l.tree(), right=self.r.tree()))


# ---------------------------------------------------------------------------------------------
# statements
# ---------------------------------------------------------------------------------------------
class Stmt:
    pass


class Assign(Stmt):
    def __init__(self, target, e):
        self.target, self.e = target, e

    def lex(self, g):
        return self.target.lex(g) + [sym(":=")] + g.spell(self.e, 0) + [sym(";"), N]

    def tree(self):
        return T("Assignment", target=V("Symbolic", self.target.var_tree()), value=self.e.tree())


class If(Stmt):
    def __init__(self, cond, body, elsifs, els):
        self.cond, self.body, self.elsifs, self.els = cond, body, elsifs, els

    def lex(self, g):
        out = [kw("IF")] + g.spell(self.cond, 0) + [kw("THEN"), N] + g.stmts(self.body)
        for c, b in self.elsifs:
            out += [kw("ELSIF")] + g.spell(c, 0) + [kw("THEN"), N] + g.stmts(b)
        if self.els is not None:
            out += [kw("ELSE"), N] + g.stmts(self.els)
        return out + [kw("END_IF"), OS, N]

    def tree(self):
        return T("If", expr=self.cond.tree(), body=[s.tree() for s in self.body],
                 else_ifs=[T("ElseIf", expr=c.tree(), body=[s.tree() for s in b]) for c, b in self.elsifs],
                 else_body=[s.tree() for s in (self.els or [])])


class Case(Stmt):
    def __init__(self, sel, groups, els):
        self.sel, self.groups, self.els = sel, groups, els   # groups: list of (selectors, stmts); selector: int | (lo, hi)

    def lex(self, g):
        out = [kw("CASE")] + g.spell(self.sel, 0) + [kw("OF"), N]
        for sels, body in self.groups:
            for i, s in enumerate(sels):
                if i:
                    out.append(sym(","))
                if isinstance(s, tuple):
                    out += [lit(str(s[0])), sym(".."), lit(str(s[1]))]
                else:
                    out.append(lit(str(s)))
            out += [sym(":")] + g.stmts(body)
        if self.els is not None:
            out += [kw("ELSE"), N] + g.stmts(self.els)
        return out + [kw("END_CASE"), sym(";"), N]

    def tree(self):
        def sel(s):
            if isinstance(s, tuple):
                return T("Subrange", start="i:%d" % s[0], end="i:%d" % s[1])
            return V("SignedInteger", "i:%d" % s)
        return T("Case", selector=self.sel.tree(),
                 statement_groups=[T("CaseStatementGroup", selectors=[sel(s) for s in sels], statements=[x.tree() for x in body])
                                   for sels, body in self.groups],
                 else_body=[s.tree() for s in (self.els or [])])


class For(Stmt):
    def __init__(self, control, frm, to, step, body):
        self.control, self.frm, self.to, self.step, self.body = control, frm, to, step, body

    def lex(self, g):
        out = [kw("FOR"), ident(self.control), sym(":=")] + g.spell(self.frm, 0) + [kw("TO")] + g.spell(self.to, 0)
        if self.step is not None:
            out += [kw("BY")] + g.spell(self.step, 0)
        return out + [kw("DO"), N] + g.stmts(self.body) + [kw("END_FOR"), sym(";"), N]

    def tree(self):
        return T("For", control=low(self.control), **{"from": self.frm.tree()}, to=self.to.tree(),
                 step=None if self.step is None else self.step.tree(), body=[s.tree() for s in self.body])


class While(Stmt):
    def __init__(self, cond, body):
        self.cond, self.body = cond, body

    def lex(self, g):
        return [kw("WHILE")] + g.spell(self.cond, 0) + [kw("DO"), N] + g.stmts(self.body) + [kw("END_WHILE"), sym(";"), N]

    def tree(self):
        return T("While", condition=self.cond.tree(), body=[s.tree() for s in self.body])


class Repeat(Stmt):
    def __init__(self, body, until):
        self.body, self.until = body, until

    def lex(self, g):
        return [kw("REPEAT"), N] + g.stmts(self.body) + [kw("UNTIL")] + g.spell(self.until, 0) + [kw("END_REPEAT"), sym(";"), N]

    def tree(self):
        return T("Repeat", until=self.until.tree(), body=[s.tree() for s in self.body])


class Simple(Stmt):
    def __init__(self, word):
        self.word = word     # RETURN | EXIT

    def lex(self, g):
        return [kw(self.word), sym(";"), N]

    def tree(self):
        return self.word.lower()


class FbCall(Stmt):
    def __init__(self, inst, params):
        self.inst, self.params = inst, params     # ("in", name|None, Expr) | ("out", name, target, negated)

    def lex(self, g):
        out = [ident(self.inst), sym("(")]
        for i, p in enumerate(self.params):
            if i:
                out.append(sym(","))
            if p[0] == "in":
                if p[1]:
                    out += [ident(p[1]), sym(":=")]
                out += g.spell(p[2], 0)
            else:
                if p[3]:
                    out.append(kw("NOT"))
                out += [ident(p[1]), sym("=>")] + p[2].lex(g)
        return out + [sym(")"), sym(";"), N]

    def tree(self):
        ps = []
        for p in self.params:
            if p[0] == "in":
                ps.append(T("NamedInput", name=low(p[1]), expr=p[2].tree()) if p[1] else T("PositionalInput", expr=p[2].tree()))
            else:
                ps.append(T("Output", **{"not": "true" if p[3] else "false"}, src=low(p[1]), tgt=V("Symbolic", p[2].var_tree())))
        return T("FbCall", var_name=low(self.inst), params=ps)


# ---------------------------------------------------------------------------------------------
# the generator
# ---------------------------------------------------------------------------------------------
class Gen:
    def __init__(self, rng, depth=3, redundant_parens=True):
        self.rng = rng
        self.depth = depth
        self.redundant = redundant_parens
        self.used = set()
        self.known = set()     # known-finding keys this unit exercises
        self.allow_edges = False
        self.edges = []

    def name(self, p="v"):
        while True:
            n = "%s%d" % (p, self.rng.randrange(1000))
            if n.lower() not in self.used and n.lower() not in reserved():
                self.used.add(n.lower())
                return n

    # writing an expression in a context that requires at least `minlevel`
    def spell(self, e, minlevel):
        inner = e.lex(self)
        need = e.level < minlevel
        if need or (self.redundant and self.rng.random() < 0.12):
            out = [sym("(")] + inner + [sym(")")]
            if not need and self.rng.random() < 0.2:
                out = [sym("(")] + out + [sym(")")]
            return out
        return inner

    def stmts(self, body):
        out = []
        for s in body:
            out += s.lex(self)
        return out

    # ---- random construction -------------------------------------------------------------------
    def expr(self, d=0):
        r = self.rng
        if d >= self.depth or r.random() < 0.3:
            return self.primary(d)
        k = r.randrange(10)
        if k == 0:
            return Unary(r.choice(["-", "NOT"]), self.expr(d + 1))
        op = r.choice(BINOPS)
        return Bin(op, self.expr(d + 1), self.expr(d + 1))

    def variable(self, d=0):
        r = self.rng
        v = Name(self.name("v"))
        for _ in range(r.choice([0, 0, 0, 1, 1, 2])):
            if r.random() < 0.5:
                v = Field(v, self.name("f"))
            else:
                v = Index(v, [self.expr(d + 2) for _ in range(r.choice([1, 1, 2]))])
        return v

    def primary(self, d):
        r = self.rng
        k = r.randrange(12)
        if k <= 3:
            return Name(self.name("v"))
        if k == 4:
            v = self.variable(d)
            return v
        if k <= 6:
            return IntConst(r.choice([0, 1, 7, 42, 255, 65535, 2 ** 63, 2 ** 100]))
        if k == 7:
            return r.choice([IntConst(5, "INT"), IntConst(255, None, "16#FF"), IntConst(10, None, "2#1010"), IntConst(8, None, "8#10"),
                             IntConst(1000, None, "1_000"), IntConst(3, "UDINT")])
        if k == 8:
            return BoolConst(r.random() < 0.5)
        if k == 9:
            c = r.choice([RealConst("1.5", "1.5"), RealConst("0.25", "0.25"), RealConst("2.5E2", "250.0"), RealConst("1_0.5", "10.5"),
                          RealConst("1.0E-7", "1e-7"), RealConst("0.000002", "2e-6"), RealConst("1.5E-7", "1.5e-7"), RealConst("6.02E23", "6.02e23")])
            if float(c.text.replace("_", "")).is_integer():
                self.known.add("render-real-integral-as-integer")
            return c
        if k == 10 and d < self.depth:
            n = r.choice([0, 1, 2, 3])
            formal = r.random() < 0.4
            return Call(self.name("fn"), [(self.name("p") if formal else None, self.expr(d + 1)) for _ in range(n)])
        return StrConst(r.choice(["", "a", "ab c", "(*x*)"]))

    def stmt_list(self, d=0, n=None):
        return [self.stmt(d) for _ in range(n if n is not None else self.rng.choice([1, 1, 2, 3]))]

    def stmt(self, d):
        r = self.rng
        k = r.randrange(11) if d < self.depth else r.choice([0, 1, 8, 9])
        if k <= 2:
            return Assign(self.variable(d), self.expr(d))
        if k == 3:
            return If(self.expr(d), self.stmt_list(d + 1), [(self.expr(d), self.stmt_list(d + 1)) for _ in range(r.choice([0, 0, 1, 2]))],
                      self.stmt_list(d + 1) if r.random() < 0.5 else None)
        if k == 4:
            groups = []
            for _ in range(r.choice([1, 2, 3])):
                sels = []
                for _ in range(r.choice([1, 1, 2, 3])):
                    sels.append((r.randrange(0, 5), r.randrange(5, 10)) if r.random() < 0.3 else r.randrange(-5, 20))
                    if not isinstance(sels[-1], tuple) and sels[-1] < 0:
                        self.known.add("render-negative-literal-blank")
                groups.append((sels, self.stmt_list(d + 1)))
            return Case(self.expr(d), groups, self.stmt_list(d + 1) if r.random() < 0.5 else None)
        if k == 5:
            return For(self.name("i"), self.expr(d + 1), self.expr(d + 1), self.expr(d + 1) if r.random() < 0.5 else None, self.stmt_list(d + 1))
        if k == 6:
            return While(self.expr(d), self.stmt_list(d + 1))
        if k == 7:
            return Repeat(self.stmt_list(d + 1), self.expr(d))
        if k == 8:
            return Simple(r.choice(["RETURN", "EXIT"]))
        params = []
        n = r.choice([0, 1, 2, 3])
        formal = r.random() < 0.6
        for _ in range(n):
            if formal and r.random() < 0.3:
                neg = r.random() < 0.15
                if neg:
                    self.known.add("not-on-output-parameter-dropped")
                params.append(("out", self.name("o"), Name(self.name("v")), neg))
            else:
                params.append(("in", self.name("p") if formal else None, self.expr(d + 1)))
        return FbCall(self.name("inst"), params)


# ---------------------------------------------------------------------------------------------
# declarations
# ---------------------------------------------------------------------------------------------
ELEM = ["BOOL", "SINT", "INT", "DINT", "LINT", "USINT", "UINT", "UDINT", "ULINT", "REAL", "LREAL", "TIME", "DATE", "BYTE", "WORD", "DWORD", "LWORD"]
# the spelling TIME_OF_DAY / TOD and DATE_AND_TIME / DT map to one type each
ELEM_TREE = {"TOD": "time_of_day", "DT": "date_and_time"}


def simple_init(typ, value_tree):
    return V("Simple", T("SimpleInitializer", type_name=T("Type", name=ELEM_TREE.get(typ, low(typ))), initial_value=value_tree))


def enum_value(v):
    return T("EnumeratedValue", type_name=None, value=low(v))


class DeclGen(Gen):
    """declarations: each returns (lexemes, expected tree or list of trees)"""

    def literal_for(self, typ):
        r = self.rng
        if typ == "BOOL":
            v = r.random() < 0.5
            return [kw("TRUE" if v else "FALSE")], V("Boolean", T("BooleanLiteral", value="true" if v else "false"))
        if typ in ("REAL", "LREAL"):
            t, rep = r.choice([("1.5", "1.5"), ("0.125", "0.125"), ("3.0", "3.0")])
            if rep.endswith(".0"):
                self.known.add("render-real-integral-as-integer")
            return [lit(t)], T("RealLiteral", data_type=None, value=rep)
        if typ == "TIME":
            s, n, txt = r.choice([(5, 0, "T#5s"), (0, 100000000, "T#100ms"), (3600, 0, "TIME#1h"), (90, 0, "t#1.5m")])
            return [lit(txt)], V("Duration", T("DurationLiteral", interval=T("Duration", seconds=str(s), nanoseconds=str(n))))
        if typ == "DATE":
            return [lit("D#2024-01-20")], V("Date", T("DateLiteral", value="2024-01-20"))
        v = r.choice([0, 1, 5, 100, 255])
        return [lit(str(v))], int_tree(v)

    def var_decl(self, var_type="var", qualifier="unspecified", allow_fancy=True):
        """one declaration `names : spec [:= init];` -> lexemes, list of VarDecl trees (one per name)"""
        r = self.rng
        names = [self.name("v") for _ in range(r.choice([1, 1, 1, 2, 3]))]
        k = r.randrange(10) if allow_fancy else r.randrange(3)
        lx = []
        for i, n in enumerate(names):
            if i:
                lx.append(sym(","))
            lx.append(ident(n))
        lx.append(sym(":"))
        if k <= 2:
            typ = r.choice(ELEM)
            lx.append(kw(typ))
            val = None
            if r.random() < 0.5 or qualifier == "constant":
                vl, val = self.literal_for(typ)
                lx += [sym(":=")] + vl
            init = simple_init(typ, val)
        elif k == 3:
            tn = self.name("Color")
            v = self.name("Val")
            lx += [ident(tn), sym(":="), ident(v)]
            init = V("EnumeratedType", T("EnumeratedInitialValueAssignment", type_name=T("Type", name=low(tn)), initial_value=enum_value(v)))
        elif k == 4:
            tn = self.name("Ty")
            lx.append(ident(tn))
            init = V("LateResolvedType", T("Type", name=low(tn)))
        elif k == 5:
            vals = [self.name("E") for _ in range(r.choice([1, 2, 3]))]
            lx.append(sym("("))
            for i, v in enumerate(vals):
                if i:
                    lx.append(sym(","))
                lx.append(ident(v))
            lx.append(sym(")"))
            dv = None
            if r.random() < 0.5:
                dv = r.choice(vals)
                lx += [sym(":="), ident(dv)]
            init = V("EnumeratedValues", T("EnumeratedValuesInitializer", values=[enum_value(v) for v in vals],
                                           initial_value=None if dv is None else enum_value(dv)))
        elif k == 6:
            wide = r.random() < 0.4
            lx.append(kw("WSTRING" if wide else "STRING"))
            length = None
            if r.random() < 0.6:
                length = r.randint(1, 80)
                lx += [sym("["), lit(str(length)), sym("]")]
            val = None
            if r.random() < 0.5:
                body = r.choice(["", "a", "ab", "x y"])
                q = '"' if wide else "'"
                lx += [sym(":="), lit(q + body + q)]
                val = ["c:" + c for c in body]
            init = V("String", T("StringInitializer", length=None if length is None else "i:%d" % length,
                                 width="wstring" if wide else "string", initial_value=val))
        elif k == 7:
            dims = [(r.randrange(0, 3), r.randrange(3, 9)) for _ in range(r.choice([1, 1, 2]))]
            typ = r.choice(["INT", "BOOL", "DINT"])
            lx += [kw("ARRAY"), sym("[")]
            for i, (lo, hi) in enumerate(dims):
                if i:
                    lx.append(sym(","))
                lx += [lit(str(lo)), sym(".."), lit(str(hi))]
            lx += [sym("]"), kw("OF"), kw(typ)]
            vals = []
            if r.random() < 0.4 and typ != "BOOL":
                xs = [r.randrange(100) for _ in range(r.choice([1, 2, 3]))]
                self.known.add("render-array-initial-values")
                lx += [sym(":="), sym("[")]
                for i, x in enumerate(xs):
                    if i:
                        lx.append(sym(","))
                    lx.append(lit(str(x)))
                lx.append(sym("]"))
                vals = [V("Constant", int_tree(x)) for x in xs]
            init = V("Array", T("ArrayInitialValueAssignment", initial_values=vals,
                                spec=V("Subranges", T("ArraySubranges", ranges=[T("Subrange", start="i:%d" % lo, end="i:%d" % hi) for lo, hi in dims],
                                                      type_name=T("Type", name=low(typ))))))
        elif k == 8:
            tn = self.name("Rec")
            els = [(self.name("m"), r.randrange(50)) for _ in range(r.choice([1, 2]))]
            lx += [ident(tn), sym(":="), sym("(")]
            for i, (m, x) in enumerate(els):
                if i:
                    lx.append(sym(","))
                lx += [ident(m), sym(":="), lit(str(x))]
            lx.append(sym(")"))
            init = V("Structure", T("StructureInitializationDeclaration", type_name=T("Type", name=low(tn)),
                                    elements_init=[T("StructureElementInit", name=low(m), init=V("Constant", int_tree(x))) for m, x in els]))
        else:
            typ = r.choice(["TOD", "DT", "TIME_OF_DAY", "DATE_AND_TIME"])
            lx.append(kw(typ))
            init = simple_init({"TIME_OF_DAY": "TOD", "DATE_AND_TIME": "DT"}.get(typ, typ), None)
        lx += [sym(";"), N]
        trees = [T("VarDecl", identifier=V("Symbol", low(n)), var_type=var_type, qualifier=qualifier, initializer=init) for n in names]
        return lx, trees

    BLOCKS = [("VAR", "var", [None, "RETAIN", "NON_RETAIN", "CONSTANT"]), ("VAR_INPUT", "input", [None, "RETAIN", "NON_RETAIN"]),
              ("VAR_OUTPUT", "output", [None, "RETAIN", "NON_RETAIN"]), ("VAR_IN_OUT", "inout", [None]),
              ("VAR_EXTERNAL", "external", [None, "CONSTANT"])]
    QUAL = {None: "unspecified", "RETAIN": "retain", "NON_RETAIN": "nonretain", "CONSTANT": "constant"}

    def var_block(self, kinds=None, in_function=False):
        r = self.rng
        kwd, vt, quals = r.choice([b for b in self.BLOCKS if kinds is None or b[0] in kinds])
        q = r.choice(quals)
        if in_function:
            # a function's VAR block admits only CONSTANT, its other blocks no qualifier; declarations are of the simple forms
            q = q if (kwd == "VAR" and q == "CONSTANT") else None
        lx = [kw(kwd)] + ([kw(q)] if q else []) + [N]
        trees = []
        self.edges = []
        for _ in range(r.choice([1, 1, 2, 3])):
            if vt == "input" and self.allow_edges and r.random() < 0.25:
                # an edge-detecting input: it carries the block's qualifier like the other inputs
                n = self.name("clk")
                d = r.choice(["R_EDGE", "F_EDGE"])
                lx += [ident(n), sym(":"), kw("BOOL"), kw(d), sym(";"), N]
                self.edges.append(T("EdgeVarDecl", identifier=low(n), direction="rising" if d == "R_EDGE" else "falling",
                                    qualifier=self.QUAL[q]))
                continue
            if vt == "inout":
                # in-out variables are references: only a type name
                n = self.name("v")
                typ = r.choice(["INT", "BOOL"])
                lx += [ident(n), sym(":"), kw(typ), sym(";"), N]
                trees.append(T("VarDecl", identifier=V("Symbol", low(n)), var_type="inout", qualifier="unspecified",
                               initializer=V("LateResolvedType", T("Type", name=low(typ)))))
                continue
            if vt == "external":
                # an external declaration names one variable and carries no initial value
                n = self.name("v")
                typ = r.choice(ELEM)
                lx += [ident(n), sym(":"), kw(typ), sym(";"), N]
                trees.append(T("VarDecl", identifier=V("Symbol", low(n)), var_type="external", qualifier=self.QUAL[q],
                               initializer=simple_init(typ, None)))
                continue
            l, t = self.var_decl(vt, self.QUAL[q], allow_fancy=not (in_function and kwd == "VAR"))
            lx += l
            trees += t
        return lx + [kw("END_VAR"), N], trees

    def located_block(self, incomplete, allow_constant):
        """VAR [qualifier]  name AT %I* : spec ;  (incompletely located, in function blocks and programs)   or
        [name] AT %IX1.2 : simple type [:= value] ;  (located, in programs)  END_VAR"""
        r = self.rng
        q = r.choice([None, "RETAIN", "NON_RETAIN"] + (["CONSTANT"] if allow_constant and not incomplete else []))
        lx = [kw("VAR")] + ([kw(q)] if q else []) + [N]
        trees = []
        for _ in range(r.choice([1, 1, 2, 3])):
            n = self.name("v")
            loc = r.choice("IQM")
            if incomplete:
                lx += [ident(n), kw("AT"), lit("%" + loc + "*"), sym(":")]
                size = "unspecified"
                name = low(n)
                k = r.randrange(6)
                if k == 0:
                    typ = r.choice(ELEM)
                    lx.append(kw(typ))
                    init = simple_init(typ, None)
                elif k == 1:
                    wide = r.random() < 0.5
                    lx.append(kw("WSTRING" if wide else "STRING"))
                    length = None
                    if r.random() < 0.5:
                        length = r.randint(1, 80)
                        lx += [sym("["), lit(str(length)), sym("]")]
                    init = V("String", T("StringInitializer", length=None if length is None else "i:%d" % length,
                                         width="wstring" if wide else "string", initial_value=None))
                elif k == 2:
                    tn = self.name("Ty")
                    lx.append(ident(tn))
                    init = V("EnumeratedType", T("EnumeratedInitialValueAssignment", type_name=T("Type", name=low(tn)), initial_value=None))
                elif k == 3:
                    typ = r.choice(["INT", "SINT", "DINT", "UINT"])
                    lo, hi = r.randrange(0, 5), r.randrange(5, 100)
                    lx += [kw(typ), sym("("), lit(str(lo)), sym(".."), lit(str(hi)), sym(")")]
                    init = V("Subrange", V("Specification", T("SubrangeSpecification", type_name=low(typ),
                                                              subrange=T("Subrange", start="i:%d" % lo, end="i:%d" % hi))))
                elif k == 4:
                    vals = [self.name("E") for _ in range(r.choice([1, 2, 3]))]
                    lx.append(sym("("))
                    for i, v in enumerate(vals):
                        if i:
                            lx.append(sym(","))
                        lx.append(ident(v))
                    lx.append(sym(")"))
                    init = V("EnumeratedValues", T("EnumeratedValuesInitializer", values=[enum_value(v) for v in vals], initial_value=None))
                else:
                    dims = [(r.randrange(0, 3), r.randrange(3, 9)) for _ in range(r.choice([1, 2]))]
                    typ = r.choice(["INT", "BOOL", "DINT"])
                    lx += [kw("ARRAY"), sym("[")]
                    for i, (lo, hi) in enumerate(dims):
                        if i:
                            lx.append(sym(","))
                        lx += [lit(str(lo)), sym(".."), lit(str(hi))]
                    lx += [sym("]"), kw("OF"), kw(typ)]
                    init = V("Array", T("ArrayInitialValueAssignment", initial_values=[],
                                        spec=V("Subranges", T("ArraySubranges", ranges=[T("Subrange", start="i:%d" % lo, end="i:%d" % hi) for lo, hi in dims],
                                                              type_name=T("Type", name=low(typ))))))
            else:
                named = r.random() < 0.8
                sz = r.choice(["X", "B", "W", "D", "L", "", ""])      # no size prefix: a single bit, kept apart from X in the tree
                addr = ".".join(str(r.randrange(0, 10)) for _ in range(r.choice([1, 2, 3])))
                lx += ([ident(n)] if named else []) + [kw("AT"), lit("%" + loc + sz + addr), sym(":")]
                size = sz.lower() if sz else "nil"
                name = low(n) if named else None
                typ = r.choice(["BOOL", "INT", "DINT", "REAL"])
                lx.append(kw(typ))
                val = None
                if r.random() < 0.4 or q == "CONSTANT":
                    vl, val = self.literal_for(typ)
                    lx += [sym(":=")] + vl
                init = simple_init(typ, val)
            lx += [sym(";"), N]
            trees.append(T("VarDecl", identifier=V("Direct", T("DirectVariableIdentifier", name=name,
                                                               address_assignment=T("AddressAssignment", location=low(loc), size=size))),
                           var_type="var", qualifier=self.QUAL[q], initializer=init))
        return lx + [kw("END_VAR"), N], trees

    def external_decl_fix(self):
        pass

    # ---- data types ---------------------------------------------------------------------------
    def type_decl(self):
        r = self.rng
        n = self.name("T")
        k = r.randrange(9)
        lx = [ident(n), sym(":")]
        tn = T("Type", name=low(n))
        if k == 0:
            vals = [self.name("E") for _ in range(r.choice([1, 2, 3, 4]))]
            lx.append(sym("("))
            for i, v in enumerate(vals):
                if i:
                    lx.append(sym(","))
                lx.append(ident(v))
            lx.append(sym(")"))
            dv = None
            if r.random() < 0.5:
                dv = r.choice(vals)
                lx += [sym(":="), ident(dv)]
            tree = V("Enumeration", T("EnumerationDeclaration", type_name=tn, spec_init=T(
                "EnumeratedSpecificationInit", default=None if dv is None else enum_value(dv),
                spec=V("Values", T("EnumeratedSpecificationValues", values=[enum_value(v) for v in vals])))))
        elif k == 1:
            base = self.name("B")
            lx.append(ident(base))
            tree = V("LateBound", T("LateBoundDeclaration", data_type_name=tn, base_type_name=T("Type", name=low(base))))
        elif k == 2:
            base = self.name("B")
            dv = self.name("E")
            lx += [ident(base), sym(":="), ident(dv)]
            tree = V("Enumeration", T("EnumerationDeclaration", type_name=tn, spec_init=T(
                "EnumeratedSpecificationInit", default=enum_value(dv), spec=V("TypeName", T("Type", name=low(base))))))
        elif k == 3:
            typ = r.choice(["INT", "SINT", "DINT", "UINT"])
            lo, hi = r.randrange(-20, 5), r.randrange(5, 100)
            if lo < 0:
                self.known.add("render-negative-literal-blank")
            lx += [kw(typ), sym("("), lit(str(lo)), sym(".."), lit(str(hi)), sym(")")]
            dv = None
            if r.random() < 0.4:
                dv = r.randrange(5)
                lx += [sym(":="), lit(str(dv))]
            tree = V("Subrange", T("SubrangeDeclaration", type_name=tn, default=None if dv is None else "i:%d" % dv,
                                   spec=V("Specification", T("SubrangeSpecification", type_name=low(typ),
                                                             subrange=T("Subrange", start="i:%d" % lo, end="i:%d" % hi)))))
        elif k == 4:
            dims = [(r.randrange(0, 3), r.randrange(3, 9)) for _ in range(r.choice([1, 1, 2]))]
            typ = r.choice(["INT", "BOOL", "DINT"])
            lx += [kw("ARRAY"), sym("[")]
            for i, (lo, hi) in enumerate(dims):
                if i:
                    lx.append(sym(","))
                lx += [lit(str(lo)), sym(".."), lit(str(hi))]
            lx += [sym("]"), kw("OF"), kw(typ)]
            init = []
            if r.random() < 0.4 and typ != "BOOL":
                self.known.add("render-array-initial-values")
                lx += [sym(":="), sym("[")]
                for i in range(r.choice([1, 2, 3])):
                    if i:
                        lx.append(sym(","))
                    if r.random() < 0.3:
                        cnt, x = r.randint(1, 4), r.randrange(50)
                        lx += [lit(str(cnt)), G, sym("("), G, lit(str(x)), G, sym(")")]
                        init.append(T("Repeated", size="i:%d" % cnt, init=V("Constant", int_tree(x))))
                    else:
                        x = r.randrange(50)
                        lx.append(lit(str(x)))
                        init.append(V("Constant", int_tree(x)))
                lx.append(sym("]"))
            tree = V("Array", T("ArrayDeclaration", type_name=tn, init=init,
                                spec=V("Subranges", T("ArraySubranges", ranges=[T("Subrange", start="i:%d" % lo, end="i:%d" % hi) for lo, hi in dims],
                                                      type_name=T("Type", name=low(typ))))))
        elif k == 5:
            typ = r.choice(["INT", "REAL", "BOOL", "DINT"])
            vl, val = self.literal_for(typ)
            lx += [kw(typ), sym(":=")] + vl
            tree = V("Simple", T("SimpleDeclaration", type_name=tn, spec_and_init=simple_init(typ, val)))
        elif k == 6:
            wide = r.random() < 0.4
            length = r.randint(1, 80)
            lx += [kw("WSTRING" if wide else "STRING"), sym("["), lit(str(length)), sym("]")]
            val = None
            if r.random() < 0.5:
                body = r.choice(["", "a", "ab"])
                q = '"' if wide else "'"
                lx += [sym(":="), lit(q + body + q)]
                val = "s:" + body
            tree = V("String", T("StringDeclaration", type_name=tn, length="i:%d" % length, width="wstring" if wide else "string", init=val))
        elif k == 7:
            lx += [kw("STRUCT"), N]
            els = []
            for _ in range(r.choice([1, 2, 3, 4])):
                en = self.name("m")
                kk = r.randrange(5)
                if kk <= 1:
                    typ = r.choice(ELEM)
                    lx += [ident(en), sym(":"), kw(typ)]
                    val = None
                    if r.random() < 0.4:
                        vl, val = self.literal_for(typ)
                        lx += [sym(":=")] + vl
                    init = simple_init(typ, val)
                elif kk == 2 and r.random() < 0.5:
                    typ = r.choice(["INT", "SINT", "DINT", "UINT"])
                    lo, hi = r.randrange(0, 5), r.randrange(5, 100)
                    lx += [ident(en), sym(":"), kw(typ), sym("("), lit(str(lo)), sym(".."), lit(str(hi)), sym(")")]
                    sdef = None
                    if r.random() < 0.4:
                        lx += [sym(":="), lit(str(lo))]
                        self.known.add("subrange-default-in-structure-element-dropped")
                        sdef = "i:%d" % lo
                    init = V("Subrange", V("Specification", T("SubrangeSpecification", type_name=low(typ),
                                                              subrange=T("Subrange", start="i:%d" % lo, end="i:%d" % hi))))
                    if sdef is not None:
                        # the default has to be somewhere in the element; the tree has no place for it (recorded finding)
                        lx += [sym(";"), N]
                        els.append(T("StructureElementDeclaration", name=low(en), init=init, default=sdef))
                        continue
                elif kk == 2:
                    t2 = self.name("Ty")
                    lx += [ident(en), sym(":"), ident(t2)]
                    init = V("LateResolvedType", T("Type", name=low(t2)))
                elif kk == 3:
                    t2, v2 = self.name("Color"), self.name("Val")
                    lx += [ident(en), sym(":"), ident(t2), sym(":="), ident(v2)]
                    init = V("EnumeratedType", T("EnumeratedInitialValueAssignment", type_name=T("Type", name=low(t2)), initial_value=enum_value(v2)))
                else:
                    vals = [self.name("E") for _ in range(2)]
                    lx += [ident(en), sym(":"), sym("("), ident(vals[0]), sym(","), ident(vals[1]), sym(")")]
                    dv = None
                    if r.random() < 0.5:
                        dv = vals[1]
                        lx += [sym(":="), ident(dv)]
                        self.known.add("inline-enum-default-in-structure-dropped")
                    init = V("EnumeratedValues", T("EnumeratedValuesInitializer", values=[enum_value(v) for v in vals],
                                                   initial_value=None if dv is None else enum_value(dv)))
                lx += [sym(";"), N]
                els.append(T("StructureElementDeclaration", name=low(en), init=init))
            lx.append(kw("END_STRUCT"))
            tree = V("Structure", T("StructureDeclaration", type_name=tn, elements=els))
        else:
            base = self.name("Rec")
            els = [(self.name("m"), r.randrange(50)) for _ in range(r.choice([1, 2]))]
            lx += [ident(base), sym(":="), sym("(")]
            for i, (m, x) in enumerate(els):
                if i:
                    lx.append(sym(","))
                lx += [ident(m), sym(":="), lit(str(x))]
            lx.append(sym(")"))
            self.known.add("structure-initialization-type-declaration-base-dropped")
            tree = V("StructureInitialization", T("StructureInitializationDeclaration", type_name=tn, base_type_name=T("Type", name=low(base)),
                                                  elements_init=[T("StructureElementInit", name=low(m), init=V("Constant", int_tree(x))) for m, x in els]))
        return lx + [sym(";"), N], V("DataTypeDeclaration", tree)

    def type_block(self):
        lx = [kw("TYPE"), N]
        trees = []
        for _ in range(self.rng.choice([1, 1, 2, 3])):
            l, t = self.type_decl()
            lx += l
            trees.append(t)
        return lx + [kw("END_TYPE"), N], trees

    # ---- program organisation units --------------------------------------------------------------
    def pou(self, kind=None, force_sfc=False):
        r = self.rng
        kind = kind or r.choice(["FUNCTION", "FUNCTION_BLOCK", "PROGRAM"])
        n = self.name("P")
        lx = [kw(kind), ident(n)]
        rt = None
        if kind == "FUNCTION":
            rt = r.choice(["INT", "BOOL", "REAL", "DINT"])
            lx += [sym(":"), kw(rt)]
        lx.append(N)
        vars_ = []
        kinds = {"FUNCTION": ["VAR_INPUT", "VAR", "VAR_OUTPUT", "VAR_IN_OUT"], "FUNCTION_BLOCK": None, "PROGRAM": ["VAR", "VAR_INPUT", "VAR_OUTPUT", "VAR_EXTERNAL"]}[kind]
        edges = []
        self.allow_edges = kind == "FUNCTION_BLOCK"
        for _ in range(r.choice([0, 1, 1, 2, 3])):
            l, t = self.var_block(kinds, in_function=(kind == "FUNCTION"))
            lx += l
            vars_ += t
            edges += self.edges
        self.allow_edges = False
        if kind != "FUNCTION" and r.random() < 0.3:
            # variables at (incompletely) given addresses; fully located ones only in programs
            l, t = self.located_block(incomplete=(kind == "FUNCTION_BLOCK" or r.random() < 0.5), allow_constant=True)
            lx += l
            vars_ += t
        if kind != "FUNCTION" and (force_sfc or r.random() < 0.15):
            # the body is a sequential function chart
            l, sfc_tree = self.sfc()
            lx += l + [kw("END_" + kind), N]
            if kind == "FUNCTION_BLOCK":
                return lx, [T("FunctionBlockDeclaration", name=low(n), variables=vars_, edge_variables=edges, body=sfc_tree)]
            return lx, [T("ProgramDeclaration", name=low(n), variables=vars_, access_variables=[], body=sfc_tree)]
        body = self.stmt_list(0, r.choice([0, 1, 2, 3, 4])) if kind != "FUNCTION" else self.stmt_list(0, r.choice([1, 2, 3]))
        lx += self.stmts(body)
        lx += [kw("END_" + kind), N]
        bt = [s.tree() for s in body]
        if kind == "FUNCTION":
            tree = T("FunctionDeclaration", name=low(n), return_type=T("Type", name=low(rt)), variables=vars_, edge_variables=[], body=bt)
        elif kind == "FUNCTION_BLOCK":
            tree = T("FunctionBlockDeclaration", name=low(n), variables=vars_, edge_variables=edges,
                     body=T("Statements", body=bt) if bt else "empty")
        else:
            tree = T("ProgramDeclaration", name=low(n), variables=vars_, access_variables=[],
                     body=T("Statements", body=bt) if bt else "empty")
        return lx, [tree]

    # ---- sequential function charts (the body of a function block or program) -----------------------------------------
    def action_association(self, steps_vars):
        """name ( [qualifier [, time]] [, indicator ...] )"""
        r = self.rng
        an = self.name("act")
        lx = [ident(an), sym("(")]
        q = r.choice([None, "N", "R", "S", "L", "D", "P", "SD", "DS", "SL", "P1", "P0"])
        qt = None
        if q is not None:
            lx.append(ident(q))            # the qualifiers are identifiers for the lexer, matched without regard to case
            if q in ("SD", "DS", "SL", "P1", "P0"):
                variant = {"P1": "PR", "P0": "PF"}.get(q, q)
                lx.append(sym(","))
                if r.random() < 0.5:
                    secs, txt = r.choice([(1, "T#1s"), (5, "T#5s"), (60, "TIME#1m")])
                    lx.append(lit(txt))
                    qt = V(variant, V("Duration", T("DurationLiteral", interval=T("Duration", seconds=str(secs), nanoseconds="0"))))
                else:
                    tv = self.name("tv")
                    lx.append(ident(tv))
                    qt = V(variant, V("VariableName", low(tv)))
            else:
                qt = low(q)
        inds = [self.name("ind") for _ in range(r.choice([0, 0, 1, 2, 3]))]
        for v in inds:
            lx += [sym(","), ident(v)]
        lx.append(sym(")"))
        return lx, T("ActionAssociation", name=low(an), qualifier=qt, indicators=[low(v) for v in inds])

    def step_list(self, names):
        """one step, or a parenthesised list of two to four"""
        r = self.rng
        k = r.choice([1, 1, 1, 2, 3, 4])
        pick = [r.choice(names) for _ in range(k)]
        if k == 1:
            return [ident(pick[0])], [low(pick[0])]
        lx = [sym("(")]
        for i, n in enumerate(pick):
            if i:
                lx.append(sym(","))
            lx.append(ident(n))
        return lx + [sym(")")], [low(n) for n in pick]

    def sfc(self):
        """INITIAL_STEP / STEP / TRANSITION / ACTION elements -> lexemes, the Sfc body tree"""
        r = self.rng
        init = self.name("St")
        names = [init] + [self.name("St") for _ in range(r.choice([1, 2, 3]))]
        lx = [kw("INITIAL_STEP"), ident(init), sym(":"), N, kw("END_STEP"), N]
        elements = []
        todo = [("step", n) for n in names[1:]] + [("transition", None)] * r.choice([1, 2, 3]) + [("action", None)] * r.choice([0, 1, 2])
        r.shuffle(todo)
        for kind, n in todo:
            if kind == "step":
                lx += [kw("STEP"), ident(n), sym(":"), N]
                assoc = []
                for _ in range(r.choice([1, 1, 2, 3])):
                    l, t = self.action_association(names)
                    lx += l + [sym(";"), N]
                    assoc.append(t)
                lx += [kw("END_STEP"), N]
                elements.append(T("Step", name=low(n), action_associations=assoc))
            elif kind == "transition":
                lx.append(kw("TRANSITION"))
                tn = None
                if r.random() < 0.4:
                    tn = self.name("tr")
                    lx.append(ident(tn))
                prio = None
                if r.random() < 0.4:
                    prio = r.randrange(0, 10)
                    lx += [sym("("), ident("PRIORITY"), sym(":="), lit(str(prio)), sym(")")]
                fl, ft = self.step_list(names)
                tl, tt = self.step_list(names)
                cond = self.expr(self.depth - 1)
                lx += [kw("FROM")] + fl + [kw("TO")] + tl + [N, sym(":=")] + self.spell(cond, 0) + [sym(";"), N, kw("END_TRANSITION"), N]
                elements.append(("Transition", {"name": None if tn is None else low(tn), "priority": None if prio is None else str(prio),
                                                "from": ft, "to": tt, "condition": cond.tree()}))
            else:
                an = self.name("act")
                body = self.stmt_list(1, r.choice([0, 1, 2]))
                lx += [kw("ACTION"), ident(an), sym(":"), N] + self.stmts(body) + [kw("END_ACTION"), N]
                bt = [x.tree() for x in body]
                elements.append(T("Action", name=low(an), body=T("Statements", body=bt) if bt else "empty"))
        tree = T("Sfc", networks=[T("Network", initial_step=T("Step", name=low(init), action_associations=[]), elements=elements)])
        return lx, tree

    def global_block(self):
        """VAR_GLOBAL [CONSTANT | RETAIN]  name, name : INT | BOOL [:= value] ;  END_VAR"""
        r = self.rng
        q = r.choice([None, "CONSTANT", "RETAIN"])
        lx = [kw("VAR_GLOBAL")] + ([kw(q)] if q else []) + [N]
        trees = []
        for _ in range(r.choice([1, 2])):
            names = [self.name("g") for _ in range(r.choice([1, 1, 2]))]
            typ = r.choice(["INT", "BOOL", "DINT"])
            for i, n in enumerate(names):
                lx += ([sym(",")] if i else []) + [ident(n)]
            lx += [sym(":"), kw(typ)]
            val = None
            if r.random() < 0.6 or q == "CONSTANT":
                vl, val = self.literal_for(typ)
                lx += [sym(":=")] + vl
            lx += [sym(";"), N]
            trees += [T("VarDecl", identifier=V("Symbol", low(n)), var_type="global", qualifier=self.QUAL[q], initializer=simple_init(typ, val)) for n in names]
        return lx + [kw("END_VAR"), N], trees

    def configuration(self):
        """CONFIGURATION name [globals] RESOURCE name ON name [globals] tasks programs END_RESOURCE END_CONFIGURATION"""
        r = self.rng
        cn = self.name("Cfg")
        lx = [kw("CONFIGURATION"), ident(cn), N]
        cglob = []
        if r.random() < 0.5:
            l, cglob = self.global_block()
            lx += l
            self.known.add("render-configuration-globals")
        rn, on = self.name("Res"), self.name("Plc")
        lx += [kw("RESOURCE"), ident(rn), kw("ON"), ident(on), N]
        rglob = []
        if r.random() < 0.3:
            l, rglob = self.global_block()
            lx += l
            self.known.add("render-configuration-globals")
        tasks, ttrees = [], []
        for _ in range(r.choice([0, 1, 2, 3])):
            t = self.name("Tk")
            tasks.append(t)
            lx += [kw("TASK"), ident(t), sym("(")]
            interval = None
            if r.random() < 0.6:
                ms = r.choice([1, 20, 100, 999, 1000, 1500, 60000])
                txt = r.choice(["T#%dms" % ms, "TIME#%dms" % ms, "t#%dms" % ms])
                lx += [lit("INTERVAL"), sym(":="), lit(txt), sym(",")]
                interval = T("DurationLiteral", interval=T("Duration", seconds=str(ms // 1000), nanoseconds=str((ms % 1000) * 1000000)))
                self.known.add("render-task-interval-keyword")
            pr = r.randrange(0, 65536) if r.random() < 0.2 else r.randrange(10)
            lx += [lit("PRIORITY"), sym(":="), lit(str(pr)), sym(")"), sym(";"), N]
            ttrees.append(T("TaskConfiguration", name=low(t), priority=str(pr), interval=interval))
        ptrees = []
        np_ = r.choice([1, 1, 2, 3])
        for j in range(np_):
            pn, ty = self.name("inst"), self.name("Prg")
            st = r.choice([None, None, None, "RETAIN", "NON_RETAIN"])
            lx += [kw("PROGRAM")] + ([kw(st)] if st else []) + [ident(pn)]
            task = None
            if tasks and r.random() < 0.7:
                task = r.choice(tasks)
                lx += [kw("WITH"), ident(task)]
            lx += [sym(":"), ident(ty)] + ([G] if j == np_ - 1 else []) + [sym(";"), N]      # the last ';' follows directly
            ptrees.append(T("ProgramConfiguration", name=low(pn), storage={None: None, "RETAIN": "retain", "NON_RETAIN": "nonretain"}[st],
                            task_name=low(task) if task else None, type_name=low(ty), fb_tasks=[], sinks=[], sources=[]))
        lx += [kw("END_RESOURCE"), N, kw("END_CONFIGURATION"), N]
        res = T("ResourceDeclaration", name=low(rn), resource=low(on), global_vars=rglob, tasks=ttrees, programs=ptrees)
        return lx, [T("ConfigurationDeclaration", name=low(cn), global_var=cglob, resource_decl=[res], fb_inits=[], located_var_inits=[])]

    def library(self, n=None):
        lx = []
        trees = []
        for _ in range(n or self.rng.choice([1, 1, 2, 3, 4])):
            k = self.rng.random()
            if k < 0.12:
                l, t = self.configuration()
            elif k < 0.38:
                l, t = self.type_block()
            else:
                l, t = self.pou()
            lx += l
            trees += t
        return lx, T("Library", elements=trees)


def gen_unit(rng, depth=3):
    if rng.random() < 0.12:
        # a unit that is one sequential function chart and exercises no recorded finding, so that a fault in the chart's
        # elements is not attributed to something else in the unit
        for _ in range(40):
            g = DeclGen(rng, min(depth, 2))
            lx, trees = g.pou(rng.choice(["FUNCTION_BLOCK", "PROGRAM"]), force_sfc=True)
            if not g.known:
                return lx, T("Library", elements=trees), g.known
    g = DeclGen(rng, depth)
    lx, tree = g.library()
    return lx, tree, g.known
