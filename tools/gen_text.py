"""Lexical-level generators: token soups with every trivia / error shape the lexer properties
quantify over.  All randomness comes from the rng passed in (derived from VERIF_SEED)."""
import glob
import os

KEYWORDS = None


def keywords(repo=None):
    repo = repo or os.environ.get("VERIF_REPO", "/repo")
    """alphabetic literal tokens of token.rs (read from the generated table's source)"""
    global KEYWORDS
    if KEYWORDS is None:
        import re
        src = open(os.path.join(repo, "compiler/parser/src/token.rs"), encoding="utf-8").read()
        KEYWORDS = [m for m in re.findall(r'#\[token\("([A-Za-z_]+)"', src)]
    return KEYWORDS


def fixtures(repo=None):
    repo = repo or os.environ.get("VERIF_REPO", "/repo")
    out = []
    for p in sorted(glob.glob(os.path.join(repo, "compiler/resources/test/*.st"))):
        try:
            out.append((os.path.basename(p), open(p, encoding="utf-8").read()))
        except UnicodeDecodeError:
            pass
    return out


PUNCT = ["(", ")", "[", "]", ",", ";", ":", ".", "..", "#", "&", "=", "<>", "<", ">", "<=", ">=", "/", "*", "+",
         "-", "**", ":=", "=>", "{", "}"]

CORPUS = [
    "", "?", "a?b", "é", "aéb", "(*", "(* x", "(*)", "(**)", "(***)", "(* a **)", "(* a ***)", "'abc", "'a'b'",
    "\"x", "%", "%I", "%I1", "%IX1.2", "%I1.", "%IX", "%ix1", "16#G", "16#FG", "16#f", "1.", "1.x", "1.5e", "1.5e+",
    "1.5e+3", "1..2", "1._", "1_._1", "..", ".", ". .", "a\rb", "a\r\nb", "//x\r\ny", "//x\ry", "//x", "/ /", "a\fb",
    "x:=y", "x:==>y", "<=>", "<>=", "**", "***", "&", "{", "}", "END_IF;\nx", "a\tb", "\x00",
    "(* c *) x", "a ? b", "x (* é *) y", "'é' z", "'a\nb' c", "(* a\nb *) c", "(* a\r\nb *) c\r\nd",
    "IF a THEN END_IF END_IF x", "END_IF (* c *) ; x", "END_IF\n;\nx", "END_IF", "end_if x", "END_IF ?",
    "(*@KEY@:DESCRIPTION*)\nany é text\n(*@KEY@:END_DESCRIPTION*)\nx := 1;",
    "x (*@KEY@:DESCRIPTION*) ü€𝄞 (*@KEY@:END_DESCRIPTION*) y\nz",
    "(*@KEY@:END_DESCRIPTION*) a (*@KEY@:DESCRIPTION*) b",
    "(*@KEY@:DESCRIPTION*) a",
    "(*@KEY@:DESCRIPTION*)(*@KEY@:END_DESCRIPTION*)",
    "(*@KEY@:DESCRIPTION*) *) x (*@KEY@:END_DESCRIPTION*) y",
    "a (*@KEY@:DESCRIPTION*) b (*@KEY@:DESCRIPTION*) c (*@KEY@:END_DESCRIPTION*) d (*@KEY@:END_DESCRIPTION*) e",
    "(*@KEY@:DESCRIPTION*) a (*@KEY@:END_DESCRIPTION*) x := ; (*@KEY@:DESCRIPTION*) b (*@KEY@:END_DESCRIPTION*)",
    "(*@KEY@:DESCRIPTION*) a (*@KEY@:END_DESCRIPTION*)\nx ? y\n(*@KEY@:DESCRIPTION*)\n(* b *)\n(*@KEY@:END_DESCRIPTION*)\nz",
    "x (*@KEY@:END_DESCRIPTION*) y (*@KEY@:DESCRIPTION*) é (*@KEY@:END_DESCRIPTION*) z (*@KEY@:DESCRIPTION*) w",
    "T#1h_30m", "t#1.5s", "TOD#12:00:00", "D#2020-01-01", "DT#2020-01-01-12:00:00.5", "INT#-5", "16#FF_FF",
    "2#1010_1", "8#17", "%QX1.2.3", "%MW10", "%I*", "%q*", "BOOL#1", "x.y[1,2].z", "a**b", "a<=b>=c<>d",
    "VAR_IN_OUT", "var_in_out", "Var_In_Out x", "FUNCTION_BLOCKX", "END_FUNCTION_BLOCK", "TOD", "DT", "DATE_AND_TIME",
    "\ufeffx := 1;", "\ufeff", "x\ufeffy", "\ufeffPROGRAM p\nVAR x : INT; END_VAR\nx := 1;\nEND_PROGRAM\n", "\u00a0x", "x\u2028y",
    "x\u0085y", "\ufeff(* c *) x", "\ufeff\ufeffx", "\u200bx y", "\ufffe x",
    "mod", "MOD", "Mod", "not", "NOT", "AND", "and", "OR", "xor", "R_EDGE", "f_edge", "EN", "ENO", "eno1", "_x", "x_", "__",
]


def rand_ident(rng):
    first = "abcdefghijklmnopqrstuvwxyzABCDEFGHIJKLMNOPQRSTUVWXYZ_"
    rest = first + "0123456789"
    n = rng.choice([1, 1, 2, 3, 5, 8])
    return rng.choice(first) + "".join(rng.choice(rest) for _ in range(n - 1))


def rand_case(rng, s):
    m = rng.randrange(4)
    if m == 0:
        return s.upper()
    if m == 1:
        return s.lower()
    if m == 2:
        return s.capitalize()
    return "".join(c.upper() if rng.random() < 0.5 else c.lower() for c in s)


def rand_number(rng):
    k = rng.randrange(8)
    d = lambda n: "".join(rng.choice("0123456789") for _ in range(n))
    if k == 0:
        return d(rng.randrange(1, 6))
    if k == 1:
        return d(2) + "_" + d(3)
    if k == 2:
        return "16#" + "".join(rng.choice("0123456789ABCDEF_") for _ in range(rng.randrange(1, 6))).lstrip("_") or "16#0"
    if k == 3:
        return "2#" + "".join(rng.choice("01") for _ in range(rng.randrange(1, 9)))
    if k == 4:
        return "8#" + "".join(rng.choice("01234567") for _ in range(rng.randrange(1, 5)))
    if k == 5:
        return d(rng.randrange(1, 4)) + "." + d(rng.randrange(1, 4))
    if k == 6:
        return d(1) + "." + d(2) + rng.choice("eE") + rng.choice(["", "+", "-"]) + d(rng.randrange(1, 3))
    return "%" + rng.choice("IQMiqm") + rng.choice(["", "X", "B", "W", "D", "L", "x", "w"]) + \
        ".".join(rng.choice("0123456789") for _ in range(rng.randrange(1, 4)))


NONASCII = ["é", "ü", "ß", "€", "中", "𝄞", " ", "ñ"]


def rand_comment(rng, allow_nonascii=True):
    body_parts = []
    for _ in range(rng.randrange(0, 6)):
        k = rng.randrange(10)
        if k == 0:
            body_parts.append("\n")
        elif k == 1:
            body_parts.append("\r\n")
        elif k == 2 and allow_nonascii:
            body_parts.append(rng.choice(NONASCII))
        elif k == 3:
            body_parts.append("(")
        elif k == 4:
            # stars inside the body, alone and in runs, followed by a blank or directly by text (seed C08m: a comment pattern
            # that no longer takes two adjacent stars in the middle of a comment, as in commented-out  x ** 2)
            body_parts.append(rng.choice(["* ", "* ", "** ", "**x", "*** ", "*x", " x ** 2; "]))
        elif k == 5:
            body_parts.append(" x := 1; ")
        elif k == 6:
            body_parts.append("\t")
        else:
            body_parts.append(rand_ident(rng) + " ")
    body = "".join(body_parts)
    # a body that the comment pattern of token.rs accepts: no "*)" inside, and not ending in '*'
    body = body.replace("*)", "* )")
    if body.endswith("*"):
        body += " "
    return "(*" + body + "*)"


def rand_trivia(rng, allow_nonascii=True, must=False):
    parts = []
    n = rng.choice([1, 1, 1, 2, 3]) if must else rng.choice([0, 1, 1, 2, 3])
    for _ in range(n):
        k = rng.randrange(12)
        if k < 5:
            parts.append(" " * rng.randrange(1, 4))
        elif k == 5:
            parts.append("\t")
        elif k == 6:
            parts.append("\n")
        elif k == 7:
            parts.append("\r\n")
        elif k == 8:
            parts.append("\f")
        elif k < 11:
            parts.append(rand_comment(rng, allow_nonascii))
        else:
            parts.append("\n   ")
    return "".join(parts)


def rand_string(rng):
    q = rng.choice("'\"")
    body = "".join(rng.choice(["a", "b", " ", "$", rng.choice(NONASCII), "1", "(*", "\n" if rng.random() < 0.2 else "x"])
                   for _ in range(rng.randrange(0, 6)))
    body = body.replace(q, "")
    return q + body + q


def token_soup(rng, n=None, errors=True, oscat=True):
    """a text made of random lexemes separated by random trivia; mostly valid tokens, with an
    occasional lexical error, OSCAT block or unterminated construct at the end"""
    n = n or rng.choice([1, 2, 3, 5, 8, 13, 21, 40])
    kws = keywords()
    parts = []
    for _ in range(n):
        k = rng.randrange(20)
        if k < 5:
            parts.append(rand_case(rng, rng.choice(kws)))
        elif k < 9:
            parts.append(rand_ident(rng))
        elif k < 12:
            parts.append(rand_number(rng))
        elif k < 15:
            parts.append(rng.choice(PUNCT))
        elif k == 15:
            parts.append(rand_string(rng))
        elif k == 16:
            parts.append("//" + rand_ident(rng) + rng.choice(["\n", "\r\n", ""]))
        elif k == 17 and errors:
            parts.append(rng.choice(["?", "!", "@", "$", "\\", "^", "`", "~", "|", "\r", "%", "\x01"]))
        elif k == 18 and oscat and rng.random() < 0.3:
            parts.append("(*@KEY@:DESCRIPTION*)" + rng.choice(["", " text ", "\n é ü\n", " 𝄞 x *) y "]) + "(*@KEY@:END_DESCRIPTION*)")
        else:
            parts.append(rand_case(rng, rng.choice(["END_IF", "IF", "THEN", "END_IF", ";"])))
        # adjacent lexemes may merge; that is fine for a soup: both sides lex the same text
        parts.append(rand_trivia(rng))
    text = "".join(parts)
    if errors and rng.random() < 0.05:
        text += rng.choice(["(* open", "'open", "\"open", "(*)"])
    return text
