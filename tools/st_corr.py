"""Correspondence of the statement / expression parser model (Model/StParser.v, Model/StInstance.v; the subject of
C01_statements_faithful, C01_function_block_body, C08_statement_respelling) with parse_program, three ways:
   what the text means (the generator's tree)  vs  parse_program's tree  vs  the extracted model's tree,
on generated statement bodies in the canonical and in random spellings, and model vs parse_program (accepted / rejected and
the tree) on token-level mutants of such bodies, most of which are not valid."""
import debugtree
import gen_prog
import gen_st
import vlib
from gen_prog import kw, ident, sym, lit
from vlib import hexs

VOC = [sym(";"), sym("("), sym(")"), sym(","), sym(":="), sym("=>"), sym("+"), sym("-"), sym("*"), kw("NOT"), kw("IF"), kw("THEN"),
       kw("ELSIF"), kw("ELSE"), kw("END_IF"), kw("FOR"), kw("TO"), kw("BY"), kw("DO"), kw("END_FOR"), kw("WHILE"), kw("END_WHILE"),
       kw("REPEAT"), kw("UNTIL"), kw("END_REPEAT"), kw("EXIT"), kw("RETURN"), ident("a"), ident("b"), lit("1"), lit("'s'"), kw("TRUE"),
       kw("AND"), sym("<"), sym("."), sym("["), sym("]"), kw("CASE"), kw("OF"), kw("END_CASE"), sym(":"), sym(".."), lit("2")]


def impl_tree(r):
    if "ok" in r:
        tr = debugtree.compact(debugtree.norm(debugtree.parse(r["ok"])))
        got = gen_st.sx_of_library(tr)
        return "OUTSIDE-NOTATION" if got is None else got
    if "err" in r:
        return "REJECTED"
    return "CRASH:" + str(r.get("panic") or r.get("abort"))


def check(run, info, n_valid, n_mutants, tag):
    rng = run.rng
    valid = []
    for i in range(n_valid):
        g = gen_st.G_(rng, depth=rng.choice([1, 2, 3]))
        sx, lx = g.body()
        valid.append((sx, gen_prog.render(lx, None)))
        for _ in range(2):
            valid.append((sx, gen_prog.render(lx, gen_prog.Spelling(rng, respell=True, nonascii=rng.random() < 0.3))))
    mutants = []
    for i in range(n_mutants):
        g = gen_st.G_(rng, depth=rng.choice([1, 2]))
        sx, lx = g.body()
        lx = list(lx)
        for _ in range(rng.choice([1, 1, 2, 3])):
            if len(lx) <= 3:
                break
            j = rng.randrange(2, len(lx) - 1)
            r = rng.random()
            if r < 0.35:
                del lx[j]
            elif r < 0.6:
                lx.insert(j, rng.choice(VOC))
            elif r < 0.8:
                lx[j] = rng.choice(VOC)
            else:
                lx.insert(j, lx[j])
        mutants.append(gen_prog.render(lx, None))
    texts = [t for _, t in valid] + mutants
    res = vlib.run_impl([{"id": i, "op": "parse", "text": hexs(t)} for i, t in enumerate(texts)], run.workdir, per_case_timeout=30)
    model = vlib.run_model([("stmts", i, [hexs(t)]) for i, t in enumerate(texts)], run.workdir) if info.get("extract_ok") else {}
    stats = {"valid": 0, "mutant-accepted": 0, "mutant-rejected": 0, "model-scope": 0, "model-fuel": 0}
    # how many of the generated spellings satisfy the decidable hypothesis of C01_spelled_text_is_faithful (its conclusion is what
    # the three-way comparison below checks for all of them)
    tok_ok = vlib.run_model([("textok", i, [hexs(t)]) for i, (_, t) in enumerate(valid)], run.workdir) if info.get("extract_ok") else {}
    for i, (_, t) in enumerate(valid):
        r = tok_ok.get(str(i))
        if r and r[0] in ("0", "1"):
            run.count(("textok", t), False, "text-check:%s:%s" % ("passes" if r[0] == "1" else "does-not-pass", tag))
            if len(r) > 1 and r[1] != "1" and "?" not in t:
                run.violation("correspondence", "the tokens the lexer model reads from a generated body do not spell its text: %r" % t[:100],
                              {"input": {"text": t}}, no_input=True)
    for i, t in enumerate(texts):
        got = impl_tree(res[i])
        m = model.get(str(i))
        mm = None
        if m:
            mm = m[1] if m[0] == "parsed" and len(m) > 1 else {"rejected": "REJECTED", "scope": "SCOPE", "fuel": "FUEL"}.get(m[0], m[0])
        is_valid = i < len(valid)
        run.count(("st", t), True, "statement-model:" + ("valid" if is_valid else "mutant") + ":" + tag)
        if got.startswith("CRASH"):
            run.violation("impl-violates-property", "parse_program crashed on a statement body: %s" % got, {"input": {"text": t}})
            continue
        if is_valid:
            want = valid[i][0]
            stats["valid"] += 1
            if got != want:
                run.violation("impl-violates-property", "statement body %r is parsed as %s, it means %s" % (t[:120], got[:200], want[:200]),
                              {"input": {"text": t}, "family": "statement-model", "parsed": got, "means": want})
                continue
        else:
            stats["mutant-accepted" if got != "REJECTED" else "mutant-rejected"] += 1
        if mm is None:
            continue
        if mm == "FUEL":
            stats["model-fuel"] += 1
            run.violation("correspondence", "the statement parser model ran out of fuel on %r" % t[:120], {"input": {"text": t}}, no_input=True)
            continue
        if mm == "SCOPE":
            stats["model-scope"] += 1
            if is_valid:
                run.violation("correspondence", "the statement parser model declares a body of its own sub-language outside its scope: %r" % t[:120],
                              {"input": {"text": t}}, no_input=True)
            continue
        run.cov["traces_validated_against_impl"] += 1
        if mm != got:
            run.cov["disagreements_checked"] += 1
            run.violation("correspondence", "statement parser model and parse_program disagree on %r: model %s, parser %s" % (t[:120], mm[:160], got[:160]),
                          {"input": {"text": t}, "model": mm, "parser": got}, no_input=True)
    return stats


def check_render(run, info, n_bodies, tag):
    """renderer model (Model/StRender.v, the subject of C10_statements_parse_render) vs write_to_string: the significant
    tokens written for the statement list of a generated function block body"""
    rng = run.rng
    texts = []
    sxs = []
    for k in range(n_bodies):
        with gen_st.mode(reals=False):
            g = gen_st.G_(rng, depth=rng.choice([1, 2, 3]), empties=(k % 4 == 0))
            sx, lx = g.body()
        texts.append(gen_prog.render(lx, None))
        sxs.append(sx)
    res = vlib.run_impl([{"id": i, "op": "roundtrip", "text": hexs(t)} for i, t in enumerate(texts)], run.workdir, per_case_timeout=30)
    rendered = []
    for r in res:
        rendered.append(bytes.fromhex(r["render1"]).decode("utf-8", "replace") if isinstance(r.get("render1"), str) and r.get("render1") != "err" else None)
    tok = vlib.run_impl([{"id": i, "op": "tok", "text": hexs(t or "")} for i, t in enumerate(rendered)], run.workdir, per_case_timeout=30)
    model = vlib.run_model([("strender", i, [hexs(t)]) for i, t in enumerate(texts)], run.workdir) if info.get("extract_ok") else {}
    # the hypotheses of C10_text_round_trip, evaluated: the decidable check of the rendering holds, and parsing the TEXT the
    # renderer model writes (lexer model, terminator insertion, parser model) gives back the statements; the text is also
    # given to the real tokenizer, whose tokens must be the ones the model rendered
    rt = vlib.run_model([("textrt", i, [hexs(t)]) for i, t in enumerate(texts)], run.workdir) if info.get("extract_ok") else {}
    rt_texts = {}
    for i, t in enumerate(texts):
        r = rt.get(str(i))
        if not r or r[0] != "rt":
            continue
        guarded = "i:-" not in sxs[i]
        run.count(("textrt", t), True, "text-round-trip:" + tag + (":guarded" if guarded else ":negative-constant"))
        mtxt = "".join(chr(int(c, 16)) for c in r[3].split(".") if c)
        rt_texts[i] = mtxt
        if guarded and (r[1] != "1" or r[2] != "1"):
            run.violation("correspondence", "the hypotheses of C10_text_round_trip do not hold for the rendering of %r: text_ok=%s, text parsed back=%s" % (
                t[:100], r[1], r[2]), {"input": {"text": t}, "model_text": mtxt}, no_input=True)
    if rt_texts:
        ids = sorted(rt_texts)
        tk2 = vlib.run_impl([{"id": j, "op": "tok", "text": hexs(rt_texts[i])} for j, i in enumerate(ids)], run.workdir, per_case_timeout=30)
        for j, i in enumerate(ids):
            m = model.get(str(i))
            if not m or m[0] != "rendered":
                continue
            body = _model_tokens(m[1] if len(m) > 1 else "")
            real = _sig_tokens(tk2[j].get("tokens", []))
            if len(real) < 3:
                continue
            a = [(k, x if k in KEEP else "", g) for k, x, g in real[2:-1]]
            b = [(k, x if k in KEEP else "", g) for k, x, g in body]
            if tk2[j].get("diags") or [x[:2] for x in a] != [x[:2] for x in b]:
                run.cov["disagreements_checked"] += 1
                run.violation("correspondence", "the text the renderer model writes is tokenized differently by the implementation: %r" % (rt_texts[i][:120],),
                              {"input": {"text": rt_texts[i]}}, no_input=True)
    compared = 0
    for i, t in enumerate(texts):
        run.count(("strender", t), True, "renderer-model:" + tag)
        m = model.get(str(i))
        if rendered[i] is None or not m or m[0] != "rendered":
            continue
        # without trivia and without the synthetic ';' the tokenizer inserts after END_IF (empty text)
        toks = _sig_tokens(tok[i].get("tokens", []))
        # FUNCTION_BLOCK name <statements> END_FUNCTION_BLOCK
        if len(toks) < 3 or toks[0][0] != "FunctionBlock" or toks[-1][0] != "EndFunctionBlock":
            continue
        impl = toks[2:-1]
        mod = _model_tokens(m[1] if len(m) > 1 else "")
        a = _comparable(impl)
        b = _comparable(mod)
        compared += 1
        run.cov["traces_validated_against_impl"] += 1
        if a != b:
            run.cov["disagreements_checked"] += 1
            j = next((j for j in range(min(len(a), len(b))) if a[j] != b[j]), min(len(a), len(b)))
            run.violation("correspondence", "renderer model and write_to_string write different tokens for %r: at token %d the model has %r, the renderer %r" % (
                t[:100], j, b[j:j + 3], a[j:j + 3]), {"input": {"text": t}, "rendered": rendered[i]}, no_input=True)
    return compared


DVOC = [kw("VAR"), kw("VAR_INPUT"), kw("VAR_OUTPUT"), kw("VAR_IN_OUT"), kw("VAR_EXTERNAL"), kw("END_VAR"), kw("CONSTANT"), kw("RETAIN"),
        kw("NON_RETAIN"), kw("R_EDGE"), kw("F_EDGE"), kw("BOOL"), kw("INT"), kw("TOD"), kw("LREAL"), ident("d1"), ident("T2"), sym(":"), sym(";"),
        sym(","), sym(":="), lit("5"), kw("TRUE"), sym("-"), sym("+"), sym("#"), sym("("), lit("'s'")]


def impl_fbd(r):
    if "ok" in r:
        tr = debugtree.compact(debugtree.norm(debugtree.parse(r["ok"])))
        got = gen_st.sx_fbd_of_library(tr)
        return "OUTSIDE-NOTATION" if got is None else got
    if "err" in r:
        return "REJECTED"
    return "CRASH:" + str(r.get("panic") or r.get("abort"))


def check_fbd(run, info, n_valid, n_mutants, tag):
    """the declaration parser model (Model/DeclParser.v with Model/StParser.v through parse_fbd_text) three ways on generated
    function blocks with variable declaration blocks, and model vs parse_program on token-level mutants of them"""
    rng = run.rng
    valid = []
    for i in range(n_valid):
        vs, es, ss, lx = gen_st.fbd_body(rng, depth=rng.choice([1, 1, 2]))
        valid.append(((vs, es, ss), gen_prog.render(lx, None)))
        for _ in range(2):
            valid.append(((vs, es, ss), gen_prog.render(lx, gen_prog.Spelling(rng, respell=True, nonascii=rng.random() < 0.3))))
    mutants = []
    for i in range(n_mutants):
        vs, es, ss, lx = gen_st.fbd_body(rng, depth=1)
        lx = list(lx)
        nd = max(3, len([x for x in lx]) // 2)
        for _ in range(rng.choice([1, 1, 2, 3])):
            if len(lx) <= 3:
                break
            # most mutations fall into the declaration part (the front of the lexeme list)
            j = rng.randrange(2, min(len(lx) - 1, nd + 2)) if rng.random() < 0.8 else rng.randrange(2, len(lx) - 1)
            r = rng.random()
            if r < 0.35:
                del lx[j]
            elif r < 0.6:
                lx.insert(j, rng.choice(DVOC))
            elif r < 0.8:
                lx[j] = rng.choice(DVOC)
            else:
                lx.insert(j, lx[j])
        mutants.append(gen_prog.render(lx, None))
    texts = [t for _, t in valid] + mutants
    res = vlib.run_impl([{"id": i, "op": "parse", "text": hexs(t)} for i, t in enumerate(texts)], run.workdir, per_case_timeout=30)
    model = vlib.run_model([("fbd", i, [hexs(t)]) for i, t in enumerate(texts)], run.workdir) if info.get("extract_ok") else {}
    stats = {"valid": 0, "mutant-accepted": 0, "mutant-rejected": 0, "model-scope": 0, "model-fuel": 0}
    for i, t in enumerate(texts):
        got = impl_fbd(res[i])
        m = model.get(str(i))
        mm = None
        if m:
            mm = tuple(m[1:4]) if m[0] == "parsed" and len(m) >= 4 else {"rejected": "REJECTED", "scope": "SCOPE", "fuel": "FUEL"}.get(m[0], m[0])
        is_valid = i < len(valid)
        run.count(("fbd", t), True, "declaration-model:" + ("valid" if is_valid else "mutant") + ":" + tag)
        if isinstance(got, str) and got.startswith("CRASH"):
            run.violation("impl-violates-property", "parse_program crashed on a function block with declarations: %s" % got, {"input": {"text": t}})
            continue
        if is_valid:
            want = valid[i][0]
            stats["valid"] += 1
            if got != want:
                run.violation("impl-violates-property", "function block %r is parsed as %s, it means %s" % (t[:140], str(got)[:240], str(want)[:240]),
                              {"input": {"text": t}, "family": "declaration-model", "parsed": got, "means": want})
                continue
        else:
            stats["mutant-accepted" if got != "REJECTED" else "mutant-rejected"] += 1
        if mm is None:
            continue
        if mm == "FUEL":
            stats["model-fuel"] += 1
            run.violation("correspondence", "the declaration parser model ran out of fuel on %r" % t[:120], {"input": {"text": t}}, no_input=True)
            continue
        if mm == "SCOPE":
            stats["model-scope"] += 1
            if is_valid:
                run.violation("correspondence", "the declaration parser model declares a text of its own sub-language outside its scope: %r" % t[:120],
                              {"input": {"text": t}}, no_input=True)
            continue
        run.cov["traces_validated_against_impl"] += 1
        if mm != got:
            run.cov["disagreements_checked"] += 1
            run.violation("correspondence", "declaration parser model and parse_program disagree on %r: model %s, parser %s" % (
                t[:140], str(mm)[:200], str(got)[:200]), {"input": {"text": t}, "model": mm, "parser": got}, no_input=True)
    return stats


def check_render_fbd(run, info, n, tag):
    """renderer model for function blocks with declarations (Model/StRender.v render_decls + render_list, the subject of
    C10_declarations_parse_render) vs write_to_string: the significant tokens between FUNCTION_BLOCK name and END_FUNCTION_BLOCK"""
    rng = run.rng
    texts = []
    nostmt = []
    for k in range(n):
        with gen_st.mode(reals=False):
            vs, es, ss, lx = gen_st.fbd_body(rng, depth=rng.choice([1, 1, 2]))
        texts.append(gen_prog.render(lx, None))
        nostmt.append(ss == "()")
    res = vlib.run_impl([{"id": i, "op": "roundtrip", "text": hexs(t)} for i, t in enumerate(texts)], run.workdir, per_case_timeout=30)
    rendered = []
    for r in res:
        rendered.append(bytes.fromhex(r["render1"]).decode("utf-8", "replace") if isinstance(r.get("render1"), str) and r.get("render1") != "err" else None)
    tok = vlib.run_impl([{"id": i, "op": "tok", "text": hexs(t or "")} for i, t in enumerate(rendered)], run.workdir, per_case_timeout=30)
    model = vlib.run_model([("fbdrender", i, [hexs(t)]) for i, t in enumerate(texts)], run.workdir) if info.get("extract_ok") else {}
    compared = 0
    for i, t in enumerate(texts):
        run.count(("fbdrender", t), True, "declaration-renderer-model:" + tag)
        m = model.get(str(i))
        if rendered[i] is None or not m or m[0] != "rendered":
            continue
        toks = _sig_tokens(tok[i].get("tokens", []))
        if len(toks) < 3 or toks[0][0] != "FunctionBlock" or toks[-1][0] != "EndFunctionBlock":
            continue
        impl = toks[2:-1]
        mod = _model_tokens(m[1] if len(m) > 1 else "")
        a = _comparable(impl)
        b = _comparable(mod)
        # a body of empty statements only is Statements([]) in the tree and is written ';'; the model's list of statements
        # is empty both for it and for no body at all
        if nostmt[i] and a and a[-1][:2] == ("Semicolon", "") and len(a) == len(b) + 1:
            a = a[:-1]
        compared += 1
        run.cov["traces_validated_against_impl"] += 1
        if a != b:
            run.cov["disagreements_checked"] += 1
            j = next((j for j in range(min(len(a), len(b))) if a[j] != b[j]), min(len(a), len(b)))
            run.violation("correspondence", "renderer model and write_to_string write different tokens for %r: at token %d the model has %r, the renderer %r" % (
                t[:100], j, b[j:j + 3], a[j:j + 3]), {"input": {"text": t}, "rendered": rendered[i]}, no_input=True)
    return compared


def _sig_tokens(toklist):
    """the significant tokens (kind, text, whether trivia stands before the token) of a tokenizer result; the ';' the tokenizer
    inserts after END_IF (empty text) is left out"""
    out = []
    gap = False
    for x in toklist:
        if x[0] in ("Whitespace", "Newline", "Comment"):
            gap = True
            continue
        if x[0] == "Semicolon" and x[5] == "":
            continue
        out.append((x[0], bytes.fromhex(x[5]).decode("utf-8", "replace"), gap))
        gap = False
    return out


def _model_tokens(field):
    """the same of the renderer model's answer: [+]kind:texthex separated by blanks"""
    out = []
    for w in (field.split(" ") if field else []):
        gap = w.startswith("+")
        k, h = w.lstrip("+").split(":", 1)
        out.append((k, "".join(chr(int(c, 16)) for c in h.split(".") if c), gap))
    return out


KEEP = ("Identifier", "Digits", "SingleByteString", "DoubleByteString")


def _comparable(toks):
    """kind, the text where it carries meaning, and where blanks stand (the first token's surroundings are not the model's)"""
    # (a negative constant is the recorded negative-literal rendering: the renderer glues its '-' to what stands before and puts a
    # blank after it, 'NOT- 12'; the model writes 'NOT - 12'; whether a blank stands before a '-' that precedes digits is not compared)
    # the same for the digits after a '-' (a negative initial value is written '- 1'; the model of declarations has '-1', outside its guard)
    return [(k, x if k in KEEP else "", g or j == 0 or (k == "Minus" and j + 1 < len(toks) and toks[j + 1][0] == "Digits")
             or (k == "Digits" and toks[j - 1][0] == "Minus"))
            for j, (k, x, g) in enumerate(toks)]


def _drop_lonely_semicolons(a):
    """a unit whose body holds empty statements only is Statements([]) in the tree and is written ';': drop a ';' that
    stands between the declarations (or the unit's name) and the closing keyword"""
    out = []
    for j, t in enumerate(a):
        k = t[0]
        if k == "Semicolon" and j + 1 < len(a) and a[j + 1][0] in ("EndFunctionBlock", "EndProgram"):
            prev = a[j - 1][0] if j >= 1 else ""
            prev2 = a[j - 2][0] if j >= 2 else ""
            if prev == "EndVar" or (prev == "Identifier" and prev2 in ("FunctionBlock", "Program")):
                continue
        out.append(t)
    return out


def check_render_lib2(run, info, n, tag):
    """renderer model for whole libraries (Model/LibRender.v render_lib2, the subject of C10_library_parse_render) vs
    write_to_string: all significant tokens of the rendered library"""
    rng = run.rng
    texts = []
    for k in range(n):
        with gen_st.mode(reals=False):
            us, lx = gen_st.lib2_elements(rng, depth=rng.choice([1, 1, 2]))
        if _without_program_edges(us) != us:
            continue                      # the recorded finding: the library does not hold the edge inputs of a program
        texts.append(gen_prog.render(lx, None if rng.random() < 0.6 else gen_prog.Spelling(rng, respell=True, nonascii=False)))
    res = vlib.run_impl([{"id": i, "op": "roundtrip", "text": hexs(t)} for i, t in enumerate(texts)], run.workdir, per_case_timeout=30)
    rendered = []
    for r in res:
        rendered.append(bytes.fromhex(r["render1"]).decode("utf-8", "replace") if isinstance(r.get("render1"), str) and r.get("render1") != "err" else None)
    tok = vlib.run_impl([{"id": i, "op": "tok", "text": hexs(t or "")} for i, t in enumerate(rendered)], run.workdir, per_case_timeout=30)
    model = vlib.run_model([("lib2render", i, [hexs(t)]) for i, t in enumerate(texts)], run.workdir) if info.get("extract_ok") else {}
    compared = 0
    keep = ("Identifier", "Digits", "SingleByteString", "DoubleByteString")
    for i, t in enumerate(texts):
        run.count(("lib2render", t), True, "library-renderer-model:" + tag)
        m = model.get(str(i))
        if rendered[i] is None or not m or m[0] != "rendered":
            continue
        impl = _sig_tokens(tok[i].get("tokens", []))
        mod = _model_tokens(m[1] if len(m) > 1 else "")
        a = _drop_lonely_semicolons(_comparable(impl))
        b = _comparable(mod)
        compared += 1
        run.cov["traces_validated_against_impl"] += 1
        if a != b:
            run.cov["disagreements_checked"] += 1
            j = next((j for j in range(min(len(a), len(b))) if a[j] != b[j]), min(len(a), len(b)))
            run.violation("correspondence", "library renderer model and write_to_string write different tokens for %r: at token %d the model has %r, the renderer %r" % (
                t[:100], j, b[j:j + 3], a[j:j + 3]), {"input": {"text": t}, "rendered": rendered[i]}, no_input=True)
    return compared


LVOC = DVOC + [kw("FUNCTION_BLOCK"), kw("END_FUNCTION_BLOCK"), kw("PROGRAM"), kw("END_PROGRAM"), ident("u9"), kw("IF"), kw("END_IF"), kw("THEN")]
KNOWN_PROGRAM_EDGES = "program-edge-inputs-dropped"


def impl_units(r):
    if "ok" in r:
        tr = debugtree.compact(debugtree.norm(debugtree.parse(r["ok"])))
        got = gen_st.sx_units_of_library(tr)
        return "OUTSIDE-NOTATION" if got is None else got
    if "err" in r:
        return "REJECTED"
    return "CRASH:" + str(r.get("panic") or r.get("abort"))


def _without_program_edges(units):
    """the expected units with the edge inputs of programs removed (the recorded finding: the parser drops them)"""
    out = []
    for u in units:
        if u.startswith("(program "):
            # (program name (vars) (edges) stmts): blank the second parenthesised group
            depth, i, groups = 0, 0, []
            start = None
            for j, ch in enumerate(u):
                if ch == "(":
                    depth += 1
                    if depth == 2:
                        start = j
                elif ch == ")":
                    if depth == 2:
                        groups.append((start, j))
                    depth -= 1
            if len(groups) >= 2:
                a, b = groups[1]
                u = u[:a] + "()" + u[b + 1:]
        out.append(u)
    return out


def check_lib(run, info, n_valid, n_mutants, tag):
    """the library model (Model/StInstance.v parse_lib_text: function blocks and programs with declaration blocks and
    statements) three ways on generated libraries, and model vs parse_program on token-level mutants"""
    rng = run.rng
    known_keys = {x["key"] for x in run.known}
    valid = []
    for i in range(n_valid):
        us, lx = gen_st.lib_units(rng, depth=rng.choice([1, 1, 2]))
        valid.append((us, gen_prog.render(lx, None)))
        valid.append((us, gen_prog.render(lx, gen_prog.Spelling(rng, respell=True, nonascii=rng.random() < 0.3))))
    mutants = []
    for i in range(n_mutants):
        us, lx = gen_st.lib_units(rng, depth=1)
        lx = list(lx)
        for _ in range(rng.choice([1, 1, 2, 3])):
            if len(lx) <= 3:
                break
            j = rng.randrange(0, len(lx))
            r = rng.random()
            if r < 0.35:
                del lx[j]
            elif r < 0.6:
                lx.insert(j, rng.choice(LVOC))
            elif r < 0.8:
                lx[j] = rng.choice(LVOC)
            else:
                lx.insert(j, lx[j])
        mutants.append(gen_prog.render(lx, None))
    texts = [t for _, t in valid] + mutants
    res = vlib.run_impl([{"id": i, "op": "parse", "text": hexs(t)} for i, t in enumerate(texts)], run.workdir, per_case_timeout=30)
    model = vlib.run_model([("lib", i, [hexs(t)]) for i, t in enumerate(texts)], run.workdir) if info.get("extract_ok") else {}
    stats = {"valid": 0, "mutant-accepted": 0, "mutant-rejected": 0, "model-scope": 0, "model-fuel": 0, "known-program-edges": 0}
    for i, t in enumerate(texts):
        got = impl_units(res[i])
        m = model.get(str(i))
        mm = None
        if m:
            mm = list(m[1:]) if m[0] == "parsed" else {"rejected": "REJECTED", "scope": "SCOPE", "fuel": "FUEL"}.get(m[0], m[0])
        is_valid = i < len(valid)
        run.count(("lib", t), True, "library-model:" + ("valid" if is_valid else "mutant") + ":" + tag)
        if isinstance(got, str) and got.startswith("CRASH"):
            run.violation("impl-violates-property", "parse_program crashed on a library of function blocks and programs: %s" % got, {"input": {"text": t}})
            continue
        if is_valid:
            want = valid[i][0]
            stats["valid"] += 1
            if got != want:
                if KNOWN_PROGRAM_EDGES in known_keys and got == _without_program_edges(want):
                    stats["known-program-edges"] += 1
                    run.known_finding(KNOWN_PROGRAM_EDGES, "the edge-detecting inputs (R_EDGE / F_EDGE) of a PROGRAM are parsed and then dropped: the library does not hold them")
                else:
                    run.violation("impl-violates-property", "library %r is parsed as %s, it means %s" % (t[:140], str(got)[:240], str(want)[:240]),
                                  {"input": {"text": t}, "family": "library-model", "parsed": got, "means": want})
                    continue
        else:
            stats["mutant-accepted" if got != "REJECTED" else "mutant-rejected"] += 1
        if mm is None:
            continue
        if mm == "FUEL":
            stats["model-fuel"] += 1
            run.violation("correspondence", "the library model ran out of fuel on %r" % t[:120], {"input": {"text": t}}, no_input=True)
            continue
        if mm == "SCOPE":
            stats["model-scope"] += 1
            if is_valid:
                run.violation("correspondence", "the library model declares a text of its own sub-language outside its scope: %r" % t[:120],
                              {"input": {"text": t}}, no_input=True)
            continue
        run.cov["traces_validated_against_impl"] += 1
        if mm != got and not (isinstance(mm, list) and KNOWN_PROGRAM_EDGES in known_keys and got == _without_program_edges(mm)):
            run.cov["disagreements_checked"] += 1
            run.violation("correspondence", "library model and parse_program disagree on %r: model %s, parser %s" % (
                t[:140], str(mm)[:200], str(got)[:200]), {"input": {"text": t}, "model": mm, "parser": got}, no_input=True)
    return stats


TVOC = LVOC + [kw("FUNCTION"), kw("END_FUNCTION"), sym(":"), kw("TYPE"), kw("END_TYPE"), kw("ARRAY"), kw("OF"), sym("["), sym("]"), sym(".."), sym(")"), ident("Ty1"), kw("SINT"), kw("REAL"), lit("3")]


def impl_elements(r):
    if "ok" in r:
        tr = debugtree.compact(debugtree.norm(debugtree.parse(r["ok"])))
        got = gen_st.sx_elements_of_library(tr)
        return "OUTSIDE-NOTATION" if got is None else got
    if "err" in r:
        return "REJECTED"
    return "CRASH:" + str(r.get("panic") or r.get("abort"))


def check_lib2(run, info, n_valid, n_mutants, tag):
    """the library model with TYPE blocks (parse_lib2_text) three ways on generated libraries, and model vs parse_program on
    token-level mutants (concentrated in TYPE blocks)"""
    rng = run.rng
    known_keys = {x["key"] for x in run.known}
    valid = []
    for i in range(n_valid):
        us, lx = gen_st.lib2_elements(rng, depth=1)
        valid.append((us, gen_prog.render(lx, None)))
        valid.append((us, gen_prog.render(lx, gen_prog.Spelling(rng, respell=True, nonascii=rng.random() < 0.3))))
    mutants = []
    for i in range(n_mutants):
        if rng.random() < 0.4:
            o, lx = gen_st.lib2_elements(rng, depth=1)          # TYPE blocks, functions, function blocks and programs
        else:
            t = gen_st.T_(rng)
            o, lx = t.block(0)
            if rng.random() < 0.3:
                us, ul = gen_st.lib_units(rng, depth=1)
                lx = lx + ul
        lx = list(lx)
        for _ in range(rng.choice([1, 1, 2, 3])):
            if len(lx) <= 3:
                break
            j = rng.randrange(0, len(lx))
            r = rng.random()
            if r < 0.35:
                del lx[j]
            elif r < 0.6:
                lx.insert(j, rng.choice(TVOC))
            elif r < 0.8:
                lx[j] = rng.choice(TVOC)
            else:
                lx.insert(j, lx[j])
        mutants.append(gen_prog.render(lx, None))
    texts = [t for _, t in valid] + mutants
    res = vlib.run_impl([{"id": i, "op": "parse", "text": hexs(t)} for i, t in enumerate(texts)], run.workdir, per_case_timeout=30)
    model = vlib.run_model([("lib2", i, [hexs(t)]) for i, t in enumerate(texts)], run.workdir) if info.get("extract_ok") else {}
    stats = {"valid": 0, "mutant-accepted": 0, "mutant-rejected": 0, "model-scope": 0, "model-fuel": 0, "known-program-edges": 0}
    for i, t in enumerate(texts):
        got = impl_elements(res[i])
        m = model.get(str(i))
        mm = None
        if m:
            mm = list(m[1:]) if m[0] == "parsed" else {"rejected": "REJECTED", "scope": "SCOPE", "fuel": "FUEL"}.get(m[0], m[0])
        is_valid = i < len(valid)
        run.count(("lib2", t), True, "type-library-model:" + ("valid" if is_valid else "mutant") + ":" + tag)
        if isinstance(got, str) and got.startswith("CRASH"):
            run.violation("impl-violates-property", "parse_program crashed on a library with TYPE blocks: %s" % got, {"input": {"text": t}})
            continue
        if is_valid:
            want = valid[i][0]
            stats["valid"] += 1
            if got != want:
                if KNOWN_PROGRAM_EDGES in known_keys and got == _without_program_edges(want):
                    stats["known-program-edges"] += 1
                    run.known_finding(KNOWN_PROGRAM_EDGES, "the edge-detecting inputs (R_EDGE / F_EDGE) of a PROGRAM are parsed and then dropped: the library does not hold them")
                else:
                    run.violation("impl-violates-property", "library %r is parsed as %s, it means %s" % (t[:140], str(got)[:240], str(want)[:240]),
                                  {"input": {"text": t}, "family": "type-library-model", "parsed": got, "means": want})
                    continue
        else:
            stats["mutant-accepted" if got != "REJECTED" else "mutant-rejected"] += 1
        if mm is None:
            continue
        if mm == "FUEL":
            stats["model-fuel"] += 1
            run.violation("correspondence", "the library model ran out of fuel on %r" % t[:120], {"input": {"text": t}}, no_input=True)
            continue
        if mm == "SCOPE":
            stats["model-scope"] += 1
            if is_valid:
                run.violation("correspondence", "the library model declares a text of its own sub-language outside its scope: %r" % t[:120],
                              {"input": {"text": t}}, no_input=True)
            continue
        run.cov["traces_validated_against_impl"] += 1
        if mm != got and not (isinstance(mm, list) and KNOWN_PROGRAM_EDGES in known_keys and got == _without_program_edges(mm)):
            run.cov["disagreements_checked"] += 1
            run.violation("correspondence", "library model and parse_program disagree on %r: model %s, parser %s" % (
                t[:140], str(mm)[:200], str(got)[:200]), {"input": {"text": t}, "model": mm, "parser": got}, no_input=True)
    return stats
