"""Generator of type-correct, fully declared compilation units inside the fragment the analyzer supports, and of the
documented 'Fails' shape of each semantic rule planted at every applicable site.  A unit is a list of top-level
declarations (TYPE blocks with one type each, FUNCTION_BLOCK, FUNCTION, PROGRAM, CONFIGURATION), so that it can be
permuted, split into files and mutated declaration by declaration.  All randomness comes from the rng passed in."""
import gen_text

RESERVED = None


def reserved():
    global RESERVED
    if RESERVED is None:
        RESERVED = set(k.lower() for k in gen_text.keywords())
    return RESERVED


class Names:
    def __init__(self, rng):
        self.rng = rng
        self.used = set()

    def fresh(self, prefix):
        while True:
            n = "%s%d" % (prefix, self.rng.randrange(1000))
            if n.lower() not in self.used and n.lower() not in reserved():
                self.used.add(n.lower())
                return n


class Decl:
    """one top-level declaration; `lines` is its text; `name` its declared name; `kind` in type|fb|function|program|configuration"""

    def __init__(self, kind, name, lines, info=None):
        self.kind = kind
        self.name = name
        self.lines = lines
        self.info = info or {}

    def text(self):
        return "\n".join(self.lines) + "\n"

    def copy(self):
        return Decl(self.kind, self.name, list(self.lines), dict(self.info))


def render(decls):
    return "\n".join(d.text() for d in decls)


INT_TYPES = ["INT", "DINT", "SINT", "UINT", "LINT"]


class Gen:
    def __init__(self, rng):
        self.rng = rng
        self.names = Names(rng)

    # ---- expressions and statements over declared variables --------------------------------
    def int_expr(self, ints, d=0):
        r = self.rng
        if d > 2 or r.random() < 0.4 or not ints:
            return r.choice(ints) if ints and r.random() < 0.7 else str(r.randrange(100))
        op = r.choice(["+", "-", "*", "/", "MOD"])
        return "(%s %s %s)" % (self.int_expr(ints, d + 1), op, self.int_expr(ints, d + 1))

    def bool_expr(self, ints, bools, d=0):
        r = self.rng
        if d > 2 or r.random() < 0.4:
            if bools and r.random() < 0.5:
                return r.choice(bools)
            return "%s %s %s" % (self.int_expr(ints, 2), r.choice(["<", ">", "<=", ">=", "=", "<>"]), self.int_expr(ints, 2))
        k = r.randrange(3)
        if k == 0:
            return "NOT (%s)" % self.bool_expr(ints, bools, d + 1)
        return "(%s) %s (%s)" % (self.bool_expr(ints, bools, d + 1), r.choice(["AND", "OR", "XOR"]), self.bool_expr(ints, bools, d + 1))

    def stmts(self, ints, bools, fbcalls, d=0, n=None):
        r = self.rng
        out = []
        for _ in range(n if n is not None else r.randint(1, 3)):
            k = r.randrange(9 if d < 2 else 3)
            ind = "  " * (d + 1)
            if k <= 1 and ints:
                out.append("%s%s := %s;" % (ind, r.choice(ints), self.int_expr(ints)))
            elif k == 2 and bools:
                out.append("%s%s := %s;" % (ind, r.choice(bools), self.bool_expr(ints, bools)))
            elif k == 3:
                out.append("%sIF %s THEN" % (ind, self.bool_expr(ints, bools)))
                out += self.stmts(ints, bools, fbcalls, d + 1)
                if r.random() < 0.4:
                    out.append("%sELSIF %s THEN" % (ind, self.bool_expr(ints, bools)))
                    out += self.stmts(ints, bools, fbcalls, d + 1)
                if r.random() < 0.5:
                    out.append("%sELSE" % ind)
                    out += self.stmts(ints, bools, fbcalls, d + 1)
                out.append("%sEND_IF;" % ind)
            elif k == 4 and ints:
                out.append("%sCASE %s OF" % (ind, r.choice(ints)))
                out.append("%s  1, 2:" % ind)
                out += self.stmts(ints, bools, fbcalls, d + 2, 1)
                out.append("%s  5..7:" % ind)
                out += self.stmts(ints, bools, fbcalls, d + 2, 1)
                if r.random() < 0.5:
                    out.append("%sELSE" % ind)
                    out += self.stmts(ints, bools, fbcalls, d + 1, 1)
                out.append("%sEND_CASE;" % ind)
            elif k == 5 and ints:
                out.append("%sFOR %s := 1 TO 10 BY 2 DO" % (ind, r.choice(ints)))
                out += self.stmts(ints, bools, fbcalls, d + 1)
                out.append("%sEND_FOR;" % ind)
            elif k == 6:
                out.append("%sWHILE %s DO" % (ind, self.bool_expr(ints, bools)))
                out += self.stmts(ints, bools, fbcalls, d + 1)
                out.append("%sEND_WHILE;" % ind)
            elif k == 7:
                out.append("%sREPEAT" % ind)
                out += self.stmts(ints, bools, fbcalls, d + 1)
                out.append("%sUNTIL %s END_REPEAT;" % (ind, self.bool_expr(ints, bools)))
            elif fbcalls:
                out.append(ind + r.choice(fbcalls))
            elif ints:
                out.append("%s%s := %s;" % (ind, r.choice(ints), self.int_expr(ints)))
        if not out:
            # a statement list is never empty
            ind = "  " * (d + 1)
            if ints:
                out.append("%s%s := %s;" % (ind, r.choice(ints), self.int_expr(ints)))
            elif bools:
                out.append("%s%s := %s;" % (ind, r.choice(bools), self.bool_expr(ints, bools)))
            else:
                out.append("%s;" % ind)
        return out

    # ---- declarations ------------------------------------------------------------------------
    def enum_type(self):
        n = self.names.fresh("Color")
        vals = [self.names.fresh("V") for _ in range(self.rng.randint(2, 4))]
        d = Decl("type", n, ["TYPE", "  %s : (%s) := %s;" % (n, ", ".join(vals), vals[0]), "END_TYPE"],
                 {"tkind": "enum", "values": vals})
        return d

    def alias_type(self, target):
        """T : target;  -- the reference may be spelled in another letter case"""
        n = self.names.fresh("Alias")
        ref = target.name
        k = self.rng.randrange(3)
        ref = ref.upper() if k == 0 else ref.lower() if k == 1 else ref
        return Decl("type", n, ["TYPE", "  %s : %s;" % (n, ref), "END_TYPE"],
                    {"tkind": "alias", "values": target.info["values"], "of": target.name})

    def struct_type(self, enums=()):
        n = self.names.fresh("Rec")
        els = [(self.names.fresh("e"), self.rng.choice(INT_TYPES + ["BOOL"])) for _ in range(self.rng.randint(2, 4))]
        if enums and self.rng.random() < 0.6:
            # an element of an enumeration type WITH an initial value: no edge of the declaration graph joins the two types, so
            # their order after the sort is whatever the order of the declarations makes it
            e = self.rng.choice(list(enums))
            els.insert(self.rng.randrange(len(els) + 1), (self.names.fresh("e"), "%s := %s" % (e.name, self.rng.choice(e.info["values"]))))
        lines = ["TYPE", "  %s : STRUCT" % n] + ["    %s : %s;" % e for e in els] + ["  END_STRUCT;", "END_TYPE"]
        return Decl("type", n, lines, {"tkind": "struct", "elements": els})

    def subrange_type(self):
        n = self.names.fresh("Rng")
        lo = self.rng.randrange(-50, 50)
        hi = lo + self.rng.randint(1, 100)
        return Decl("type", n, ["TYPE", "  %s : INT (%d..%d);" % (n, lo, hi), "END_TYPE"], {"tkind": "subrange", "lo": lo, "hi": hi})

    def array_type(self):
        n = self.names.fresh("Arr")
        return Decl("type", n, ["TYPE", "  %s : ARRAY [1..%d] OF INT;" % (n, self.rng.randint(2, 9)), "END_TYPE"], {"tkind": "array"})

    def fb(self, callee=None, enums=(), shadow=None):
        """a function block; `callee` = an fb Decl to instantiate and call; `shadow` = the name of a global variable this
        block does not use: it declares a local constant of that name (scopes are per unit, so this is valid)"""
        r = self.rng
        n = self.names.fresh("Fb")
        ins = [(self.names.fresh("i"), r.choice(["INT", "BOOL"])) for _ in range(r.randint(1, 3))]
        outs = [(self.names.fresh("o"), r.choice(["INT", "BOOL"])) for _ in range(r.randint(1, 2))]
        locs = [(self.names.fresh("l"), r.choice(["INT", "BOOL"])) for _ in range(r.randint(1, 3))]
        # some boolean inputs detect an edge (R_EDGE / F_EDGE): inputs like the others for the body and for callers
        edges = {v: r.choice(["R_EDGE", "F_EDGE"]) for v, t in ins if t == "BOOL" and r.random() < 0.4}
        lines = ["FUNCTION_BLOCK %s" % n, "VAR_INPUT"] + ["  %s : %s%s;" % (v, t, " " + edges[v] if v in edges else "") for v, t in ins] + ["END_VAR", "VAR_OUTPUT"] + \
                ["  %s : %s;" % v for v in outs] + ["END_VAR", "VAR"] + ["  %s : %s;" % v for v in locs]
        info = {"inputs": ins, "outputs": outs, "locals": locs, "edges": edges}
        calls = []
        if enums and r.random() < 0.6:
            e = r.choice(enums)
            ev = self.names.fresh("ev")
            val = r.choice(e.info["values"])
            if r.random() < 0.35:
                val = "%s#%s" % (e.name, val)          # the value written with its type prefix
            lines.append("  %s : %s := %s;" % (ev, e.name, val))
            info["enum_var"] = (ev, e.name)
        if callee is not None:
            inst = self.names.fresh("inst")
            lines.append("  %s : %s;" % (inst, callee.name))
            info["instance"] = (inst, callee.name)
            calls = self.fb_calls(inst, callee, [v for v, t in ins + outs + locs if t == "INT"], [v for v, t in ins + outs + locs if t == "BOOL"])
            info["calls"] = calls
        lines.append("END_VAR")
        if shadow is not None:
            lines += ["VAR CONSTANT", "  %s : INT := 3;" % shadow, "END_VAR"]
            info["shadow"] = shadow
        allv = ins + outs + locs
        # a character string local; the last statements of the block assign a string and an enumeration value (what the
        # resolution of one declaration knows about the type of its last assignment target must not reach the next one)
        sv = None
        if r.random() < 0.5:
            sv = self.names.fresh("s")
            k = next(j for j, l in enumerate(lines) if l == "VAR")
            lines.insert(k + 1, "  %s : STRING;" % sv)
        body = self.stmts([v for v, t in allv if t == "INT"], [v for v, t in allv if t == "BOOL"], calls)
        bools = [v for v, t in allv if t == "BOOL"]
        ints = [v for v, t in allv if t == "INT" and (v, t) not in ins]
        head = []
        if bools and ints and r.random() < 0.6:
            head = ["  IF %s THEN" % r.choice(bools), "    %s := 1;" % r.choice(ints), "  END_IF;"]
        tail = []
        if "enum_var" in info and r.random() < 0.6:
            ev, en = info["enum_var"]
            e = next(x for x in enums if x.name == en)
            tail.append("  %s := %s;" % (ev, r.choice(e.info["values"])))
        if sv is not None:
            tail.append("  %s := 'hello';" % sv)
            if r.random() < 0.5:
                tail.reverse()
        info["body_start"] = len(lines)
        lines += head + body + tail + ["END_FUNCTION_BLOCK"]
        return Decl("fb", n, lines, info)

    def fb_calls(self, inst, callee, ints, bools):
        """valid invocations of `callee` through instance `inst`: formal (inputs and outputs) and positional"""
        def val(t):
            pool = ints if t == "INT" else bools
            return self.rng.choice(pool) if pool else ("1" if t == "INT" else "TRUE")
        ins = callee.info["inputs"]
        outs = callee.info["outputs"]
        formal = ["%s := %s" % (n, val(t)) for n, t in ins]
        formal_out = []
        for n, t in outs:
            pool = ints if t == "INT" else bools
            if pool:
                formal_out.append("%s => %s" % (n, self.rng.choice(pool)))
        calls = ["%s(%s);" % (inst, ", ".join(formal + formal_out)),
                 "%s(%s);" % (inst, ", ".join(val(t) for n, t in ins)),
                 "%s(%s);" % (inst, ", ".join(formal[:1]))]
        return calls

    def function(self, callee=None):
        """a function; `callee` = an fb Decl the function declares an instance of (and invokes): the instance is local to the
        function like any other variable -- what a rule remembers about it must not reach the unit visited next"""
        r = self.rng
        n = self.names.fresh("Fn")
        ins = [(self.names.fresh("a"), "INT") for _ in range(r.randint(1, 3))]
        loc = self.names.fresh("t")
        lines = ["FUNCTION %s : INT" % n, "VAR_INPUT"] + ["  %s : %s;" % v for v in ins] + ["END_VAR", "VAR", "  %s : INT;" % loc]
        info = {"inputs": ins, "local": loc}
        calls = []
        if callee is not None:
            inst = self.names.fresh("inst")
            lines.append("  %s : %s;" % (inst, callee.name))
            info["instance"] = (inst, callee.name)
            calls = self.fb_calls(inst, callee, [v for v, _ in ins] + [loc], [])[:1]
        lines.append("END_VAR")
        info["body_start"] = len(lines)
        lines += self.stmts([v for v, _ in ins] + [loc], [], []) + calls + ["  %s := %s;" % (n, self.int_expr([v for v, _ in ins] + [loc])), "END_FUNCTION"]
        return Decl("function", n, lines, info)

    def program(self, callee=None, glob=None, name=None):
        r = self.rng
        n = name or self.names.fresh("Prog")
        locs = [(self.names.fresh("p"), r.choice(["INT", "BOOL"])) for _ in range(r.randint(2, 4))]
        lines = ["PROGRAM %s" % n, "VAR"] + ["  %s : %s;" % v for v in locs]
        info = {"locals": locs}
        calls = []
        if callee is not None:
            inst = self.names.fresh("inst")
            lines.append("  %s : %s;" % (inst, callee.name))
            calls = self.fb_calls(inst, callee, [v for v, t in locs if t == "INT"], [v for v, t in locs if t == "BOOL"])
            info["instance"] = (inst, callee.name)
            info["calls"] = calls
        lines.append("END_VAR")
        ints = [v for v, t in locs if t == "INT"]
        if glob is not None:
            gname, gconst = glob
            lines += ["VAR_EXTERNAL%s" % (" CONSTANT" if gconst else ""), "  %s : INT;" % gname, "END_VAR"]
            info["external"] = glob
            if not gconst:
                ints = ints + [gname]
        info["body_start"] = len(lines)
        lines += self.stmts(ints, [v for v, t in locs if t == "BOOL"], calls) + ["END_PROGRAM"]
        return Decl("program", n, lines, info)

    def configuration(self, prog, glob=None):
        n = self.names.fresh("Conf")
        res = self.names.fresh("Res")
        task = self.names.fresh("Tsk")
        inst = self.names.fresh("run")
        lines = ["CONFIGURATION %s" % n]
        gl = []
        if glob is not None:
            gname, gconst = glob
            gl = ["  VAR_GLOBAL%s" % (" CONSTANT" if gconst else ""), "    %s : INT := 7;" % gname, "  END_VAR"]
        # the global variables stand at configuration level or at resource level
        at_resource = glob is not None and self.rng.random() < 0.4
        if not at_resource:
            lines += gl
        lines += ["  RESOURCE %s ON PLC" % res] + (gl if at_resource else []) + [
                  "    TASK %s(INTERVAL := T#100ms, PRIORITY := 1);" % task,
                  "    PROGRAM %s WITH %s : %s;" % (inst, task, prog.name), "  END_RESOURCE", "END_CONFIGURATION"]
        return Decl("configuration", n, lines, {"task": task, "program": prog.name, "global": glob})


def gen_valid(rng):
    """a valid unit: list of Decl"""
    g = Gen(rng)
    decls = []
    enums = [g.enum_type() for _ in range(rng.randint(0, 2))]
    decls += enums
    # alias chains (up to two levels) over the enumerations
    for e in list(enums):
        if rng.random() < 0.5:
            a1 = g.alias_type(e)
            decls.append(a1)
            enums.append(a1)
            if rng.random() < 0.5:
                a2 = g.alias_type(a1)
                decls.append(a2)
                enums.append(a2)
    if rng.random() < 0.5:
        decls.append(g.struct_type(enums))
    for mk in (g.subrange_type, g.array_type):
        if rng.random() < 0.5:
            decls.append(mk())
    glob = None
    if rng.random() < 0.5:
        glob = (g.names.fresh("G"), rng.random() < 0.5)
    fbs = []
    for _ in range(rng.randint(1, 3)):
        callee = rng.choice(fbs) if fbs and rng.random() < 0.7 else None
        # a local constant may carry the name of a global variable of the configuration: another scope
        shadow = glob[0] if glob is not None and rng.random() < 0.3 else None
        fbs.append(g.fb(callee, enums, shadow))
    decls += fbs
    if rng.random() < 0.5:
        fn = g.function(rng.choice(fbs) if rng.random() < 0.5 else None)
        # the function's INT local may carry the name of a function block's ENUMERATION variable: scopes are per unit, so this is
        # valid, and what a transformation learns about a name in one unit must not reach the next (seed C06m: the kinds of a
        # function's variables kept for the units folded after it, first insertion wins)
        shared = [f.info["enum_var"][0] for f in fbs if "enum_var" in f.info]
        if shared and rng.random() < 0.6:
            import re as _re
            ev = rng.choice(shared)
            fn.lines = [_re.sub(r"\b%s\b" % _re.escape(fn.info["local"]), ev, l) for l in fn.lines]
            fn.info["local"] = ev
        decls.append(fn)
    prog = g.program(rng.choice(fbs) if rng.random() < 0.8 else None, glob)
    decls.append(prog)
    if glob is not None or rng.random() < 0.5:
        decls.append(g.configuration(prog, glob))
        if rng.random() < 0.35:
            decls.append(g.configuration(prog, None))     # a second configuration (its own resource, task, instance)
    rng.shuffle(decls)
    return decls


# ---------------------------------------------------------------------------------------------
# faults: each returns a list of (rule code, description, mutated unit)
# ---------------------------------------------------------------------------------------------
def mutants(decls, rng):
    out = []

    def with_decl(i, newdecl):
        c = [d.copy() for d in decls]
        c[i] = newdecl
        return c

    for i, d in enumerate(decls):
        if d.kind == "type" and d.info.get("tkind") == "struct":
            els = d.info["elements"]
            for k in range(1, len(els)):
                nd = d.copy()
                # line index of element k is 2 + k; give it the name of an earlier element (in another letter case)
                dup = els[rng.randrange(k)][0]
                nd.lines[2 + k] = "    %s : %s;" % (dup.upper() if rng.random() < 0.5 else dup, els[k][1])
                out.append(("P0003", "structure element %d renamed to earlier element %s" % (k, dup), with_decl(i, nd)))
            if len(els) >= 3:
                # one name used three times, in different letter cases: two diagnostics, both naming the first use
                j = rng.randrange(len(els) - 2)
                k1 = rng.randrange(j + 1, len(els) - 1)
                k2 = rng.randrange(k1 + 1, len(els))
                dup = els[j][0]
                nd = d.copy()
                nd.lines[2 + k1] = "    %s : %s;" % (dup.upper(), els[k1][1])
                nd.lines[2 + k2] = "    %s : %s;" % (dup.capitalize() if rng.random() < 0.5 else dup, els[k2][1])
                out.append(("P0003", "structure elements %d and %d renamed to earlier element %s" % (k1, k2, dup), with_decl(i, nd)))
        if d.kind == "type" and d.info.get("tkind") == "subrange":
            lo = d.info["lo"]
            for hi in (lo, lo - 1, lo - 100):
                nd = d.copy()
                nd.lines[1] = "  %s : INT (%d..%d);" % (d.name, lo, hi)
                out.append(("P0004", "subrange %d..%d" % (lo, hi), with_decl(i, nd)))
        if d.kind == "type" and d.info.get("tkind") == "enum":
            vals = d.info["values"]
            for k in range(1, len(vals)):
                nv = list(vals)
                nv[k] = nv[rng.randrange(k)]
                nd = d.copy()
                nd.lines[1] = "  %s : (%s) := %s;" % (d.name, ", ".join(nv), nv[0])
                out.append(("P0005", "enumeration value %d duplicated" % k, with_decl(i, nd)))
        if d.kind in ("fb", "function", "program"):
            bs = d.info["body_start"]
            end = len(d.lines) - 1
            # an undeclared variable on the left of a new assignment at every statement boundary of the top level
            sites = [j for j in range(bs, end + 1) if j == end or d.lines[j].startswith("  ") and not d.lines[j].startswith("    ")]
            for j in sites[:6]:
                nd = d.copy()
                nd.lines.insert(j, "  undeclared_%d := 1;" % j)
                out.append(("P0015", "assignment to an undeclared variable before line %d of %s" % (j, d.name), with_decl(i, nd)))
            # an undeclared variable as the condition of an ELSIF / WHILE / UNTIL that follows an assignment to a variable of an
            # enumeration type (what the statement before leaves behind must not decide how the condition's name is read)
            en = next((x for x in decls if x.kind == "type" and x.info.get("tkind") == "enum"), None)
            if en is not None and d.kind != "function":
                val = en.info["values"][-1]
                forms = [("ELSIF", ["  IF FALSE THEN", "    e_tmp_q := %s;" % val, "  ELSIF undeclared_c THEN", "    e_tmp_q := %s;" % val, "  END_IF;"]),
                         ("WHILE", ["  e_tmp_q := %s;" % val, "  WHILE undeclared_c DO", "    e_tmp_q := %s;" % val, "  END_WHILE;"]),
                         ("UNTIL", ["  REPEAT", "    e_tmp_q := %s;" % val, "  UNTIL undeclared_c END_REPEAT;"])]
                kw_, body_ = forms[rng.randrange(len(forms))]
                nd = d.copy()
                nd.lines[end:end] = body_
                nd.lines[bs:bs] = ["VAR", "  e_tmp_q : %s := %s;" % (en.name, en.info["values"][0]), "END_VAR"]
                out.append(("P0015", "undeclared variable as the %s condition after an enumeration assignment in %s" % (kw_, d.name), with_decl(i, nd)))
            # the name of a function declared elsewhere, used as if it were a variable of this POU
            for x in decls:
                if x.kind == "function" and x is not d and d.kind != "function":
                    tgt = next((v for v, t in d.info.get("locals", []) if t == "INT"), None)
                    if tgt:
                        nd = d.copy()
                        nd.lines.insert(end, "  %s := %s;" % (tgt, x.name if rng.random() < 0.5 else x.name.upper()))
                        out.append(("P0015", "function name %s used as a variable in %s" % (x.name, d.name), with_decl(i, nd)))
                    break
            # a variable that is declared, but only in another POU (scopes must not leak between POUs)
            others = [x for x in decls if x is not d and x.kind in ("fb", "program") and x.info.get("locals")]
            own = set(l.split(":")[0].strip().lower() for l in d.lines if ":" in l)
            for x in others[:2]:
                foreign = [v for v, t in x.info["locals"] if t == "INT" and v.lower() not in own]
                if foreign:
                    nd = d.copy()
                    nd.lines.insert(end, "  %s := 1;" % foreign[0])
                    out.append(("P0015", "assignment in %s to %s, which only %s declares" % (d.name, foreign[0], x.name), with_decl(i, nd)))
            if d.kind != "function":
                vl = next(j for j, l in enumerate(d.lines) if l == "VAR")
                # a CONSTANT block of its own, holding one variable without initial value
                nd = d.copy()
                nd.lines.insert(vl, "END_VAR")
                nd.lines.insert(vl, "  k_noinit : INT;")
                nd.lines.insert(vl, "VAR CONSTANT")
                out.append(("P0016", "CONSTANT variable without initial value in %s" % d.name, with_decl(i, nd)))
                if d.kind == "program":
                    # the same for a variable at a given address (located variables are declared in programs)
                    nd = d.copy()
                    nd.lines.insert(vl, "END_VAR")
                    nd.lines.insert(vl, "  k_noinit AT %%MW%d : INT;" % rng.randrange(1, 9))
                    nd.lines.insert(vl, "VAR CONSTANT")
                    out.append(("P0016", "CONSTANT located variable without initial value in %s" % d.name, with_decl(i, nd)))
            if "instance" in d.info:
                inst, callee = d.info["instance"]
                vl = next(j for j, l in enumerate(d.lines) if l == "VAR")
                nd = d.copy()
                nd.lines.insert(vl, "END_VAR")
                nd.lines.insert(vl, "  k_fb : %s;" % callee)
                nd.lines.insert(vl, "VAR CONSTANT")
                out.append(("P0017", "CONSTANT function block instance in %s" % d.name, with_decl(i, nd)))
                callee_decl = next(x for x in decls if x.name == callee)
                ins = callee_decl.info["inputs"]
                outs = callee_decl.info["outputs"]
                end = len(d.lines) - 1
                badcalls = [
                    ("P0007", "formal input name not defined", "%s(nosuch_in := 1);" % inst),
                    ("P0009", "output name not defined", "%s(nosuch_out => %s);" % (inst, d.info.get("locals", d.info.get("inputs"))[0][0])),
                    ("P0006", "formal and positional arguments mixed", "%s(%s := 1, 2);" % (inst, ins[0][0])),
                    ("P0008", "too many positional arguments", "%s(%s);" % (inst, ", ".join(["1"] * (len(ins) + 1)))),
                ]
                if len(ins) > 1:
                    badcalls.append(("P0008", "too few positional arguments", "%s(1);" % inst))
                for code, what, call in badcalls:
                    nd = d.copy()
                    nd.lines.insert(end, "  " + call)
                    out.append((code, "%s in %s" % (what, d.name), with_decl(i, nd)))
            if "enum_var" in d.info:
                ev, en = d.info["enum_var"]
                j = next(k for k, l in enumerate(d.lines) if l.startswith("  %s : %s :=" % (ev, en)))
                nd = d.copy()
                nd.lines[j] = "  %s : %s := %sNOT_A_VALUE;" % (ev, en, (en + "#") if rng.random() < 0.5 else "")
                out.append(("P0014", "initial value not in enumeration %s" % en, with_decl(i, nd)))
            vl = next(j for j, l in enumerate(d.lines) if l in ("VAR", "VAR_INPUT"))
            nd = d.copy()
            std = rng.choice(["TON", "tof", "Tp", "CTU", "ctud_LINT", "R_TRIG", "sr"])
            nd.lines.insert(next(j for j, l in enumerate(d.lines) if l == "VAR") + 1, "  std_inst : %s;" % std)
            out.append(("P0029", "instance of the unsupported standard function block %s in %s" % (std, d.name), with_decl(i, nd)))
            nd = d.copy()
            nd.lines.insert(vl + 1, "  untyped_var : NoSuchType;")
            out.append(("P0022", "variable of an undeclared type in %s" % d.name, with_decl(i, nd)))
        if d.kind in ("fb", "program", "function") and "instance" in d.info:
            # the instance of this unit invoked in another unit that does not declare it: instances are local to their unit
            # (seed C06l: the instances a FUNCTION declares were remembered for the unit visited next)
            inst = d.info["instance"][0]
            for pi, x in enumerate(decls):
                if pi != i and x.kind in ("fb", "program") and x.info.get("instance", (None,))[0] != inst:
                    nd = x.copy()
                    nd.lines.insert(len(nd.lines) - 1, "  %s();" % inst)
                    out.append(("P0021", "instance %s of %s %s invoked in %s, which does not declare it" % (inst, d.kind, d.name, x.name), with_decl(pi, nd)))
                    if d.kind != "function":
                        break
        if d.kind == "configuration" and d.info.get("global"):
            # a program that uses the global without declaring it VAR_EXTERNAL: the name is not in its scope
            gname = d.info["global"][0]
            for pi, x in enumerate(decls):
                if x.kind in ("program", "fb") and not x.info.get("external") and x.info.get("shadow") != gname:
                    nd = x.copy()
                    nd.lines.insert(len(nd.lines) - 1, "  %s := 1;" % gname)
                    out.append(("P0015", "global %s used in %s without VAR_EXTERNAL" % (gname, x.name), with_decl(pi, nd)))
                    break
        if d.kind == "configuration":
            j = next(k for k, l in enumerate(d.lines) if " WITH " in l)
            nd = d.copy()
            nd.lines[j] = nd.lines[j].replace("WITH %s" % d.info["task"], "WITH no_such_task")
            out.append(("P0011", "program associated with an undeclared task", with_decl(i, nd)))
            # ... while a resource of ANOTHER configuration declares a task of that name (in the same or in other letter case): it
            # does not count there, wherever that configuration stands
            tn = rng.choice(["no_such_task", "NO_SUCH_TASK", "No_Such_Task"])
            helper = [Decl("program", "HelperProg_t", ["PROGRAM HelperProg_t", "VAR", "  hq : INT;", "END_VAR", "  hq := 3;", "END_PROGRAM"]),
                      Decl("configuration", "HelperCfg_t",
                           ["CONFIGURATION HelperCfg_t", "  RESOURCE HelperRes_t ON PLC", "    TASK %s(INTERVAL := T#50ms, PRIORITY := 2);" % tn,
                            "    PROGRAM helper_inst WITH %s : HelperProg_t;" % tn, "  END_RESOURCE", "END_CONFIGURATION"],
                           {"task": tn, "program": "HelperProg_t", "global": None})]
            out.append(("P0011", "program associated with a task that only another configuration declares", with_decl(i, nd) + helper))
            if d.info.get("global") and d.info["global"][1]:
                # the program declares the external of a CONSTANT global without CONSTANT
                gname = d.info["global"][0]
                pi = next(k for k, x in enumerate(decls) if x.kind == "program" and x.info.get("external"))
                nd = decls[pi].copy()
                nd.lines = [l.replace("VAR_EXTERNAL CONSTANT", "VAR_EXTERNAL") for l in nd.lines]
                out.append(("P0018", "external of constant global %s declared without CONSTANT" % gname, with_decl(pi, nd)))
    return out
