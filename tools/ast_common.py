"""Shared by C01 / C08 / C10: generated units (lexemes, expected tree, known-finding flags), their spellings, and the
exhaustive expression / statement families."""
import itertools
import random

import gen_ast
import gen_prog
from gen_ast import Bin, Unary, Name, IntConst, Assign, If, Case, For, While, Repeat, Simple, FbCall, T, low


def wrap_program(gen, stmts, name="Pexh"):
    """a PROGRAM around a statement list: lexemes and expected Library tree"""
    lx = [gen_prog.kw("PROGRAM"), gen_prog.ident(name), gen_prog.N] + gen.stmts(stmts) + [gen_prog.kw("END_PROGRAM"), gen_prog.N]
    tree = T("Library", elements=[T("ProgramDeclaration", name=low(name), variables=[], access_variables=[],
                                    body=T("Statements", body=[s.tree() for s in stmts]))])
    return lx, tree


def operator_pair_family(rng):
    """every ordered pair of the 16 binary operator spellings, in both association shapes, with plain and unary operands;
    each written with the minimal parentheses its tree needs (so `a o1 b o2 c` appears whenever IEC 61131-3 B.3.1 allows it)"""
    out = []
    ops = gen_ast.BINOPS
    for o1, o2 in itertools.product(ops, ops):
        for shape in ("left", "right"):
            for unary in (False, True, "parenthesised"):
                g = gen_ast.Gen(rng, redundant_parens=False) if unary != "parenthesised" else _ParenUnaryGen(rng, redundant_parens=False)
                a, b, c = Name("a"), Name("b"), Name("c")
                if unary:
                    a, b, c = Unary("-", a), Unary("NOT", b), Unary("-", c)
                e = Bin(o2, Bin(o1, a, b), c) if shape == "left" else Bin(o1, a, Bin(o2, b, c))
                lx, tree = wrap_program(g, [Assign(Name("r"), e)])
                out.append((lx, tree, "ops:%s:%s:%s%s" % (o1, o2, shape, "" if not unary else ":unary" if unary is True else ":unary-in-parentheses")))
    return out


class _ParenUnaryGen(gen_ast.Gen):
    """writes every unary operand in parentheses of its own: `( - a ) ** b` -- redundant for the grammar, and the spelling
    that tells a renderer relying on the unary operator's binding from one that does not"""

    def spell(self, e, minlevel):
        inner = e.lex(self)
        if isinstance(e, Unary) or e.level < minlevel:
            return [gen_ast.sym("(")] + inner + [gen_ast.sym(")")]
        return inner


def statement_nesting_family(rng):
    """every statement form nested in every statement form (depth 2)"""
    def leaf(g):
        return Assign(Name(g.name("x")), IntConst(1))

    def make(kind, g, inner):
        c = Bin("<", Name(g.name("c")), IntConst(3))
        if kind == "if":
            return If(c, inner, [], None)
        if kind == "if-else":
            return If(c, [leaf(g)], [(c, inner)], inner)
        if kind == "case":
            return Case(Name(g.name("s")), [([1, (2, 4)], inner), ([7], [leaf(g)])], inner)
        if kind == "for":
            return For(g.name("i"), IntConst(1), IntConst(9), IntConst(2), inner)
        if kind == "while":
            return While(c, inner)
        if kind == "repeat":
            return Repeat(inner, c)
        raise ValueError(kind)
    kinds = ["if", "if-else", "case", "for", "while", "repeat"]
    leaves = ["assign", "return", "exit", "fbcall"]
    out = []
    for outer in kinds:
        for inner in kinds + leaves:
            g = gen_ast.Gen(rng, redundant_parens=False)
            if inner in kinds:
                body = [make(inner, g, [leaf(g)]), leaf(g)]
            elif inner == "assign":
                body = [leaf(g)]
            elif inner == "fbcall":
                body = [FbCall(g.name("inst"), [("in", "a", IntConst(1)), ("out", "q", Name(g.name("y")), False)])]
            else:
                body = [Simple(inner.upper())]
            lx, tree = wrap_program(g, [make(outer, g, body)])
            out.append((lx, tree, "nest:%s:%s" % (outer, inner)))
    return out


def spellings(rng, lx, k, nonascii=True):
    """the canonical spelling and k random respellings (keyword case, identifier case, trivia, optional ';')"""
    out = [gen_prog.render(lx)]
    for _ in range(k):
        out.append(gen_prog.render(lx, gen_prog.Spelling(rng, respell=True, nonascii=nonascii)))
    return out


# ---- the subset of expressions the Coq parser / renderer models cover, as S-expressions ----
def model_expr(rng, depth=4):
    """a random expression over names, plain integer constants, all binary operators and both unary operators"""
    if depth <= 0 or rng.random() < 0.3:
        return Name("v%d" % rng.randrange(50)) if rng.random() < 0.6 else IntConst(rng.choice([0, 1, 7, 42, 1000, 2 ** 70]))
    if rng.random() < 0.15:
        return Unary(rng.choice(["-", "NOT"]), model_expr(rng, depth - 1))
    return Bin(rng.choice(gen_ast.BINOPS), model_expr(rng, depth - 1), model_expr(rng, depth - 1))


def sexp_of_expr(e):
    if isinstance(e, Name):
        return "n:" + e.name.lower()
    if isinstance(e, IntConst):
        return "i:%d" % e.v
    if isinstance(e, Unary):
        return "(%s %s)" % ("neg" if e.op == "-" else "not", sexp_of_expr(e.e))
    if isinstance(e, Bin):
        return "(%s %s %s)" % (gen_ast.OPNAME[e.op][1], sexp_of_expr(e.l), sexp_of_expr(e.r))
    raise ValueError(e)


def sexp_of_tree(t):
    """S-expression of an expression in the compact Debug-tree form (model subset only; None otherwise)"""
    if isinstance(t, tuple):
        name, body = t
        if name == "LateBound":
            return "n:" + body["name"]
        if name == "Const" and isinstance(body, list) and body and isinstance(body[0], tuple) and body[0][0] == "IntegerLiteral":
            v = body[0][1]["value"]
            return v if body[0][1]["data_type"] is None and not v.startswith("i:-") else None
        if name in ("Compare", "BinaryOp") and isinstance(body, list) and body:
            f = body[0][1]
            l, r = sexp_of_tree(f["left"]), sexp_of_tree(f["right"])
            return None if l is None or r is None else "(%s %s %s)" % (f["op"], l, r)
        if name == "UnaryOp" and isinstance(body, list) and body:
            f = body[0][1]
            x = sexp_of_tree(f["term"])
            return None if x is None else "(%s %s)" % (f["op"], x)
    return None
