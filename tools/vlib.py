"""Shared machinery of the /verif checks: building (translator, Coq, extraction, harness), running
the extracted model and the implementation on cases, proof-obligation audit, evidence, replays and
known findings.  Everything is rebuilt from /repo's current working tree on every run; cargo, make
and ocamlfind are incremental so an unchanged tree costs seconds."""
import fcntl
import hashlib
import json
import os
import random
import re
import shutil
import subprocess
import sys
import time
from concurrent.futures import ThreadPoolExecutor

VERIF = os.path.dirname(os.path.dirname(os.path.abspath(__file__)))
REPO = os.environ.get("VERIF_REPO", "/repo")
COQ = os.path.join(VERIF, "coq")
WORK = os.path.join(VERIF, "work")
HARNESS_DIR = os.path.join(VERIF, "harness")
BIN_TARGET = os.path.join(VERIF, "harness", "target-ironplcc")
NCPU = int(os.environ.get("VERIF_JOBS", "16"))
ENV = dict(os.environ, CARGO_NET_OFFLINE="true")


def log(*a):
    print("[verif]", *a, file=sys.stderr, flush=True)


def sh(cmd, cwd=None, timeout=3600, env=None):
    """run a shell command, return (rc, combined output)"""
    try:
        p = subprocess.run(cmd, shell=True, cwd=cwd, env=env or ENV, stdout=subprocess.PIPE,
                           stderr=subprocess.STDOUT, timeout=timeout)
        return p.returncode, p.stdout.decode("utf-8", "replace")
    except subprocess.TimeoutExpired as e:
        return 124, (e.stdout or b"").decode("utf-8", "replace") + "\n[timeout]"


class Lock:
    def __init__(self, name="build.lock"):
        os.makedirs(WORK, exist_ok=True)
        self.path = os.path.join(WORK, name)

    def __enter__(self):
        self.f = open(self.path, "w")
        fcntl.flock(self.f, fcntl.LOCK_EX)
        return self

    def __exit__(self, *a):
        fcntl.flock(self.f, fcntl.LOCK_UN)
        self.f.close()


# ---------------------------------------------------------------------------------------------
# building
# ---------------------------------------------------------------------------------------------
def harness_bin(release=False):
    return os.path.join(HARNESS_DIR, "target", "release" if release else "debug", "verif-harness")


def ironplcc_bin():
    return os.path.join(BIN_TARGET, "debug", "ironplcc")


def model_driver():
    return os.path.join(VERIF, "ocaml", "_build", "driver")


def build(prop, need_bin=False, need_release=False, need_harness=True):
    """Translate, build the Coq closure of the property, the extracted driver, the harness.
    Returns a dict describing what succeeded; never raises on a failed proof."""
    info = {"translate": None, "coq_rc": None, "coq_log": "", "extract_ok": False, "harness_ok": False,
            "bin_ok": False, "errors": []}
    t0 = time.time()
    with Lock():
        rc, out = sh("python3 tools/translate.py", cwd=VERIF)
        try:
            info["translate"] = json.loads(out.strip().split("\n")[-1])
        except Exception:
            info["translate"] = {"raw": out[-2000:]}
        if rc != 0:
            info["errors"].append("translator refused: " + out[-500:])
        if not os.path.exists(os.path.join(COQ, "Makefile")) or \
                os.path.getmtime(os.path.join(COQ, "Makefile")) < os.path.getmtime(os.path.join(COQ, "_CoqProject")):
            sh("coq_makefile -f _CoqProject -o Makefile", cwd=COQ)
        # extraction first: the model must run even when a proof is broken
        rc, out = sh("timeout 1500 make -j%d Extract/Extract.vo" % NCPU, cwd=COQ)
        info["extract_rc"] = rc
        if rc != 0:
            info["errors"].append("model/extraction build failed:\n" + out[-3000:])
        else:
            rc2, out2 = sh("sh ocaml/build.sh", cwd=VERIF)
            info["extract_ok"] = rc2 == 0
            if rc2 != 0:
                info["errors"].append("ocaml build failed:\n" + out2[-3000:])
        target = "Properties/%s.vo" % prop
        if os.path.exists(os.path.join(COQ, "Properties", prop + ".v")):
            rc, out = sh("timeout 2400 make -j%d -k %s" % (NCPU, target), cwd=COQ)
            info["coq_rc"] = rc
            info["coq_log"] = out[-6000:]
        else:
            info["coq_rc"] = None
        if need_harness:
            rc, out = sh("cargo build --offline 2>&1", cwd=HARNESS_DIR, timeout=1800)
            info["harness_ok"] = rc == 0
            if rc != 0:
                info["errors"].append("harness build failed:\n" + out[-3000:])
            if need_release:
                rc, out = sh("cargo build --offline --release 2>&1", cwd=HARNESS_DIR, timeout=1800)
                info["harness_release_ok"] = rc == 0
                if rc != 0:
                    info["errors"].append("harness release build failed:\n" + out[-3000:])
        if need_bin:
            rc, out = sh("cargo build --offline -p ironplcc --bin ironplcc --target-dir %s 2>&1" % BIN_TARGET,
                         cwd=os.path.join(REPO, "compiler"), timeout=1800)
            info["bin_ok"] = rc == 0
            if rc != 0:
                info["errors"].append("ironplcc build failed:\n" + out[-3000:])
    info["build_s"] = round(time.time() - t0, 1)
    return info


# ---------------------------------------------------------------------------------------------
# proof-obligation audit
# ---------------------------------------------------------------------------------------------
ALLOWED_AXIOMS = set()  # stdlib axioms that a theorem may depend on; empty: everything is closed

FORBIDDEN = re.compile(r"\b(Admitted|admit|Axiom|Axioms|Parameter|Parameters|Conjecture|Conjectures|Hypothesis|Hypotheses|Variable|Variables|Admit Obligations|bypass_check|Unset Guard Checking|Unset Positivity Checking|Unset Universe Checking|type-in-type|impredicative-set)\b")


def strip_coq_comments(s):
    out = []
    depth = 0
    i = 0
    in_str = False
    while i < len(s):
        if depth == 0 and s[i] == '"':
            in_str = not in_str
            out.append(s[i])
            i += 1
            continue
        if not in_str and s.startswith("(*", i):
            depth += 1
            i += 2
            continue
        if not in_str and depth > 0 and s.startswith("*)", i):
            depth -= 1
            i += 2
            continue
        if depth == 0:
            out.append(s[i])
        i += 1
    return "".join(out)


def forbidden_scan():
    """No Admitted/admit/Axiom/Parameter/... anywhere in the development; Variable/Hypothesis only
    inside sections.  Returns the list of offending (file, line, word)."""
    bad = []
    for root, _, files in os.walk(COQ):
        for fn in files:
            if not fn.endswith(".v"):
                continue
            p = os.path.join(root, fn)
            src = strip_coq_comments(open(p, encoding="utf-8").read())
            # drop string literals
            src_ns = re.sub(r'"(?:[^"]|"")*"', '""', src)
            depth = 0
            for ln, line in enumerate(src_ns.split("\n"), 1):
                if re.match(r"\s*Section\b", line):
                    depth += 1
                for m in FORBIDDEN.finditer(line):
                    w = m.group(1)
                    if w in ("Variable", "Variables", "Hypothesis", "Hypotheses") and depth > 0:
                        continue
                    bad.append((os.path.relpath(p, COQ), ln, w))
                if re.match(r"\s*End\b", line) and depth > 0:
                    depth -= 1
    return bad


def load_obligations(prop):
    with open(os.path.join(COQ, "obligations.json")) as f:
        allo = json.load(f)
    return [o for o in allo if o["property"] == prop]


def audit(prop, workdir):
    """Compile an audit file that Checks and Print-Assumptions every theorem registered for the
    property against the freshly built .vo files.  Returns per-obligation status."""
    obs = load_obligations(prop)
    res = []
    if not obs:
        return res
    lines = ["From Verif Require Import Properties.%s." % prop]
    for o in obs:
        lines.append('Goal True. idtac "@@BEGIN %s". Abort.' % o["name"])
        lines.append("Check %s." % o["name"])
        lines.append("Print Assumptions %s." % o["name"])
        lines.append('Goal True. idtac "@@END %s". Abort.' % o["name"])
    src = os.path.join(workdir, "Audit_%s.v" % prop)
    with open(src, "w") as f:
        f.write("\n".join(lines) + "\n")
    vo_ok = os.path.exists(os.path.join(COQ, "Properties", prop + ".vo"))
    out = ""
    if vo_ok:
        rc, out = sh("timeout 600 coqc -noglob -Q %s Verif %s" % (COQ, src), cwd=workdir)
    for o in obs:
        st = {"name": o["name"], "kind": o.get("kind", "full"), "file": o.get("file"), "ok": False, "axioms": None}
        m = re.search(r"@@BEGIN %s\n(.*?)@@END %s" % (re.escape(o["name"]), re.escape(o["name"])), out, re.S)
        if m:
            body = m.group(1)
            if "Closed under the global context" in body:
                st["ok"] = True
                st["axioms"] = []
            elif "Axioms:" in body:
                ax = re.findall(r"^(\S+)\s*:", body.split("Axioms:")[1], re.M)
                st["axioms"] = ax
                st["ok"] = all(a in ALLOWED_AXIOMS for a in ax)
        res.append(st)
    return res


def coqchk(prop):
    """Thorough tier: re-check the compiled closure of the property with the independent checker and
    read its context summary (axioms, type-in-type, unsafe fixpoints, assumed positivity)."""
    if not os.path.exists(os.path.join(COQ, "Properties", prop + ".vo")):
        return {"ran": False, "ok": False, "why": "Properties/%s.vo missing" % prop}
    t0 = time.time()
    rc, out = sh("timeout 3000 coqchk -o -silent -Q . Verif Verif.Properties.%s 2>&1" % prop, cwd=COQ, timeout=3100)
    res = {"ran": True, "rc": rc, "wall_s": round(time.time() - t0, 1)}
    summ = {}
    for key, pat in (("axioms", r"\* Axioms:(.*?)(?=\n\* |\Z)"),
                     ("type_in_type", r"\* Constants/Inductives relying on type-in-type:(.*?)(?=\n\* |\Z)"),
                     ("unsafe_fixpoints", r"\* Constants/Inductives relying on unsafe \(co\)fixpoints:(.*?)(?=\n\* |\Z)"),
                     ("assumed_positivity", r"\* Inductives whose positivity is assumed:(.*?)(?=\n\* |\Z)")):
        m = re.search(pat, out, re.S)
        summ[key] = " ".join(m.group(1).split()) if m else None
    res["summary"] = summ
    res["ok"] = rc == 0 and all(v == "<none>" for v in summ.values())
    if not res["ok"]:
        res["tail"] = out[-1500:]
    return res


# ---------------------------------------------------------------------------------------------
# running the implementation (Rust harness) and the model (extracted OCaml)
# ---------------------------------------------------------------------------------------------
def _run_chunk(binpath, cases, wd, tag, per_case_timeout):
    cpath = os.path.join(wd, "cases_%s.jsonl" % tag)
    opath = os.path.join(wd, "impl_%s.jsonl" % tag)
    with open(cpath, "w") as f:
        for c in cases:
            f.write(json.dumps(c) + "\n")
    if os.path.exists(opath):
        os.remove(opath)
    results = [None] * len(cases)
    start = 0

    def read_out():
        """results so far and the index of the case that was begun last"""
        last_begin = None
        if os.path.exists(opath):
            with open(opath) as f:
                for line in f:
                    try:
                        o = json.loads(line)
                    except Exception:
                        continue
                    if "begin" in o:
                        last_begin = o["index"]
                    else:
                        results[o["index"]] = o
        return last_begin

    while start < len(cases):
        # one process per stretch of cases; a watchdog kills it when a single case runs beyond its budget
        p = subprocess.Popen([binpath, cpath, opath, str(start)], stdout=subprocess.DEVNULL, stderr=subprocess.PIPE, env=ENV)
        seen_begin, since = None, time.time()
        rc = None
        while True:
            try:
                p.wait(timeout=0.5)
                rc = p.returncode
                break
            except subprocess.TimeoutExpired:
                pass
            size = os.path.getsize(opath) if os.path.exists(opath) else 0
            if size != seen_begin:
                seen_begin, since = size, time.time()
            elif time.time() - since > per_case_timeout:
                p.kill()
                p.wait()
                rc = "timeout"
                break
        try:
            err = p.stderr.read().decode("utf-8", "replace")[-500:] if p.stderr else ""
        except Exception:
            err = ""
        last_begin = read_out()
        if rc == 0:
            break
        # abnormal end: attribute to the case that was begun and not finished
        if last_begin is None or results[last_begin] is not None:
            # cannot attribute; mark the first unanswered
            idx = next((i for i in range(start, len(cases)) if results[i] is None), None)
        else:
            idx = last_begin
        if idx is None:
            break
        results[idx] = {"id": cases[idx].get("id"), "index": idx, "abort": str(rc), "stderr": err}
        start = idx + 1
    for i, r in enumerate(results):
        if r is None:
            results[i] = {"id": cases[i].get("id"), "index": i, "abort": "no-result"}
    return results


def run_impl(cases, workdir, release=False, per_case_timeout=10, jobs=None):
    """Run cases through the Rust harness in parallel; results aligned with cases."""
    if not cases:
        return []
    jobs = jobs or NCPU
    binpath = harness_bin(release)
    n = len(cases)
    nchunks = min(jobs * 2, max(1, n // 20)) or 1
    chunks = [list(range(i, n, nchunks)) for i in range(nchunks)]
    out = [None] * n

    def work(ci):
        idxs = chunks[ci]
        rs = _run_chunk(binpath, [cases[i] for i in idxs], workdir, "%s%d" % ("r" if release else "d", ci),
                        per_case_timeout)
        return idxs, rs

    with ThreadPoolExecutor(max_workers=jobs) as ex:
        for idxs, rs in ex.map(work, range(nchunks)):
            for i, r in zip(idxs, rs):
                out[i] = r
    return out


def run_model(lines, workdir, jobs=None):
    """lines: list of (op, id, [args...]); returns dict id -> list of output fields."""
    if not lines:
        return {}
    jobs = jobs or NCPU
    drv = model_driver()
    n = len(lines)
    nchunks = min(jobs, max(1, n // 10)) or 1
    chunks = [lines[i::nchunks] for i in range(nchunks)]

    def work(ch):
        inp = "".join("\t".join([op, str(i)] + list(args)) + "\n" for op, i, args in ch)
        p = subprocess.run(["sh", "-c", "ulimit -s unlimited 2>/dev/null; exec %s" % drv], input=inp.encode(),
                           stdout=subprocess.PIPE, stderr=subprocess.PIPE, timeout=3600)
        res = {}
        for line in p.stdout.decode("utf-8", "replace").split("\n"):
            if not line:
                continue
            f = line.split("\t")
            res[f[0]] = f[1:]
        return res

    out = {}
    with ThreadPoolExecutor(max_workers=jobs) as ex:
        for r in ex.map(work, chunks):
            out.update(r)
    return out


def hexs(s):
    return s.encode("utf-8").hex() if isinstance(s, str) else bytes(s).hex()


# ---------------------------------------------------------------------------------------------
# known findings, replays, evidence
# ---------------------------------------------------------------------------------------------
def load_known():
    p = os.path.join(VERIF, "known_findings.json")
    if not os.path.exists(p):
        return {"findings": [], "fixed": []}
    with open(p) as f:
        return json.load(f)


class Run:
    """One invocation of a check for one property."""

    def __init__(self, prop, tier, seed):
        self.prop = prop
        self.tier = tier
        self.seed = seed
        self.t0 = time.time()
        self.rng = random.Random(seed * 1000003 + int(prop[1:]))
        self.workdir = os.path.join(WORK, "%s-%d" % (prop, os.getpid()))
        os.makedirs(self.workdir, exist_ok=True)
        self.violations = []      # (replay dict)
        self.known_hits = {}      # key -> description
        self.cov = {"evaluations": 0, "distinct_nontrivial": 0, "traces_validated_against_impl": 0,
                    "disagreements_checked": 0, "samples": [], "histogram": {}}
        self._distinct = set()
        self.known = [k for k in load_known()["findings"] if k["property"] == prop or prop in k.get("also_properties", [])]
        self.notes = []

    # -- counting ------------------------------------------------------------------------
    def count(self, case_key, nontrivial=True, tag=None):
        self.cov["evaluations"] += 1
        if nontrivial:
            h = hashlib.sha1(repr(case_key).encode()).hexdigest()
            self._distinct.add(h)
        if tag:
            self.cov["histogram"][tag] = self.cov["histogram"].get(tag, 0) + 1

    def sample(self, s):
        if len(self.cov["samples"]) < 4:
            self.cov["samples"].append(s)

    # -- reporting -----------------------------------------------------------------------
    def known_finding(self, key, what):
        if key not in self.known_hits:
            self.known_hits[key] = what

    def violation(self, kind, what, replay, no_input=False):
        """kind: impl-violates-property | correspondence | proof-obligation"""
        self.nviol_total = getattr(self, "nviol_total", 0) + 1
        if self.nviol_total <= 80:
            log("violation[%s]: %s" % (kind, what[:400].replace("\n", "\\n")))
        # keep at most a handful of replays per run; one with a failing input displaces one without
        if len(self.violations) >= 5:
            victim = None
            if not no_input:
                victim = next((k for k in range(len(self.violations) - 1, -1, -1)
                               if self.violations[k] is not None and self.violations[k]["no_input"]), None)
            if victim is None:
                self.violations.append(None)
                return
            self.violations.append(None)
            self.violations[victim] = None
            self._replace_at = victim
        rdir = os.path.join(VERIF, "replays", self.prop)
        os.makedirs(rdir, exist_ok=True)
        body = dict(replay)
        body.update({"property": self.prop, "kind": kind, "what": what, "seed": self.seed, "tier": self.tier,
                     "no_failing_input_found": no_input})
        h = hashlib.sha1(json.dumps(body, sort_keys=True).encode()).hexdigest()[:12]
        path = os.path.join(rdir, h + ".json")
        with open(path, "w") as f:
            json.dump(body, f, indent=1)
        slot = getattr(self, "_replace_at", None)
        if slot is not None:
            self.violations[slot] = {"path": path, "no_input": no_input, "what": what}
            self._replace_at = None
        else:
            self.violations.append({"path": path, "no_input": no_input, "what": what})

    def finish(self, build_info, audit_res, extra_cov=None, assumptions=None, trusted=None, checker_cmd=None):
        self.cov["distinct_nontrivial"] = len(self._distinct)
        obligations = len(audit_res)
        discharged = sum(1 for a in audit_res if a["ok"])
        self.cov["obligations"] = obligations
        self.cov["discharged"] = discharged
        self.cov["obligation_status"] = [{"name": a["name"], "kind": a["kind"], "ok": a["ok"], "axioms": a["axioms"]}
                                         for a in audit_res]
        self.cov["checker_cmd"] = checker_cmd or (
            "python3 tools/translate.py && make -C coq -j16 Properties/%s.vo && coqc -Q coq Verif work/.../Audit_%s.v "
            "(Check + Print Assumptions per theorem); forbidden-word scan over coq/" % (self.prop, self.prop))
        self.cov["trusted_base"] = trusted or []
        self.cov["known_findings_reproduced"] = sorted(self.known_hits.keys())
        self.cov["build"] = {k: build_info.get(k) for k in ("translate", "coq_rc", "build_s", "extract_ok", "harness_ok", "bin_ok")}
        if extra_cov:
            self.cov.update(extra_cov)
        nviol = len(self.violations)
        ev = {"property_id": self.prop, "tier": self.tier, "seed": self.seed, "level": "proof",
              "coverage": self.cov, "assumptions": assumptions or [], "wall_s": round(time.time() - self.t0, 1),
              "violations": nviol, "notes": self.notes}
        os.makedirs(os.path.join(VERIF, "evidence"), exist_ok=True)
        with open(os.path.join(VERIF, "evidence", self.prop + ".json"), "w") as f:
            json.dump(ev, f, indent=1)
        for k, w in sorted(self.known_hits.items()):
            print("KNOWN-FINDING: property=%s %s" % (self.prop, w))
        seen = set()
        for v in sorted([x for x in self.violations if x is not None], key=lambda x: x["no_input"]):
            if v is None or v["path"] in seen:
                continue
            seen.add(v["path"])
            print("VIOLATION property=%s replay=%s%s" % (self.prop, v["path"], " no-failing-input-found" if v["no_input"] else ""))
        shutil.rmtree(self.workdir, ignore_errors=True)
        sys.stdout.flush()
        return 1 if nviol else 0


def proof_gate(run, build_info, audit_res):
    """Turn build / proof / audit failures into violations (after the search has run, the caller
    decides whether a failing input was found)."""
    problems = []
    for e in build_info.get("errors", []):
        problems.append(e)
    if build_info.get("coq_rc") not in (0, None):
        problems.append("coq build of Properties/%s.vo failed:\n%s" % (run.prop, build_info.get("coq_log", "")[-3000:]))
    for a in audit_res:
        if not a["ok"]:
            problems.append("obligation %s (%s) not discharged; axioms=%s" % (a["name"], a["kind"], a["axioms"]))
    if run.tier == "thorough":
        ck = coqchk(run.prop)
        run.cov["coqchk"] = ck
        if not ck["ok"]:
            problems.append("coqchk -o on Properties/%s.vo: %s" % (run.prop, json.dumps(ck)[:1500]))
    bad = forbidden_scan()
    for b in bad:
        problems.append("forbidden construct %s at coq/%s:%d" % (b[2], b[0], b[1]))
    return problems
