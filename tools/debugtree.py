"""Parses the output of Rust's derived Debug (`{:?}`) into a generic tree and normalises it for comparison:
   Name { f: v, .. } -> ("Name", {f: v})      Name(v, ..) -> ("Name", [v, ..])      [a, b] -> [a, b]
   bare words / numbers / quoted strings / characters -> str.
Normalisation drops positions (span, position, keyword_span fields and SourceSpan values), unwraps Some(x) to x and None to
None, and lower-cases every atom (identifiers compare case-insensitively; variant names are unaffected by that)."""

DROP_FIELDS = {"span", "position", "keyword_span"}


class P:
    def __init__(self, s):
        self.s = s
        self.i = 0
        self.n = len(s)

    def ws(self):
        while self.i < self.n and self.s[self.i] in " \n\t":
            self.i += 1

    def peek(self):
        self.ws()
        return self.s[self.i] if self.i < self.n else ""

    def expect(self, ch):
        self.ws()
        if self.s[self.i] != ch:
            raise ValueError("expected %r at %d: %r" % (ch, self.i, self.s[self.i:self.i + 40]))
        self.i += 1

    def string(self, q):
        # Rust Debug escapes: \" \' \\ \n \r \t \0 \u{..}
        out = []
        self.i += 1
        while True:
            c = self.s[self.i]
            if c == "\\":
                d = self.s[self.i + 1]
                if d == "u":
                    j = self.s.index("}", self.i)
                    out.append(chr(int(self.s[self.i + 3:j], 16)))
                    self.i = j + 1
                    continue
                out.append({"n": "\n", "r": "\r", "t": "\t", "0": "\0"}.get(d, d))
                self.i += 2
                continue
            if c == q:
                self.i += 1
                break
            out.append(c)
            self.i += 1
        return "".join(out)

    def word(self):
        j = self.i
        while j < self.n and self.s[j] not in " \n\t,{}()[]":
            # a colon ends a field name but may be part of a time atom (12:00:01): field names are handled by the caller
            j += 1
        w = self.s[self.i:j]
        self.i = j
        return w

    def value(self):
        c = self.peek()
        if c == "[":
            self.i += 1
            items = []
            while self.peek() != "]":
                items.append(self.value())
                if self.peek() == ",":
                    self.i += 1
            self.i += 1
            return items
        if c == '"':
            return ("str", self.string('"'))
        if c == "'":
            return ("chr", self.string("'"))
        if c == "(":
            # tuple
            self.i += 1
            items = []
            while self.peek() != ")":
                items.append(self.value())
                if self.peek() == ",":
                    self.i += 1
            self.i += 1
            return ("", items)
        w = self.word()
        nxt = self.peek()
        if nxt == "{" and w and (w[0].isalpha() or w[0] == "_"):
            self.i += 1
            fields = {}
            while self.peek() != "}":
                self.ws()
                j = self.s.index(":", self.i)
                name = self.s[self.i:j].strip()
                self.i = j + 1
                fields[name] = self.value()
                if self.peek() == ",":
                    self.i += 1
            self.i += 1
            return (w, fields)
        if nxt == "(" and w and (w[0].isalpha() or w[0] == "_"):
            self.i += 1
            items = []
            while self.peek() != ")":
                items.append(self.value())
                if self.peek() == ",":
                    self.i += 1
            self.i += 1
            return (w, items)
        return w


def parse(s):
    p = P(s)
    v = p.value()
    p.ws()
    if p.i != p.n:
        raise ValueError("trailing text at %d: %r" % (p.i, s[p.i:p.i + 40]))
    return v


def norm(v):
    if isinstance(v, list):
        return [norm(x) for x in v]
    if isinstance(v, tuple):
        name, body = v
        if name == "str":
            return "s:" + body
        if name == "chr":
            return "c:" + body
        if name == "Some" and isinstance(body, list) and len(body) == 1:
            return norm(body[0])
        if name in ("SourceSpan", "FileId"):
            return None
        if isinstance(body, dict):
            return (name, {k: norm(x) for k, x in body.items() if k not in DROP_FIELDS})
        return (name, [norm(x) for x in body])
    if v == "None":
        return None
    return v.lower() if isinstance(v, str) else v


def diff(a, b, path="$"):
    """first difference between two normalised trees, or None"""
    if type(a) != type(b):
        return "%s: %r vs %r" % (path, short(a), short(b))
    if isinstance(a, list):
        if len(a) != len(b):
            return "%s: %d items vs %d items" % (path, len(a), len(b))
        for i, (x, y) in enumerate(zip(a, b)):
            d = diff(x, y, "%s[%d]" % (path, i))
            if d:
                return d
        return None
    if isinstance(a, tuple):
        if a[0] != b[0]:
            return "%s: %s vs %s" % (path, a[0], b[0])
        if isinstance(a[1], dict) != isinstance(b[1], dict):
            return "%s: shape differs" % path
        if isinstance(a[1], dict):
            if set(a[1]) != set(b[1]):
                return "%s.%s: fields %r vs %r" % (path, a[0], sorted(a[1]), sorted(b[1]))
            for k in a[1]:
                d = diff(a[1][k], b[1][k], "%s.%s.%s" % (path, a[0], k))
                if d:
                    return d
            return None
        return diff(a[1], b[1], "%s.%s" % (path, a[0]))
    return None if a == b else "%s: %r vs %r" % (path, a, b)


def short(v):
    s = repr(v)
    return s if len(s) < 80 else s[:77] + "..."


def compact(v):
    """a shorter, still lossless form: Name(Name {..}) -> Name {..};  SignedInteger / Integer -> "i:[-]digits" """
    if isinstance(v, list):
        return [compact(x) for x in v]
    if isinstance(v, tuple):
        name, body = v
        if isinstance(body, dict):
            body = {k: compact(x) for k, x in body.items()}
            if name == "Integer" and set(body) == {"value"}:
                return "i:" + str(body["value"])
            if name == "SignedInteger" and set(body) == {"value", "is_neg"} and isinstance(body["value"], str):
                return "i:" + ("-" if body["is_neg"] == "true" else "") + body["value"][2:]
            return (name, body)
        body = [compact(x) for x in body]
        if len(body) == 1 and isinstance(body[0], tuple) and body[0][0] == name and isinstance(body[0][1], dict):
            return body[0]
        return (name, body)
    return v


def show(v, indent=0):
    """compact single-line-ish rendering for messages"""
    if isinstance(v, list):
        return "[" + ", ".join(show(x) for x in v) + "]"
    if isinstance(v, tuple):
        name, body = v
        if isinstance(body, dict):
            return name + "{" + ", ".join("%s: %s" % (k, show(x)) for k, x in sorted(body.items())) + "}"
        return name + "(" + ", ".join(show(x) for x in body) + ")"
    return str(v)
