"""Grammar-based generator of IEC 61131-3 programs (the reference grammar of the properties).

A program is generated as a list of *lexemes*; a Spelling turns the list into text by choosing
keyword case, identifier case, the trivia at every inter-token slot and whether the optional ';' after
END_IF is written.  Two layers:
  * `gen_library(rng, sem=True)`: type-correct, fully declared programs inside the fragment the
    analyzer supports (valid by construction; used by C02/C03/C06 and as the base for fault planting);
  * `gen_library(rng, sem=False)`: every syntactic form the parser implements (C01/C08/C10).
All randomness derives from the rng handed in."""
import gen_text

# lexeme kinds
KW, ID, SYM, LIT, GLUE, OPTSEMI, NL = "kw", "id", "sym", "lit", "glue", "optsemi", "nl"


def kw(s):
    return (KW, s)


def ident(s):
    return (ID, s)


def sym(s):
    return (SYM, s)


def lit(s):
    return (LIT, s)


G = (GLUE, "")        # no trivia may be written at this slot (the grammar has no `_` there)
OS = (OPTSEMI, ";")   # the optional ';' after END_IF
N = (NL, "")          # a good place for a line break in the canonical spelling

RESERVED = None


def reserved():
    global RESERVED
    if RESERVED is None:
        RESERVED = set(k.lower() for k in gen_text.keywords())
    return RESERVED


class Spelling:
    """how a lexeme list is written down"""

    def __init__(self, rng=None, respell=False, kw_case=True, id_case=True, trivia=True, optsemi=True,
                 nonascii=True, ff=True):
        self.rng = rng
        self.respell = respell and rng is not None
        self.kw_case = kw_case
        self.id_case = id_case
        self.trivia = trivia
        self.optsemi = optsemi
        self.nonascii = nonascii
        self.ff = ff

    def word(self, kind, s):
        if not self.respell:
            return s
        if kind == KW and self.kw_case:
            return gen_text.rand_case(self.rng, s)
        if kind == ID and self.id_case:
            return gen_text.rand_case(self.rng, s)
        return s

    def gap(self, must):
        if not self.respell or not self.trivia:
            return " "
        t = gen_text.rand_trivia(self.rng, allow_nonascii=self.nonascii, must=must)
        if not self.ff:
            t = t.replace("\f", " ")
        return t


def wordlike(s):
    return s[:1].isalnum() or s[:1] in "_'\"%"


def render(lexemes, sp=None):
    sp = sp or Spelling()
    out = []
    prev = None
    glue = True
    for kind, s in lexemes:
        if kind == GLUE:
            glue = True
            continue
        if kind == NL:
            if not sp.respell and out and not glue:
                out.append("\n")
                glue = True
            continue
        if kind == OPTSEMI:
            if sp.respell and sp.optsemi and sp.rng.random() < 0.5:
                continue
            kind = SYM
        w = sp.word(kind, s)
        if prev is not None and not glue:
            # trivia is mandatory where two lexemes would otherwise merge into one token
            must = True if (wordlike(prev[-1:]) and wordlike(w)) else False
            if not must:
                # symbol pairs that would lex differently when adjacent
                pair = prev[-1:] + w[:1]
                if pair in ("**", "..", ":=", "=>", "<=", ">=", "<>", "(*", "*)", "//", "1.", ".1") or (prev[-1:].isdigit() and w[:1] == ".") or (prev[-1:] == "." and w[:1].isdigit()):
                    must = True
                # ... but a range '..' may touch the integers around it (1..5): only a single '.' would make a real number
                if (w == ".." and prev[-1:].isdigit()) or (prev == ".." and w[:1].isdigit()):
                    must = False
            g = sp.gap(must)
            if must and g == "":
                g = " "
            out.append(g)
        out.append(w)
        prev = w
        glue = False
    text = "".join(out)
    if sp.respell and sp.trivia:
        text = sp.gap(False) + text + sp.gap(False)
    else:
        text += "\n"
    return text


# ---------------------------------------------------------------------------------------------
# names
# ---------------------------------------------------------------------------------------------
class Names:
    def __init__(self, rng):
        self.rng = rng
        self.used = set()

    def fresh(self, prefix):
        while True:
            n = prefix + self.rng.choice(["", "_", "X", "v", "Val"]) + str(self.rng.randrange(1000))
            if n.lower() not in self.used and n.lower() not in reserved():
                self.used.add(n.lower())
                return n


ELEM_INT = ["SINT", "INT", "DINT", "LINT", "USINT", "UINT", "UDINT", "ULINT"]
ELEM_BIT = ["BOOL", "BYTE", "WORD", "DWORD", "LWORD"]
ELEM_REAL = ["REAL", "LREAL"]
ELEM_OTHER = ["TIME", "DATE", "TIME_OF_DAY", "TOD", "DATE_AND_TIME", "DT", "STRING", "WSTRING"]


# ---------------------------------------------------------------------------------------------
# literals
# ---------------------------------------------------------------------------------------------
def gen_int_literal(rng, signed=True):
    k = rng.randrange(8)
    v = rng.choice([0, 1, 2, 7, 10, 255, 1000, 32767, 65535, 123456])
    if k == 0:
        return [lit(str(v))]
    if k == 1:
        return [lit("16#" + format(v, "X"))]
    if k == 2:
        return [lit("2#" + format(v % 256, "b"))]
    if k == 3:
        return [lit("8#" + format(v, "o"))]
    if k == 4:
        s = str(v)
        return [lit(s[0] + "_" + s[1:] if len(s) > 1 else s)]
    if k == 5:
        return [kw(rng.choice(ELEM_INT)), G, sym("#"), G, lit(str(v))]
    if k == 6 and signed:
        return [kw(rng.choice(ELEM_INT)), G, sym("#"), G, sym("-"), G, lit(str(v))]
    return [lit(str(v))]


def gen_constant(rng, kinds=None):
    """a constant in expression position (never starts with a sign: that would be a unary operator)"""
    k = rng.choice(kinds or ["int", "int", "int", "real", "bool", "str", "dur", "tod", "date", "dt", "bits", "typedreal"])
    if k == "int":
        return gen_int_literal(rng, signed=False)
    if k == "real":
        return [lit(rng.choice(["1.5", "0.25", "3.0", "10.0E3", "1.0e-2", "2_0.5", "1.5E10"]))]
    if k == "typedreal":
        return [kw(rng.choice(ELEM_REAL)), G, sym("#"), G, lit(rng.choice(["1.5", "0.5", "2.0E2"]))]
    if k == "bool":
        return rng.choice([[kw("TRUE")], [kw("FALSE")], [kw("BOOL"), G, sym("#"), G, kw("TRUE")],
                           [kw("BOOL"), G, sym("#"), G, kw("FALSE")],
                           [kw("BOOL"), G, sym("#"), G, lit("1")], [kw("BOOL"), G, sym("#"), G, lit("0")]])
    if k == "str":
        return rng.choice([[lit("'abc'")], [lit("''")], [lit('"wide"')], [kw("STRING"), G, sym("#"), G, lit("'x y'")],
                           [kw("WSTRING"), G, sym("#"), G, lit('"w"')]])
    if k == "dur":
        pre = rng.choice([[kw("TIME")], [lit("T")], [lit("t")]])
        unit = rng.choice(["d", "h", "m", "s", "ms"])
        val = rng.choice(["1", "5", "100", "1.5", "0.25", "10"]) if unit in ("s", "ms") else rng.choice(["1", "5", "100", "2"])
        sign = [sym("-"), G] if rng.random() < 0.2 else []
        return pre + [G, sym("#"), G] + sign + [lit(val), G, lit(unit)]
    if k == "tod":
        return [kw(rng.choice(["TOD", "TIME_OF_DAY"])), G, sym("#"), G, lit("%d" % rng.randrange(24)), G, sym(":"), G,
                lit("%02d" % rng.randrange(60)), G, sym(":"), G, lit("%02d" % rng.randrange(60))]
    if k == "date":
        pre = rng.choice([[kw("DATE")], [lit("D")], [lit("d")]])
        return pre + [G, sym("#"), G, lit(str(rng.randrange(1990, 2030))), G, sym("-"), G, lit("%02d" % rng.randrange(1, 13)), G,
                      sym("-"), G, lit("%02d" % rng.randrange(1, 29))]
    if k == "dt":
        return [kw(rng.choice(["DT", "DATE_AND_TIME"])), G, sym("#"), G, lit(str(rng.randrange(1990, 2030))), G, sym("-"), G,
                lit("%02d" % rng.randrange(1, 13)), G, sym("-"), G, lit("%02d" % rng.randrange(1, 29)), G, sym("-"), G,
                lit("%d" % rng.randrange(24)), G, sym(":"), G, lit("%02d" % rng.randrange(60)), G, sym(":"), G,
                lit("%02d" % rng.randrange(60))]
    if k == "bits":
        return [kw(rng.choice(["BYTE", "WORD", "DWORD", "LWORD"])), G, sym("#"), G,
                lit(rng.choice(["16#FF", "2#1010", "8#17", "255", "0"]))]
    return [lit("1")]


BINOPS = ["OR", "XOR", "AND", "&", "=", "<>", "<", ">", "<=", ">=", "+", "-", "*", "/", "MOD", "**"]
LEVEL = {"OR": 0, "XOR": 1, "AND": 2, "&": 2, "=": 3, "<>": 3, "<": 4, ">": 4, "<=": 4, ">=": 4, "+": 5, "-": 5,
         "*": 6, "/": 6, "MOD": 6, "**": 7}


def op_lex(op):
    return kw(op) if op[0].isalpha() else sym(op)


# ---------------------------------------------------------------------------------------------
# syntactic generator (every form the parser implements)
# ---------------------------------------------------------------------------------------------
class Syn:
    def __init__(self, rng, depth=3):
        self.rng = rng
        self.names = Names(rng)
        self.maxdepth = depth
        self.features = set()

    def name(self, p="n"):
        return self.names.fresh(p)

    # -- variables and expressions ----------------------------------------------------------
    def variable(self, d=0):
        r = self.rng
        out = [ident(self.name("v"))]
        for _ in range(r.choice([0, 0, 0, 1, 1, 2])):
            if r.random() < 0.5:
                out += [G, sym("."), G, ident(self.name("f"))]
                self.features.add("var:struct")
            else:
                out += [G, sym("[")]
                n = r.choice([1, 1, 2])
                for i in range(n):
                    if i:
                        out.append(sym(","))
                    out += self.expr(d + 2)
                out.append(sym("]"))
                self.features.add("var:array")
        return out

    def primary(self, d):
        r = self.rng
        k = r.randrange(10)
        if d >= self.maxdepth:
            k = r.choice([0, 1, 2])
        if k <= 1:
            return gen_constant(r)
        if k <= 3:
            return [ident(self.name("v"))]
        if k == 4:
            return self.variable(d)
        if k == 5:
            self.features.add("expr:direct")
            return [lit(r.choice(["%IX1", "%QW3", "%MD7", "%QX1.2"]))]
        if k == 6:
            self.features.add("expr:call")
            out = [ident(self.name("fn")), sym("(")]
            n = r.choice([0, 1, 2, 3])
            for i in range(n):
                if i:
                    out.append(sym(","))
                out += self.param(d + 1)
            out.append(sym(")"))
            return out
        if k <= 8:
            self.features.add("expr:paren")
            return [sym("(")] + self.expr(d + 1) + [sym(")")]
        self.features.add("expr:unary")
        while True:
            p = self.primary(d + 1)
            if p[0] not in (sym("-"), kw("NOT")):
                break
        return [r.choice([sym("-"), kw("NOT")])] + p

    def param(self, d):
        r = self.rng
        k = r.randrange(4)
        if k == 0:
            self.features.add("param:named")
            return [ident(self.name("p")), sym(":=")] + self.expr(d)
        if k == 1:
            self.features.add("param:output")
            pre = [kw("NOT")] if r.random() < 0.2 else []
            return pre + [ident(self.name("o")), sym("=>")] + self.variable(d)
        return self.expr(d)

    def expr(self, d=0):
        r = self.rng
        if d >= self.maxdepth or r.random() < 0.35:
            return self.primary(d)
        n = r.choice([1, 1, 2, 3])
        out = self.primary(d + 1)
        for _ in range(n):
            op = r.choice(BINOPS)
            self.features.add("binop:" + op)
            out += [op_lex(op)] + self.primary(d + 1)
        return out

    # -- statements -------------------------------------------------------------------------
    def stmts(self, d=0, minimum=1):
        out = []
        for _ in range(self.rng.choice([minimum, 1, 1, 2, 3])):
            out += self.stmt(d)
        return out

    def stmt(self, d):
        r = self.rng
        k = r.randrange(12)
        if d >= self.maxdepth:
            k = r.choice([0, 1, 2, 10, 11])
        if k <= 2:
            self.features.add("stmt:assign")
            return self.variable(d) + [sym(":=")] + self.expr(d) + [sym(";"), N]
        if k == 3:
            self.features.add("stmt:fbcall")
            out = [ident(self.name("fb")), sym("(")]
            n = r.choice([0, 1, 2, 3])
            for i in range(n):
                if i:
                    out.append(sym(","))
                out += self.param(d + 1)
            return out + [sym(")"), sym(";"), N]
        if k == 4:
            self.features.add("stmt:if")
            out = [kw("IF")] + self.expr(d + 1) + [kw("THEN"), N]
            if r.random() < 0.9:
                out += self.stmts(d + 1)
            for _ in range(r.choice([0, 0, 1, 2])):
                self.features.add("stmt:elsif")
                out += [kw("ELSIF")] + self.expr(d + 1) + [kw("THEN"), N] + self.stmts(d + 1)
            if r.random() < 0.5:
                self.features.add("stmt:else")
                out += [kw("ELSE"), N] + self.stmts(d + 1)
            return out + [kw("END_IF"), OS, N]
        if k == 5:
            self.features.add("stmt:case")
            out = [kw("CASE")] + self.expr(d + 1) + [kw("OF"), N]
            for _ in range(r.choice([1, 2, 3])):
                m = r.choice([1, 1, 2, 3])
                for i in range(m):
                    if i:
                        out.append(sym(","))
                    c = r.randrange(4)
                    if c == 0:
                        out += [lit(str(r.randrange(10))), G, sym(".."), G, lit(str(10 + r.randrange(10)))]
                    elif c == 1:
                        out += [sym("-"), G, lit(str(r.randrange(1, 9)))]
                    elif c == 2:
                        out += [ident(self.name("ev"))]
                    else:
                        out += [lit(str(r.randrange(100)))]
                out += [sym(":")] + self.stmts(d + 1)
            if r.random() < 0.5:
                out += [kw("ELSE"), N] + self.stmts(d + 1)
            return out + [kw("END_CASE"), sym(";"), N]
        if k == 6:
            self.features.add("stmt:for")
            out = [kw("FOR"), ident(self.name("i")), sym(":=")] + self.expr(d + 1) + [kw("TO")] + self.expr(d + 1)
            if r.random() < 0.5:
                out += [kw("BY")] + self.expr(d + 1)
            return out + [kw("DO"), N] + self.stmts(d + 1) + [kw("END_FOR"), sym(";"), N]
        if k == 7:
            self.features.add("stmt:while")
            return [kw("WHILE")] + self.expr(d + 1) + [kw("DO"), N] + self.stmts(d + 1) + [kw("END_WHILE"), sym(";"), N]
        if k == 8:
            self.features.add("stmt:repeat")
            return [kw("REPEAT"), N] + self.stmts(d + 1) + [kw("UNTIL")] + self.expr(d + 1) + [kw("END_REPEAT"), sym(";"), N]
        if k == 9:
            return [sym(";"), N]
        if k == 10:
            return [kw("RETURN"), sym(";"), N]
        return [kw("EXIT"), sym(";"), N]

    # -- declarations -----------------------------------------------------------------------
    def names_list(self, p="v"):
        out = [ident(self.name(p))]
        for _ in range(self.rng.choice([0, 0, 0, 1, 2])):
            out += [sym(","), ident(self.name(p))]
        return out

    def subrange(self):
        r = self.rng
        a = r.randrange(0, 10)
        s1 = [sym("-"), G] if r.random() < 0.3 else []
        return s1 + [lit(str(a)), G, sym(".."), G, lit(str(a + r.randrange(1, 20)))]

    def array_spec(self):
        r = self.rng
        out = [kw("ARRAY"), sym("[")] + self.subrange()
        if r.random() < 0.3:
            out += [sym(",")] + self.subrange()
        out += [sym("]"), kw("OF"), r.choice([kw(r.choice(ELEM_INT + ["BOOL", "REAL"])), ident(self.name("T"))])]
        return out

    def array_init(self):
        r = self.rng
        out = [sym("[")]
        for i in range(r.choice([1, 2, 3])):
            if i:
                out.append(sym(","))
            k = r.randrange(4)
            if k == 0:
                out += [lit(str(r.randrange(1, 5))), sym("("), G, lit(str(r.randrange(9))), G, sym(")")]
            elif k == 1:
                out += [ident(self.name("ev"))]
            else:
                out += gen_constant(r, ["int", "bool", "real"])
        return out + [sym("]")]

    def struct_init(self, d=0):
        r = self.rng
        out = [sym("(")]
        for i in range(r.choice([1, 2])):
            if i:
                out.append(sym(","))
            out += [ident(self.name("f")), sym(":=")]
            k = r.randrange(5)
            if k == 0:
                out += [ident(self.name("ev"))]
            elif k == 1 and d < 2:
                out += self.struct_init(d + 1)
            elif k == 2:
                out += self.array_init()
            else:
                out += gen_constant(r, ["int", "bool", "real", "str"])
        return out + [sym(")")]

    def enum_values(self):
        out = [sym("("), ident(self.name("ev"))]
        for _ in range(self.rng.choice([0, 1, 2])):
            out += [sym(","), ident(self.name("ev"))]
        return out + [sym(")")]

    def var_init_decl(self):
        """one `names : spec [:= init]` of a VAR / VAR_INPUT / VAR_OUTPUT block"""
        r = self.rng
        k = r.randrange(14)
        names = self.names_list()
        if k == 0:
            self.features.add("init:simple")
            return names + [sym(":"), kw(r.choice(ELEM_INT))] + ([sym(":=")] + gen_int_literal(r) if r.random() < 0.6 else [])
        if k == 1:
            self.features.add("init:bool")
            return names + [sym(":"), kw("BOOL")] + ([sym(":="), kw(r.choice(["TRUE", "FALSE"]))] if r.random() < 0.6 else [])
        if k == 2:
            self.features.add("init:real")
            return names + [sym(":"), kw(r.choice(ELEM_REAL)), sym(":="), lit("1.5")]
        if k == 3:
            self.features.add("init:string")
            out = names + [sym(":"), kw("STRING")]
            if r.random() < 0.5:
                out += [sym("["), lit(str(r.randrange(1, 80))), sym("]")]
            if r.random() < 0.5:
                out += [sym(":="), lit("'abc'")]
            return out
        if k == 4:
            self.features.add("init:wstring")
            out = names + [sym(":"), kw("WSTRING")]
            if r.random() < 0.5:
                out += [sym("["), lit(str(r.randrange(1, 80))), sym("]")]
            if r.random() < 0.5:
                out += [sym(":="), lit('"abc"')]
            return out
        if k == 5:
            self.features.add("init:array")
            out = names + [sym(":")] + self.array_spec()
            if r.random() < 0.5:
                out += [sym(":=")] + self.array_init()
            return out
        if k == 6:
            self.features.add("init:struct")
            return names + [sym(":"), ident(self.name("T")), sym(":=")] + self.struct_init()
        if k == 7:
            self.features.add("init:enumvalues")
            out = names + [sym(":")] + self.enum_values()
            if r.random() < 0.5:
                out += [sym(":="), ident(self.name("ev"))]
            return out
        if k == 8:
            self.features.add("init:enumtype")
            return names + [sym(":"), ident(self.name("T")), sym(":="), ident(self.name("ev"))]
        if k == 9:
            self.features.add("init:latebound")
            return names + [sym(":"), ident(self.name("T"))]
        if k == 10:
            # (a subrange specification is only accepted in VAR_IN_OUT blocks)
            self.features.add("init:simple2")
            return names + [sym(":"), kw(r.choice(ELEM_INT + ELEM_BIT))]
        if k == 11:
            self.features.add("init:typedconst")
            return names + [sym(":"), ident(self.name("T")), sym(":=")] + gen_constant(r, ["int", "bool"])
        if k == 12:
            self.features.add("init:time")
            return names + [sym(":"), kw(r.choice(["TIME", "DATE", "TOD", "DT"]))]
        self.features.add("init:qualenum")
        t = self.name("T")
        return names + [sym(":"), ident(t), sym(":="), ident(t), G, sym("#"), G, ident(self.name("ev"))]

    def var_block(self, pou):
        r = self.rng
        kinds = ["VAR", "VAR", "VAR_INPUT", "VAR_OUTPUT", "VAR_IN_OUT", "VAR_EXTERNAL"]
        if pou == "PROGRAM":
            kinds += ["LOCATED", "INCOMPLETE"]
        if pou == "FUNCTION_BLOCK":
            kinds += ["INCOMPLETE", "EDGE"]
        if pou == "FUNCTION":
            kinds = ["VAR_INPUT", "VAR_OUTPUT", "VAR_IN_OUT", "FVAR"]
        k = r.choice(kinds)
        self.features.add("block:" + k)
        out = []
        if k == "VAR":
            q = r.choice([[], [], [kw("CONSTANT")], [kw("RETAIN")], [kw("NON_RETAIN")]])
            out = [kw("VAR")] + q + [N]
            for _ in range(r.choice([1, 1, 2, 3])):
                out += self.var_init_decl() + [sym(";"), N]
        elif k == "FVAR":
            q = r.choice([[], [kw("CONSTANT")]])
            out = [kw("VAR")] + q + [N]
            nn = r.choice([1, 2])
            for j in range(nn):
                names = self.names_list()
                out += names + [sym(":"), kw(r.choice(ELEM_INT + ["BOOL"]))] + ([sym(":="), lit("1")] if r.random() < 0.3 else [])
                out += ([G] if j == nn - 1 else []) + [sym(";"), N]
        elif k in ("VAR_INPUT", "VAR_OUTPUT"):
            q = r.choice([[], [], [kw("RETAIN")], [kw("NON_RETAIN")]])
            out = [kw(k)] + q + [N]
            for _ in range(r.choice([1, 2])):
                out += self.var_init_decl() + [sym(";"), N]
        elif k == "EDGE":
            out = [kw("VAR_INPUT"), N] + self.names_list() + [sym(":"), kw("BOOL"), kw(r.choice(["R_EDGE", "F_EDGE"])), sym(";"), N]
        elif k == "VAR_IN_OUT":
            out = [kw("VAR_IN_OUT"), N]
            for _ in range(r.choice([1, 2])):
                c = r.randrange(5)
                names = self.names_list()
                if c == 0:
                    out += names + [sym(":"), kw(r.choice(ELEM_INT))]
                elif c == 1:
                    out += names + [sym(":")] + self.array_spec()
                elif c == 2:
                    out += names + [sym(":"), ident(self.name("T"))]
                elif c == 3 and r.random() < 0.5:
                    out += names + [sym(":"), kw(r.choice(ELEM_INT)), sym("(")] + self.subrange() + [sym(")")]
                elif c == 3:
                    out += names + [sym(":"), kw(r.choice(["STRING", "WSTRING", "BOOL", "TIME"]))]
                else:
                    out += names + [sym(":")] + self.enum_values()
                out += [sym(";"), N]
        elif k == "VAR_EXTERNAL":
            q = r.choice([[], [kw("CONSTANT")]])
            out = [kw("VAR_EXTERNAL")] + q + [N]
            for _ in range(r.choice([1, 2])):
                out += [ident(self.name("g")), sym(":"), r.choice([kw(r.choice(ELEM_INT)), ident(self.name("T"))]), sym(";"), N]
        elif k == "LOCATED":
            q = r.choice([[], [kw("CONSTANT")], [kw("RETAIN")], [kw("NON_RETAIN")]])
            out = [kw("VAR")] + q + [N]
            for _ in range(r.choice([1, 2])):
                nm = [ident(self.name("l"))] if r.random() < 0.7 else []
                out += nm + [kw("AT"), lit(r.choice(["%IX1", "%QW2", "%MD4", "%IX1.2"])), sym(":"), kw(r.choice(["BOOL", "INT", "WORD"]))]
                if r.random() < 0.4:
                    out += [sym(":="), lit("1")]
                out += [sym(";"), N]
        elif k == "INCOMPLETE":
            q = r.choice([[], [kw("RETAIN")], [kw("NON_RETAIN")]])
            out = [kw("VAR")] + q + [N]
            for _ in range(r.choice([1, 2])):
                out += [ident(self.name("l")), kw("AT"), lit(r.choice(["%I*", "%Q*", "%M*"])), sym(":")]
                c = r.randrange(5)
                if c == 0:
                    out += [kw(r.choice(ELEM_INT))]
                elif c == 1:
                    out += self.array_spec()
                elif c == 2:
                    out += [ident(self.name("T"))]
                elif c == 3:
                    out += [kw("STRING")]
                else:
                    out += self.enum_values()
                out += [sym(";"), N]
        return out + [kw("END_VAR"), N]

    def pou(self, kind=None):
        r = self.rng
        kind = kind or r.choice(["FUNCTION", "FUNCTION_BLOCK", "PROGRAM", "PROGRAM"])
        self.features.add("pou:" + kind)
        out = [kw(kind), ident(self.name(kind[0]))]
        if kind == "FUNCTION":
            out += [sym(":"), r.choice([kw(r.choice(ELEM_INT + ["BOOL", "REAL"])), ident(self.name("T"))])]
        out.append(N)
        for _ in range(r.choice([0, 1, 1, 2, 3])):
            out += self.var_block(kind)
        if kind == "FUNCTION":
            out += self.stmts(0)
        else:
            b = r.randrange(10)
            if b == 0:
                pass  # empty body
            elif b == 1:
                out += self.sfc()
            else:
                out += self.stmts(0)
        return out + [kw("END_" + kind), N]

    def sfc(self):
        r = self.rng
        self.features.add("body:sfc")
        out = []
        s0 = self.name("S")
        out += [kw("INITIAL_STEP"), ident(s0), sym(":"), N]
        steps = [s0]
        for i in range(r.choice([0, 1])):
            out += self.action_assoc()
            if i == 0 and r.random() < 0.5:
                pass
        # initial_step: associations separated by ';' with NO trailing separator and END_STEP glued
        out += [G, kw("END_STEP"), N]
        for _ in range(r.choice([1, 2])):
            k = r.randrange(3)
            if k == 0:
                s = self.name("S")
                steps.append(s)
                out += [kw("STEP"), ident(s), sym(":"), N]
                for _ in range(r.choice([1, 1, 2])):
                    out += self.action_assoc() + [sym(";"), N]
                out += [kw("END_STEP"), N]
            elif k == 1:
                out += [kw("TRANSITION")]
                if r.random() < 0.4:
                    out += [ident(self.name("t"))]
                if r.random() < 0.3:
                    out += [sym("("), lit("PRIORITY"), sym(":="), lit(str(r.randrange(10))), sym(")")]
                out += [kw("FROM")]
                if r.random() < 0.7:
                    out += [ident(r.choice(steps))]
                else:
                    out += [sym("("), ident(r.choice(steps)), sym(","), ident(self.name("S")), sym(")")]
                out += [kw("TO"), ident(r.choice(steps)), N, sym(":=")] + self.expr(1) + [sym(";"), N, kw("END_TRANSITION"), N]
            else:
                out += [kw("ACTION"), ident(self.name("a")), sym(":"), N] + self.stmts(1) + [kw("END_ACTION"), N]
        return out

    def action_assoc(self):
        r = self.rng
        out = [ident(self.name("a")), sym("(")]
        k = r.randrange(4)
        if k == 1:
            out += [lit(r.choice(["N", "R", "S", "P"]))]
        elif k == 2:
            out += [lit(r.choice(["SD", "DS", "SL"])), sym(","), lit("T"), G, sym("#"), G, lit("5"), G, lit("s")]
        if k in (1, 2) and r.random() < 0.4:
            out += [sym(","), ident(self.name("ind"))]
        return out + [sym(")")]

    def type_decl(self):
        r = self.rng
        k = r.randrange(12)
        n = ident(self.name("T"))
        if k == 0:
            self.features.add("type:enum")
            out = [n, sym(":")] + self.enum_values()
            if r.random() < 0.5:
                out += [sym(":="), ident(self.name("ev"))]
            return out
        if k == 1:
            self.features.add("type:subrange")
            out = [n, sym(":"), kw(r.choice(ELEM_INT)), sym("(")] + self.subrange() + [sym(")")]
            if r.random() < 0.4:
                out += [sym(":="), lit(str(r.randrange(5)))]
            return out
        if k == 2:
            self.features.add("type:simple")
            return [n, sym(":"), kw(r.choice(ELEM_INT)), sym(":=")] + gen_int_literal(r)
        if k == 3:
            self.features.add("type:array")
            out = [n, sym(":")] + self.array_spec()
            if r.random() < 0.4:
                out += [sym(":=")] + self.array_init()
            return out
        if k in (4, 5):
            self.features.add("type:struct")
            out = [n, sym(":"), kw("STRUCT"), N]
            ne = r.choice([1, 2, 3])
            for j in range(ne):
                out += [ident(self.name("f")), sym(":")]
                c = r.randrange(8)
                if c == 0:
                    out += self.array_spec()
                elif c == 1:
                    out += [kw(r.choice(ELEM_INT)), sym("(")] + self.subrange() + [sym(")")]
                elif c == 2:
                    out += [ident(self.name("T")), sym(":=")] + self.struct_init()
                elif c == 3:
                    out += [ident(self.name("T")), sym(":="), ident(self.name("ev"))]
                elif c == 4:
                    out += [kw(r.choice(ELEM_INT)), sym(":="), lit("7")]
                elif c == 5:
                    out += self.enum_values()
                elif c == 6:
                    out += [kw(r.choice(ELEM_INT + ELEM_BIT + ELEM_REAL))]
                else:
                    out += [ident(self.name("T"))]
                out += ([G] if j == ne - 1 else []) + [sym(";"), N]
            return out + [kw("END_STRUCT")]
        if k == 6:
            self.features.add("type:structinit")
            return [n, sym(":"), ident(self.name("T")), sym(":=")] + self.struct_init()
        if k == 7:
            self.features.add("type:string")
            br = r.choice([("[", "]"), ("(", ")")])
            out = [n, sym(":"), kw(r.choice(["STRING", "WSTRING"])), sym(br[0]), lit(str(r.randrange(1, 99))), sym(br[1])]
            return out
        if k == 8:
            self.features.add("type:enumalias")
            return [n, sym(":"), ident(self.name("T")), sym(":="), ident(self.name("ev"))]
        self.features.add("type:latebound")
        return [n, sym(":"), ident(self.name("T"))]

    def type_block(self):
        out = [kw("TYPE"), N]
        for _ in range(self.rng.choice([1, 1, 2, 3])):
            out += self.type_decl() + [sym(";"), N]
        return out + [kw("END_TYPE"), N]

    def configuration(self):
        r = self.rng
        self.features.add("pou:CONFIGURATION")
        out = [kw("CONFIGURATION"), ident(self.name("cfg")), N]
        if r.random() < 0.6:
            out += self.global_block()
        res = self.name("res")
        out += [kw("RESOURCE"), ident(res), kw("ON"), ident(self.name("PLC")), N]
        if r.random() < 0.3:
            out += self.global_block()
        tasks = []
        for _ in range(r.choice([0, 1, 2])):
            t = self.name("tsk")
            tasks.append(t)
            out += [kw("TASK"), ident(t), sym("(")]
            if r.random() < 0.6:
                out += [lit("INTERVAL"), sym(":="), lit("T"), G, sym("#"), G, lit(str(r.randrange(1, 500))), G, lit("ms"), sym(",")]
            out += [lit("PRIORITY"), sym(":="), lit(str(r.randrange(10))), sym(")"), sym(";"), N]
        progs = []
        for _ in range(r.choice([1, 1, 2])):
            pn = self.name("inst")
            progs.append(pn)
            out += [kw("PROGRAM")]
            if r.random() < 0.2:
                out += [kw(r.choice(["RETAIN", "NON_RETAIN"]))]
            out += [ident(pn)]
            if tasks and r.random() < 0.7:
                out += [kw("WITH"), ident(r.choice(tasks))]
            out += [sym(":"), ident(self.name("P"))]
            out += ["PROGSEMI"]
        # semisep_oneplus: the last ';' must follow the last item directly
        idxs = [i for i, x in enumerate(out) if x == "PROGSEMI"]
        for j, i in enumerate(idxs):
            out[i] = "LASTSEMI" if j == len(idxs) - 1 else "SEMI"
        flat = []
        for x in out:
            if x == "SEMI":
                flat += [sym(";"), N]
            elif x == "LASTSEMI":
                flat += [G, sym(";"), N]
            else:
                flat.append(x)
        out = flat
        out += [kw("END_RESOURCE"), N]
        if r.random() < 0.3:
            out += [kw("VAR_CONFIG"), N]
            nc = r.choice([1, 2])
            for j in range(nc):
                out += [ident(res), G, sym("."), G, ident(r.choice(progs)), G, sym("."), G, ident(self.name("fb"))]
                if r.random() < 0.5:
                    out += [sym(":"), ident(self.name("FB")), sym(":=")] + self.struct_init()
                else:
                    if r.random() < 0.5:
                        out += [kw("AT"), lit("%QX1")]
                    out += [sym(":"), kw("INT")] + ([sym(":="), lit("3")] if r.random() < 0.5 else [])
                out += ([G] if j == nc - 1 else []) + [sym(";"), N]
            out += [kw("END_VAR"), N]
        return out + [kw("END_CONFIGURATION"), N]

    def global_block(self):
        r = self.rng
        out = [kw("VAR_GLOBAL")] + r.choice([[], [kw("CONSTANT")], [kw("RETAIN")]]) + [N]
        for _ in range(r.choice([1, 2])):
            c = r.randrange(4)
            if c == 0:
                out += self.names_list("g") + [sym(":"), kw(r.choice(ELEM_INT)), sym(":="), lit(str(r.randrange(100)))]
            elif c == 1:
                out += self.names_list("g") + [sym(":"), kw(r.choice(ELEM_INT + ["BOOL"]))]
            elif c == 2:
                out += self.names_list("g") + [sym(":"), ident(self.name("FB"))]
            else:
                out += [kw("AT"), lit("%IX2"), sym(":"), kw("BOOL")]
            out += [sym(";"), N]
        return out + [kw("END_VAR"), N]

    def library(self):
        r = self.rng
        out = []
        for _ in range(r.choice([1, 1, 2, 3, 4, 6])):
            k = r.randrange(10)
            if k <= 1:
                out += self.type_block()
            elif k <= 7:
                out += self.pou()
            else:
                out += self.configuration()
        return out


def gen_library(rng, sem=False, depth=3):
    """returns a lexeme list (sem=False: any syntactic form)"""
    if sem:
        import gen_sem
        return gen_sem.gen_valid(rng).lexemes()
    g = Syn(rng, depth)
    lx = g.library()
    return lx


def gen_library_with_features(rng, depth=3):
    g = Syn(rng, depth)
    lx = g.library()
    return lx, g.features
