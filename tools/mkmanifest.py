#!/usr/bin/env python3
"""Writes /verif/MANIFEST.json from the per-property metadata in tools/props/*.py (MANIFEST_ENTRY dicts)."""
import importlib
import json
import os
import sys

HERE = os.path.dirname(os.path.abspath(__file__))
sys.path.insert(0, HERE)
VERIF = os.path.dirname(HERE)
ALL = ["C%02d" % i for i in range(1, 16)]

PENDING_REASON = "not claimed in this revision: the Coq model/theorem and correspondence for this property are not built yet (see DESIGN.md section 5 for the plan)"


def main():
    checks = []
    na = []
    engines = {}
    for p in ALL:
        path = os.path.join(HERE, "props", p + ".py")
        if not os.path.exists(path):
            na.append({"property_id": p, "reason": PENDING_REASON})
            continue
        mod = importlib.import_module("props." + p)
        e = getattr(mod, "MANIFEST_ENTRY", None)
        if e is None:
            na.append({"property_id": p, "reason": getattr(mod, "NOT_APPLICABLE", PENDING_REASON)})
            continue
        checks.append({
            "property_id": p,
            "quick_cmd": "./check %s --tier quick" % p,
            "thorough_cmd": "./check %s --tier thorough" % p,
            "evidence_file": "/verif/evidence/%s.json" % p,
            "replay_cmd_template": "./check %s --replay {path}" % p,
            "engine": "coq-proof+correspondence",
            "level_claimed": {"category": "proof", "text": e["text"], "design_ref": e.get("design_ref", "DESIGN.md section 5, " + p)},
            "level_note": e["note"],
            "technique": e["technique"],
        })
    man = {
        "version": 1,
        "setup_cmd": "./setup.sh",
        "hooks": {
            "guard": "verif (cargo feature of ironplc-analyzer, off by default)",
            "enable": "harness/Cargo.toml depends on ironplc-analyzer with features = [\"verif\"]; the feature only adds the module "
                      "analyzer/src/verif_hooks.rs (public wrappers around resolve_types, semantic, the single rules and transformations); "
                      "the ironplcc binary the checks drive is built without it",
            "baseline_off_cmd": "cd /repo/compiler && cargo test --workspace --no-fail-fast --offline",
            "source_commits": ["4de60e0"],
            "add_only": True,
        },
        "engines": [{
            "name": "coq-proof+correspondence",
            "path": "/verif/check",
            "serves_properties": [c["property_id"] for c in checks],
            "kind_free_text": "Coq 8.16.1 theorems over executable Gallina models (coq/), tables regenerated from /repo by tools/translate.py, "
                              "model extracted to OCaml and compared with the Rust implementation on generated inputs (harness/), "
                              "direct search for a failing input on the implementation",
        }],
        "checks": checks,
        "not_applicable": na,
        "notes": "fix: commits in /repo (unguarded defect repairs) are listed in known_findings.json under 'fixed'. One hook commit (cargo feature 'verif' of ironplc-analyzer).",
    }
    with open(os.path.join(VERIF, "MANIFEST.json"), "w") as f:
        json.dump(man, f, indent=1)
    print("checks:", [c["property_id"] for c in checks], "not_applicable:", [n["property_id"] for n in na])


if __name__ == "__main__":
    main()
