#!/bin/bash
# intake_seed.sh <id>: after confirm_seed.sh, copies a sub-agent's deliverables into /verif/seeded/<id>
# (patch, demonstration with whatever files it needs beside it, meta, confirmation log; no build output)
id=$1
src=/tmp/seed/$id
dst=/verif/seeded/$id
mkdir -p $dst
( cd $src/out && find . -type f -size -300k ! -path '*/target/*' ! -name '*.log' ! -name 'Cargo.lock' | while read f; do mkdir -p "$dst/$(dirname "$f")"; cp "$f" "$dst/$f"; done )
cp $src/confirm.log $dst/
grep -E "demo_with_rc|demo_without_rc" $dst/confirm.log
grep -E "^test result" $dst/confirm.log | awk '{p+=$4; f+=$6} END {print "passed", p, "failed", f}'
