#!/bin/bash
# intake_seed.sh <id>: after confirm_seed.sh, copies a sub-agent's deliverables into /verif/seeded/<id>
id=$1
src=/tmp/seed/$id
dst=/verif/seeded/$id
mkdir -p $dst
cp $src/out/patch.diff $src/out/demo.sh $src/out/meta.json $dst/
cp $src/confirm.log $dst/
grep -E "demo_with_rc|demo_without_rc" $dst/confirm.log
grep -E "^test result" $dst/confirm.log | awk '{p+=$4; f+=$6} END {print "passed", p, "failed", f}'
