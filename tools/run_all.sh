#!/bin/sh
# runs every property's check (tier $1, default quick) on the current tree and prints one line per property
cd "$(dirname "$0")/.."
tier=${1:-quick}
for i in 01 02 03 04 05 06 07 08 09 10 11 12 13 14 15; do
  ./check C$i --tier $tier > work/all_C$i.log 2>&1
  echo "C$i rc=$? violations=$(grep -c '^VIOLATION' work/all_C$i.log) known=$(grep -c '^KNOWN-FINDING' work/all_C$i.log)"
done
