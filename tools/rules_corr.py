"""Correspondence of Model/Rules.v (seven semantic rules on declarations, invocations and configurations) with the
implementation.  For each file set the harness parses the files, applies the analyzer's own transformations (through the
`verif` feature hook), emits the facts of the resolved library with the library's own traversal, and runs each of the
rules by itself on that library; the extracted models are run on the same facts.  Per rule the two lists of
(problem code, start of the primary label) must be equal, in order ('not implemented' answers are compared by code only).
The models are the documented rules, so
  * a different verdict (one side reports nothing, the other something) or a different code is a failing input;
  * the same codes at other positions, or in another number, is a broken correspondence."""
import vlib
from vlib import hexs

RULES = ["rule_var_decl_const_initialized", "rule_var_decl_const_not_fb", "rule_var_decl_global_const_requires_external_const",
         "rule_program_task_definition_exists", "rule_use_declared_enumerated_value", "rule_function_block_invocation",
         "rule_unsupported_stdlib_type"]


def impl_list(ds):
    return [(int(d["code"][1:]), 0 if d["code"] == "P9999" else d["start"]) for d in ds]


def model_list(field):
    if field == "-":
        return []
    out = []
    for w in field.split():
        c, p = w.split("@")
        out.append((int(c), 0 if int(c) == 9999 else int(p)))
    return out


def check(run, filesets, info, tag):
    """filesets: list of lists of (name, text).  Returns (compared, disagreements)."""
    if not filesets or not info.get("extract_ok"):
        return 0, 0
    cases = [{"id": i, "op": "facts", "files": [[n, hexs(t)] for n, t in fs]} for i, fs in enumerate(filesets)]
    res = vlib.run_impl(cases, run.workdir, per_case_timeout=30)
    lines = []
    for i, r in enumerate(res):
        if "panic" in r or "abort" in r:
            text = "\n".join(t for _, t in filesets[i])
            run.violation("impl-violates-property", "the analysis of a parsed library crashed (%s): %s" % (
                str(r.get("panic") or r.get("abort"))[:160], text[:200].replace("\n", " ")), {"input": {"text": text, "files": [[n, t] for n, t in filesets[i]]}})
            continue
        if "facts" not in r or r.get("parse_errs") or "rules" not in r:
            continue      # a file did not parse, or a transformation failed: the rules do not run
        lines.append(("rules", i, r["facts"]))
    model = vlib.run_model(lines, run.workdir)
    compared = bad = 0
    for op, i, facts in lines:
        m = model.get(str(i))
        r = res[i]
        text = "\n".join(t for _, t in filesets[i])
        rep = {"input": {"text": text, "files": [[n, t] for n, t in filesets[i]]}, "facts": facts}
        if not m or len(m) != len(RULES):
            bad += 1
            run.violation("correspondence", "the rule models gave no answer (%r) for the facts of: %s" % (m, text[:160].replace("\n", " ")), rep, no_input=True)
            continue
        compared += 1
        run.cov["traces_validated_against_impl"] += 1
        run.count(("facts", tuple(filesets[i])), True, "rule-facts:" + tag)
        for k, rule in enumerate(RULES):
            want = model_list(m[k])
            got = impl_list(r["rules"].get(rule, []))
            if want:
                run.count(("rule-fires", rule, tuple(filesets[i])), False, "rule-model-fires:" + rule[5:])
                for c in sorted(set(c for c, _ in want)):
                    run.count(("rule-code", c, tuple(filesets[i])), False, "rule-model-code:P%04d" % c)
            if want == got:
                continue
            bad += 1
            if [c for c, _ in want] != [c for c, _ in got] and (not want or not got or set(c for c, _ in want) != set(c for c, _ in got)):
                what = "%s reports %r, the documented rule gives %r" % (rule, ["P%04d" % c for c, _ in got], ["P%04d" % c for c, _ in want])
                run.violation("impl-violates-property", what + ": " + text[:200].replace("\n", " "), dict(rep, rule=rule, model=want, impl=got))
            else:
                run.cov["disagreements_checked"] += 1
                run.violation("correspondence", "%s reports %r, the model computes %r: %s" % (rule, got, want, text[:200].replace("\n", " ")),
                              dict(rep, rule=rule), no_input=True)
            break
    return compared, bad


# ---- a generator aimed at the rules: few names, reused across units and written in varying letter case ----
POOL = ["a", "b", "c", "d", "e", "g", "h"]


def _case(rng, n):
    return rng.choice([n, n.upper(), n.capitalize()])


def gen_unit(rng):
    """(text) of a small unit that resolves: enumerations and aliases, function blocks with inputs / outputs / edge inputs,
    callers with instances and invocations of every shape, constants with and without initial values, globals and externals
    (constant or not), resources with tasks and programs.  Most units break one or more of the rules."""
    out = []
    enums = {}
    for i in range(rng.randint(0, 3)):
        n = "En%d" % i
        if enums and rng.random() < 0.4:
            t = rng.choice(list(enums))
            out.append("TYPE\n  %s : %s;\nEND_TYPE" % (n, _case(rng, t)))
            enums[n] = enums[t]
        else:
            vs = rng.sample(POOL, rng.randint(1, 4))
            out.append("TYPE\n  %s : (%s) := %s;\nEND_TYPE" % (n, ", ".join(_case(rng, v) for v in vs), vs[0]))
            enums[n] = vs
    # a structure with an element of an enumeration type and an initial value (declared, a value of another type, or of a type
    # that is not declared at all -- also when the unit declares no enumeration)
    if rng.random() < 0.35:
        e = rng.choice(list(enums) + ["NoSuchEn"])
        val = rng.choice(enums[e]) if e in enums and rng.random() < 0.7 else rng.choice(POOL)
        out.append("TYPE\n  St0 : STRUCT\n    m : INT;\n    c : %s := %s;\n  END_STRUCT;\nEND_TYPE" % (_case(rng, e), _case(rng, val)))
    fbs = {}
    nfb = rng.randint(1, 3)
    for i in range(nfb):
        n = "Fb%d" % i
        names = rng.sample(POOL, rng.randint(2, 6))
        lines = ["FUNCTION_BLOCK %s" % n]
        ins, outs, inouts = [], [], []
        if rng.random() < 0.15:
            # a variable of a type that is not declared, with an enumerated value
            lines += ["VAR", "  lvl%d : NoSuchEn := %s;" % (i, _case(rng, rng.choice(POOL))), "END_VAR"]
        for v in names:
            k = rng.random()
            if k < 0.3:
                edge = rng.random() < 0.3
                lines += ["VAR_INPUT", "  %s : %s;" % (_case(rng, v), "BOOL R_EDGE" if edge else "INT"), "END_VAR"]
                ins.append(v)
            elif k < 0.5:
                lines += ["VAR_OUTPUT", "  %s : INT;" % _case(rng, v), "END_VAR"]
                outs.append(v)
            elif k < 0.6:
                lines += ["VAR_IN_OUT", "  %s : INT;" % _case(rng, v), "END_VAR"]
                inouts.append(v)
            elif k < 0.8:
                q = rng.choice(["", " CONSTANT", " CONSTANT", " RETAIN"])
                init = rng.choice(["", " := 3"])
                lines += ["VAR%s" % q, "  %s : INT%s;" % (_case(rng, v), init), "END_VAR"]
            elif k < 0.9 and enums:
                e = rng.choice(list(enums))
                val = rng.choice(POOL)
                q = rng.choice(["", " CONSTANT"])
                init = rng.choice(["", " := %s" % _case(rng, val), " := %s#%s" % (_case(rng, e), val)])
                lines += ["VAR%s" % q, "  %s : %s%s;" % (_case(rng, v), _case(rng, e), init), "END_VAR"]
            else:
                q = rng.choice(["", " CONSTANT"])
                lines += ["VAR_EXTERNAL%s" % q, "  %s : INT;" % _case(rng, v), "END_VAR"]
        # instances of earlier blocks (or of a standard block), and invocations of every shape
        body = []
        insts = []
        if fbs and rng.random() < 0.8:
            for j in range(rng.randint(1, 2)):
                callee = rng.choice(list(fbs) + (["TON"] if rng.random() < 0.1 else []))
                iname = "i%d" % j
                q = " CONSTANT" if rng.random() < 0.15 else ""
                lines += ["VAR%s" % q, "  %s : %s;" % (iname, _case(rng, callee)), "END_VAR"]
                insts.append((iname, callee))
        for iname, callee in insts:
            for _ in range(rng.randint(1, 3)):
                args = []
                shape = rng.random()
                if shape < 0.45:
                    for v in rng.sample(POOL, rng.randint(0, 3)):
                        args.append("%s := 1" % _case(rng, v))
                elif shape < 0.8:
                    args = ["1"] * rng.randint(0, 4)
                else:
                    args = ["%s := 1" % rng.choice(POOL), "2"]
                if rng.random() < 0.4 and names:
                    args.append("%s => %s" % (_case(rng, rng.choice(POOL)), _case(rng, names[0])))
                body.append("%s(%s);" % (_case(rng, iname), ", ".join(args)))
        if rng.random() < 0.15:
            body.append("%s();" % _case(rng, rng.choice(names)))        # an invocation of something that is no instance
        if rng.random() < 0.2:
            body.append("i%d();" % rng.randint(0, 1))                    # an instance name of other units, declared here or not
        lines += body + ["END_FUNCTION_BLOCK"]
        out.append("\n".join(lines))
        fbs[n] = (ins, outs, inouts)
    prog = "Pg0"
    lines = ["PROGRAM %s" % prog, "VAR", "  z : INT;", "END_VAR"]
    if rng.random() < 0.6:
        q = rng.choice(["", " CONSTANT"])
        lines += ["VAR_EXTERNAL%s" % q, "  %s : INT;" % _case(rng, rng.choice(POOL)), "END_VAR"]
    lines += ["z := 1;", "END_PROGRAM"]
    out.append("\n".join(lines))
    # zero to three configurations, each with one or two resources: the task names of one resource say nothing about another
    for ci in range(rng.choice([0, 1, 1, 1, 2, 2, 3])):
        lines = ["CONFIGURATION Cf%d" % ci]
        if rng.random() < 0.7:
            q = rng.choice(["", " CONSTANT", " CONSTANT"])
            lines += ["  VAR_GLOBAL%s" % q] + ["    %s : INT%s;" % (_case(rng, v), " := 7" if rng.random() < 0.7 else "")
                                                for v in rng.sample(POOL, rng.randint(1, 2))] + ["  END_VAR"]
        for ri in range(rng.choice([1, 1, 2])):
            tasks = rng.sample(POOL[:4], rng.randint(0, 2))
            lines += ["  RESOURCE Rs%d_%d ON PLC" % (ci, ri)]
            for t in tasks:
                lines.append("    TASK %s(INTERVAL := T#100ms, PRIORITY := 1);" % _case(rng, t))
            for j in range(rng.randint(1, 3)):
                w = " WITH %s" % _case(rng, rng.choice(POOL[:4])) if rng.random() < 0.7 else ""
                lines.append("    PROGRAM r%d_%d_%d%s : %s;" % (ci, ri, j, w, prog))
            lines += ["  END_RESOURCE"]
        lines += ["END_CONFIGURATION"]
        out.append("\n".join(lines))
    rng.shuffle(out)
    return "\n\n".join(out) + "\n"


# ---- xform_resolve_late_bound_type_initializer against Model/Rules.v (xform_type_init) ----
def check_types(run, filesets, info, tag):
    """The harness applies the earlier transformations, emits the type facts, applies the transformation and emits the type
    facts of its result (or its diagnostics); the model gets the facts before and must give the same initializer kinds in
    the same order, or the same diagnostics (code, place; 'not implemented' by code only)."""
    if not filesets or not info.get("extract_ok"):
        return 0, 0
    cases = [{"id": i, "op": "latebound", "files": [[n, hexs(t)] for n, t in fs]} for i, fs in enumerate(filesets)]
    res = vlib.run_impl(cases, run.workdir, per_case_timeout=30)
    lines = []
    for i, r in enumerate(res):
        if "panic" in r or "abort" in r:
            text = "\n".join(t for _, t in filesets[i])
            run.violation("impl-violates-property", "a transformation of a parsed library crashed (%s): %s" % (
                str(r.get("panic") or r.get("abort"))[:160], text[:200].replace("\n", " ")), {"input": {"text": text, "files": [[n, t] for n, t in filesets[i]]}})
            continue
        if "before" not in r or r.get("parse_errs"):
            continue      # a file did not parse, or an earlier transformation failed
        lines.append(("latebound", i, r["before"]))
    model = vlib.run_model(lines, run.workdir)
    compared = bad = 0
    for op, i, facts in lines:
        m = model.get(str(i))
        r = res[i]
        text = "\n".join(t for _, t in filesets[i])
        rep = {"input": {"text": text, "files": [[n, t] for n, t in filesets[i]]}, "type_facts": facts}
        if not m or m[0] not in ("ok", "err"):
            bad += 1
            run.violation("correspondence", "the transformation model gave no answer (%r) for: %s" % (m, text[:160].replace("\n", " ")), rep, no_input=True)
            continue
        compared += 1
        run.cov["traces_validated_against_impl"] += 1
        run.count(("typefacts", tuple(filesets[i])), True, "type-facts:" + tag)
        if "after" in r:
            got = ("ok", [f.split(",")[1] for f in r["after"] if f.startswith("IK,")])
        else:
            got = ("err", impl_list(r.get("diags", [])))
        if m[0] == "ok":
            want = ("ok", (m[1].split() if len(m) > 1 else []))
        else:
            want = ("err", model_list(m[1] if len(m) > 1 and m[1] else "-"))
            for c in sorted(set(c for c, _ in want[1])):
                run.count(("xform-code", c, tuple(filesets[i])), False, "xform-model-code:P%04d" % c)
        if want == got:
            continue
        bad += 1
        if want[0] != got[0] or (want[0] == "err" and set(c for c, _ in want[1]) != set(c for c, _ in got[1])):
            what = "xform_resolve_late_bound_type_initializer %s, the documented behaviour is %s" % (
                "accepts" if got[0] == "ok" else "reports %r" % ["P%04d" % c for c, _ in got[1]],
                "to accept" if want[0] == "ok" else "to report %r" % ["P%04d" % c for c, _ in want[1]])
            run.violation("impl-violates-property", what + ": " + text[:200].replace("\n", " "), dict(rep, model=want, impl=got))
        else:
            run.cov["disagreements_checked"] += 1
            run.violation("correspondence", "the transformation gives %r, the model computes %r: %s" % (got, want, text[:200].replace("\n", " ")),
                          rep, no_input=True)
    return compared, bad


def check_exprkind(run, filesets, info, tag):
    """xform_resolve_late_bound_expr_kind against Model/ExprKind.v: the harness applies the two earlier transformations, emits
    the events the resolver meets (units with the kinds of their variables, assignments with their targets, one tag per
    expression node), applies the transformation and emits the events of its result.  The model gets the events before and
    must resolve every late-bound element to what stands at the same place afterwards -- or fail when the transformation
    fails; everything else must be unchanged."""
    if not filesets or not info.get("extract_ok"):
        return 0, 0
    cases = [{"id": i, "op": "exprkind", "files": [[n, hexs(t)] for n, t in fs]} for i, fs in enumerate(filesets)]
    res = vlib.run_impl(cases, run.workdir, per_case_timeout=30)
    lines = []
    for i, r in enumerate(res):
        if "panic" in r or "abort" in r:
            text = "\n".join(t for _, t in filesets[i])
            run.violation("impl-violates-property", "the expression resolver crashed (%s): %s" % (
                str(r.get("panic") or r.get("abort"))[:160], text[:200].replace("\n", " ")), {"input": {"text": text, "files": [[n, t] for n, t in filesets[i]]}})
            continue
        if "before" not in r or r.get("parse_errs"):
            continue
        lines.append(("exprkind", i, [e for e in r["before"] if e.split(",")[0] in ("EN", "EX", "AS", "AE", "LB")]))
    model = vlib.run_model(lines, run.workdir)
    compared = bad = 0
    for op, i, evs in lines:
        m = model.get(str(i))
        r = res[i]
        text = "\n".join(t for _, t in filesets[i])
        rep = {"input": {"text": text, "files": [[n, t] for n, t in filesets[i]]}, "events": r["before"][:200]}
        if not m or m[0] not in ("ok", "error"):
            bad += 1
            run.violation("correspondence", "the expression-resolver model gave no answer (%r) for: %s" % (m, text[:160].replace("\n", " ")), rep, no_input=True)
            continue
        compared += 1
        run.cov["traces_validated_against_impl"] += 1
        run.count(("exprfacts", tuple(filesets[i])), True, "expr-facts:" + tag)
        nlate = sum(1 for e in r["before"] if e.startswith("LB,"))
        # the shape C06_expression_resolution_by_unit speaks about: units  EN (LB | AS LB* AE)* EX, nothing outside them
        st = 0        # 0 outside a unit, 1 inside a unit, 2 inside an assignment
        shape = None
        for e in evs:
            k = e.split(",")[0]
            if (k, st) == ("EN", 0):
                st = 1
            elif (k, st) == ("EX", 1):
                st = 0
            elif (k, st) == ("AS", 1):
                st = 2
            elif (k, st) == ("AE", 2):
                st = 1
            elif k == "LB" and st in (1, 2):
                pass
            else:
                shape = "event %r in state %d" % (e[:30], st)
                break
        if shape is None and st != 0:
            shape = "the stream ends inside a unit"
        if shape is not None:
            bad += 1
            run.violation("correspondence", "the events of the expression resolver are not a sequence of units with closed assignments (%s): %s" % (
                shape, text[:200].replace("\n", " ")), rep, no_input=True)
            continue
        if "after" not in r:
            codes = sorted(set(d["code"] for d in r.get("diags", [])))
            if m[0] == "error" and codes == ["P9999"]:
                run.count(("exprfacts-err", tuple(filesets[i])), False, "expr-model:not-implemented")
                continue
            bad += 1
            run.cov["disagreements_checked"] += 1
            run.violation("correspondence", "the expression resolver fails with %r, the model %s: %s" % (
                codes, "fails too" if m[0] == "error" else "resolves all %d names" % nlate, text[:200].replace("\n", " ")), rep, no_input=True)
            continue
        if m[0] == "error":
            bad += 1
            run.cov["disagreements_checked"] += 1
            run.violation("correspondence", "the expression resolver resolves every name, the model fails (a target kind it does not resolve): %s" % (
                text[:200].replace("\n", " ")), rep, no_input=True)
            continue
        want = m[1].split() if len(m) > 1 and m[1] else []
        b, a = r["before"], r["after"]
        k = 0
        diff = None
        if len(a) != len(b):
            diff = "the result has %d events, the source %d" % (len(a), len(b))
        else:
            for j, (x, y) in enumerate(zip(b, a)):
                if x.startswith("LB,"):
                    nm = x.split(",")[1]
                    w = want[k] if k < len(want) else "?"
                    k += 1
                    exp = ("VN," if w.startswith("V:") else "EV,") + nm
                    wn = "".join("%02x" % int(c, 16) for c in w[2:].split(".") if c)
                    if y != exp or wn != nm:
                        diff = "late-bound element %d (%s) became %r, the model says %r" % (k, bytes.fromhex(nm).decode("utf-8", "replace"), y, w)
                        break
                elif x != y:
                    diff = "event %d changed from %r to %r" % (j, x, y)
                    break
        if diff:
            bad += 1
            run.cov["disagreements_checked"] += 1
            run.violation("correspondence", "the expression resolver and its model differ: %s: %s" % (diff, text[:200].replace("\n", " ")), rep, no_input=True)
    return compared, bad


def gen_alias_unit(rng):
    """TYPE declarations over a small pool of names: enumerations, structures, elementary-based types, subranges, arrays,
    strings and aliases of one another (chains, aliases of undeclared names, now and then a duplicate or a cycle), in a
    random order and in one or several TYPE blocks"""
    pool = ["Ka", "Kb", "Kc", "Kd", "Ke", "Kf", "Kg"]
    names = rng.sample(pool, rng.randint(2, 6))
    if rng.random() < 0.08:
        names.append(rng.choice(names))
    decls = []
    for n in names:
        k = rng.random()
        if k < 0.15:
            decls.append("%s : (x%d, y%d);" % (n, rng.randrange(9), rng.randrange(9)))
        elif k < 0.27:
            decls.append("%s : STRUCT f : INT; END_STRUCT;" % n)
        elif k < 0.37:
            decls.append("%s : INT := %d;" % (n, rng.randrange(9)))
        elif k < 0.43:
            decls.append("%s : INT (1..9);" % n)
        elif k < 0.48:
            decls.append("%s : ARRAY [1..3] OF INT;" % n)
        elif k < 0.52:
            decls.append("%s : STRING[8];" % n)
        else:
            decls.append("%s : %s;" % (n, _case(rng, rng.choice([t for t in pool if t != n] + ["Nowhere"]))))
    rng.shuffle(decls)
    out = []
    while decls:
        k = rng.randint(1, len(decls))
        out.append("TYPE\n  " + "\n  ".join(decls[:k]) + "\nEND_TYPE")
        decls = decls[k:]
    return "\n".join(out) + "\n"


def check_datadecl(run, filesets, info, tag):
    """xform_resolve_late_bound_data_decl against Model/DataDecl.v, on the declarations as written (the transformation applied
    directly) and after xform_toposort_declarations (as the pipeline applies it)"""
    if not filesets or not info.get("extract_ok"):
        return 0, 0
    cases = []
    for i, fs in enumerate(filesets):
        for srt in (False, True):
            cases.append({"id": len(cases), "op": "datadecl", "sort": srt, "files": [[n, hexs(t)] for n, t in fs], "_i": i})
    res = vlib.run_impl(cases, run.workdir, per_case_timeout=30)
    lines = []
    for ci, r in enumerate(res):
        i = cases[ci]["_i"]
        if "panic" in r or "abort" in r:
            text = "\n".join(t for _, t in filesets[i])
            run.violation("impl-violates-property", "the alias resolution of data types crashed (%s): %s" % (
                str(r.get("panic") or r.get("abort"))[:160], text[:200].replace("\n", " ")), {"input": {"text": text, "files": [[n, t] for n, t in filesets[i]]}})
            continue
        if "before" not in r or r.get("parse_errs"):
            continue
        lines.append(("datadecl", ci, r["before"]))
    model = vlib.run_model(lines, run.workdir)
    compared = bad = 0
    for op, ci, facts in lines:
        i = cases[ci]["_i"]
        m = model.get(str(ci))
        r = res[ci]
        text = "\n".join(t for _, t in filesets[i])
        rep = {"input": {"text": text, "files": [[n, t] for n, t in filesets[i]]}, "declarations": facts, "sorted_first": cases[ci]["sort"]}
        if not m or m[0] not in ("ok", "err"):
            bad += 1
            run.violation("correspondence", "the alias-resolution model gave no answer (%r) for: %s" % (m, text[:160].replace("\n", " ")), rep, no_input=True)
            continue
        compared += 1
        run.cov["traces_validated_against_impl"] += 1
        run.count(("datafacts", cases[ci]["sort"], tuple(filesets[i])), True, "data-decl-facts:%s:%s" % (tag, "sorted" if cases[ci]["sort"] else "as-written"))
        if cases[ci]["sort"]:
            # the hypothesis of C02_alias_resolution_exact / C06_alias_resolution_order (DataDeclComplete.wf): after the
            # declaration sort the type names are unique and no simple / enumeration / structure type is declared after
            # it was used as a base
            # (declarations the transformation does not enter -- strings, subranges, arrays -- may repeat a name: it never
            # looks at them; the duplicate is diagnosed by a later stage)
            names = [f.split(",")[1] for f in facts if not (f.startswith("DD,") and f.split(",")[2] == "none")]
            later = set()
            unsorted = None
            for f in reversed(facts):
                w = f.split(",")
                if w[0] == "DA" and w[2] in later:
                    unsorted = bytes.fromhex(w[2]).decode("utf-8", "replace")
                if w[0] == "DD" and w[2] != "none":
                    later.add(w[1])
            if len(set(names)) != len(names) or unsorted is not None:
                bad += 1
                run.violation("correspondence", "after xform_toposort_declarations the type declarations are not well-formed for the alias resolution (%s): %s" % (
                    "a name is declared twice" if len(set(names)) != len(names) else "the base %r is declared after its alias" % unsorted,
                    text[:200].replace("\n", " ")), rep, no_input=True)
        if "after" in r:
            kinds = [a.split(",")[1] for f, a in zip(facts, r["after"]) if f.startswith("DA,")]
            got = ("ok", kinds)
        else:
            got = ("err", impl_list(r.get("diags", [])))
        if m[0] == "ok":
            want = ("ok", m[1].split() if len(m) > 1 and m[1] else [])
        else:
            want = ("err", model_list(m[1] if len(m) > 1 and m[1] else "-"))
        if want != got:
            bad += 1
            run.cov["disagreements_checked"] += 1
            run.violation("correspondence", "the alias resolution gives %r, the model computes %r (%s): %s" % (
                got, want, "after sorting" if cases[ci]["sort"] else "as written", text[:200].replace("\n", " ")), rep, no_input=True)
    return compared, bad


TYPE_POOL = ["Ta", "Tb", "Tc", "Td", "Te"]


def gen_type_unit(rng):
    """a small unit around type references: data types of every kind and function blocks named from a small pool (so that
    references hit declared, undeclared, elementary, standard and duplicate names), variables and structure elements of
    those types, written in varying letter case"""
    out = []
    names = rng.sample(TYPE_POOL, rng.randint(1, 4))
    if rng.random() < 0.06:
        names.append(names[0])                  # a duplicate declaration
    for n in names:
        k = rng.random()
        if k < 0.2:
            out.append("TYPE\n  %s : (x1, x2);\nEND_TYPE" % n)
        elif k < 0.35:
            fields = ["    f%d : %s;" % (j, _case(rng, rng.choice(TYPE_POOL + ["INT", "BOOL", "DINT"]))) for j in range(rng.randint(1, 2))]
            out.append("TYPE\n  %s : STRUCT\n%s\n  END_STRUCT;\nEND_TYPE" % (n, "\n".join(fields)))
        elif k < 0.45:
            out.append("TYPE\n  %s : ARRAY [1..3] OF INT;\nEND_TYPE" % n)
        elif k < 0.55:
            out.append("TYPE\n  %s : STRING[8];\nEND_TYPE" % n)
        elif k < 0.62:
            out.append("TYPE\n  %s : INT (1..9);\nEND_TYPE" % n)
        elif k < 0.68:
            # an alias of another type name of the pool (declared or not); 'T : INT;' is not in the grammar
            out.append("TYPE\n  %s : %s;\nEND_TYPE" % (n, _case(rng, rng.choice([t for t in TYPE_POOL if t != n]))))
        else:
            out.append("FUNCTION_BLOCK %s\nVAR_INPUT\n  i1 : INT;\nEND_VAR\nEND_FUNCTION_BLOCK" % n)
    lines = ["FUNCTION_BLOCK User", "VAR"]
    for j in range(rng.randint(1, 5)):
        t = rng.choice(TYPE_POOL + TYPE_POOL + ["INT", "BOOL", "LREAL", "TON", "ctu", "TIME", "NoSuch"])
        lines.append("  v%d : %s;" % (j, _case(rng, t)))
    lines += ["END_VAR", "END_FUNCTION_BLOCK"]
    out.append("\n".join(lines))
    rng.shuffle(out)
    return "\n\n".join(out) + "\n"


# ---- the three rules on type declarations, with their labels (Model/DeclRules.v) ----
DECL_RULES = ["rule_decl_struct_element_unique_names", "rule_enumeration_values_unique", "rule_decl_subrange_limits"]


def _impl_labelled(ds):
    return [(int(d["code"][1:]), (d["start"], d["end"]), [(x[1], x[2]) for x in d.get("secondary", [])]) for d in ds]


def _model_labelled(field):
    if field == "-":
        return []
    out = []
    for w in field.split():
        p = w.split("@")
        sp = [tuple(int(v) for v in x.split("-")) for x in p[1:]]
        out.append((int(p[0]), sp[0], sp[1:]))
    return out


def gen_decl_unit(rng):
    """type declarations aimed at the three rules: structures and enumerations over few names written in varying letter case
    (a name up to three times), subranges with bounds on either side of each other in type declarations, structure elements,
    array bounds and variable declarations"""
    lines = ["TYPE"]
    names = ["va", "vb", "vc", "vd"]

    def bounds():
        k = rng.randrange(6)
        if k == 0:
            a = rng.randint(-5, 5)
            return a, a
        if k == 1:
            return rng.randint(0, 9), -rng.randint(0, 9)
        if k == 2:
            return -rng.randint(0, 3), rng.randint(0, 3)
        a, b = rng.randint(-20, 20), rng.randint(-20, 20)
        return a, b

    def b2s(v):
        return ("-0" if rng.random() < 0.1 else "0") if v == 0 else str(v)

    n = rng.randint(1, 5)
    for i in range(n):
        k = rng.randrange(4)
        if k == 0:
            cnt = rng.randint(1, 5)
            els = [rng.choice(names) for _ in range(cnt)] if rng.random() < 0.7 else rng.sample(names, min(cnt, 4))
            body = []
            for e in els:
                lo, hi = bounds()
                ty = rng.choice(["INT", "BOOL", "INT (%s..%s)" % (b2s(lo), b2s(hi)), "ARRAY[%s..%s] OF INT" % (b2s(lo), b2s(hi))])
                body.append("    %s : %s;" % (_case(rng, e), ty))
            lines.append("  S%d : STRUCT\n%s\n  END_STRUCT;" % (i, "\n".join(body)))
        elif k == 1:
            cnt = rng.randint(1, 5)
            vs = [rng.choice(names) for _ in range(cnt)] if rng.random() < 0.7 else rng.sample(names, min(cnt, 4))
            vs = ["%s%d" % (_case(rng, v), i) for v in vs]
            lines.append("  E%d : (%s)%s;" % (i, ", ".join(vs), (" := " + vs[0]) if rng.random() < 0.5 else ""))
        elif k == 2:
            lo, hi = bounds()
            lines.append("  R%d : INT (%s..%s);" % (i, b2s(lo), b2s(hi)))
        else:
            lo, hi = bounds()
            lo2, hi2 = bounds()
            lines.append("  A%d : ARRAY[%s..%s, %s..%s] OF INT;" % (i, b2s(lo), b2s(hi), b2s(lo2), b2s(hi2)))
    lines.append("END_TYPE")
    if rng.random() < 0.5:
        lo, hi = bounds()
        lines.append("FUNCTION_BLOCK fb_d\nVAR\n  r : INT (%s..%s);\n  q : ARRAY[%s..%s] OF BOOL;\nEND_VAR\nEND_FUNCTION_BLOCK" % (
            b2s(lo), b2s(hi), b2s(hi), b2s(lo)))
    return "\n".join(lines) + "\n"


def check_declrules(run, filesets, info, tag, labels_are_property=False):
    """The three rules run by themselves on the resolved library; the models get the declaration facts of that library.  Per
    rule the lists of (code, primary label, secondary labels) must be equal, in order.  A different verdict or code is a failing
    input; so is a different label when `labels_are_property` (C05: the model's labels are the documented places, theorems
    C05_struct_labels / C05_enum_labels / C05_subrange_labels); otherwise it is a broken correspondence."""
    if not filesets or not info.get("extract_ok"):
        return 0, 0
    cases = [{"id": i, "op": "declfacts", "files": [[n, hexs(t)] for n, t in fs]} for i, fs in enumerate(filesets)]
    res = vlib.run_impl(cases, run.workdir, per_case_timeout=30)
    lines = []
    for i, r in enumerate(res):
        if "panic" in r or "abort" in r:
            text = "\n".join(t for _, t in filesets[i])
            run.violation("impl-violates-property", "a rule on type declarations crashed (%s): %s" % (
                str(r.get("panic") or r.get("abort"))[:160], text[:200].replace("\n", " ")), {"input": {"text": text, "files": [[n, t] for n, t in filesets[i]]}})
            continue
        if "facts" not in r or r.get("parse_errs") or "rules" not in r:
            continue
        lines.append(("declrules", i, r["facts"]))
    model = vlib.run_model(lines, run.workdir)
    compared = bad = 0
    for op, i, facts in lines:
        m = model.get(str(i))
        r = res[i]
        text = "\n".join(t for _, t in filesets[i])
        rep = {"input": {"text": text, "files": [[n, t] for n, t in filesets[i]]}, "decl_facts": facts, "op": "declrules"}
        if not m or len(m) != len(DECL_RULES):
            bad += 1
            run.violation("correspondence", "the declaration rule models gave no answer (%r) for: %s" % (m, text[:160].replace("\n", " ")), rep, no_input=True)
            continue
        compared += 1
        run.cov["traces_validated_against_impl"] += 1
        run.count(("declfacts", tuple(filesets[i])), True, "decl-rule-facts:" + tag)
        for k, rule in enumerate(DECL_RULES):
            want = _model_labelled(m[k])
            got = _impl_labelled(r["rules"].get(rule, []))
            if want:
                run.count(("decl-rule-fires", rule, tuple(filesets[i])), False, "decl-rule-model-fires:%s:%d" % (rule[5:], min(len(want), 3)))
            if want == got:
                continue
            bad += 1
            codes_w, codes_g = [c for c, _, _ in want], [c for c, _, _ in got]
            if codes_w != codes_g:
                what = "%s reports %r, the documented rule gives %r" % (rule, ["P%04d" % c for c in codes_g], ["P%04d" % c for c in codes_w])
                run.violation("impl-violates-property", what + ": " + text[:200].replace("\n", " "), dict(rep, rule=rule, model=want, impl=got))
            elif labels_are_property:
                b = text.encode("utf-8")
                j = next(x for x in range(len(want)) if want[x] != got[x])
                sl = lambda s: b[s[0]:s[1]].decode("utf-8", "replace")
                what = "%s: diagnostic %d has its labels on %r (offsets %r), the documented places are %r (offsets %r)" % (
                    rule, j, [sl(got[j][1])] + [sl(x) for x in got[j][2]], [got[j][1]] + got[j][2],
                    [sl(want[j][1])] + [sl(x) for x in want[j][2]], [want[j][1]] + want[j][2])
                run.violation("impl-violates-property", what + ": " + text[:200].replace("\n", " "), dict(rep, rule=rule, model=want, impl=got))
            else:
                run.cov["disagreements_checked"] += 1
                run.violation("correspondence", "%s labels %r, the model computes %r: %s" % (rule, got, want, text[:200].replace("\n", " ")),
                              dict(rep, rule=rule), no_input=True)
            break
    return compared, bad


def replay_declrules(run, files):
    """1 when model and rules still differ on the recorded files, 0 when they agree, 2 when it cannot be decided"""
    r = vlib.run_impl([{"id": 0, "op": "declfacts", "files": [[n, hexs(t)] for n, t in files]}], run.workdir, per_case_timeout=30)[0]
    if "panic" in r or "abort" in r:
        return 1
    if "facts" not in r or "rules" not in r:
        return 2
    m = vlib.run_model([("declrules", 0, r["facts"])], run.workdir).get("0")
    if not m or len(m) != len(DECL_RULES):
        return 2
    for k, rule in enumerate(DECL_RULES):
        if _model_labelled(m[k]) != _impl_labelled(r["rules"].get(rule, [])):
            return 1
    return 0
