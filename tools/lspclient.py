"""Drives the real `ironplcc lsp --stdio`: writes a whole session (initialize, initialized, the given
messages, shutdown, exit) and reads every frame the server wrote.  The server loop is single-threaded and
answers in order, so all outputs for earlier messages precede the shutdown reply; no sleeps are needed."""
import json
import subprocess


def frame(obj):
    b = json.dumps(obj).encode("utf-8")
    return b"Content-Length: %d\r\n\r\n" % len(b) + b


def parse_frames(data):
    out = []
    i = 0
    while True:
        j = data.find(b"\r\n\r\n", i)
        if j < 0:
            break
        hdr = data[i:j].decode("ascii", "replace")
        n = None
        for line in hdr.split("\r\n"):
            if line.lower().startswith("content-length:"):
                n = int(line.split(":")[1].strip())
        if n is None:
            break
        body = data[j + 4:j + 4 + n]
        if len(body) < n:
            out.append({"__truncated__": True})
            break
        try:
            out.append(json.loads(body.decode("utf-8")))
        except Exception:
            out.append({"__bad_json__": body[:200].decode("utf-8", "replace")})
        i = j + 4 + n
    return out


INIT_ID = 900000000
SHUT_ID = 900000001


def did_open(uri, version, text):
    return {"jsonrpc": "2.0", "method": "textDocument/didOpen",
            "params": {"textDocument": {"uri": uri, "languageId": "61131-3-st", "version": version, "text": text}}}


def did_change(uri, version, texts):
    return {"jsonrpc": "2.0", "method": "textDocument/didChange",
            "params": {"textDocument": {"uri": uri, "version": version}, "contentChanges": [{"text": t} for t in texts]}}


def sem_tokens(rid, uri):
    return {"jsonrpc": "2.0", "id": rid, "method": "textDocument/semanticTokens/full",
            "params": {"textDocument": {"uri": uri}}}


def session(binpath, messages, timeout=60, shutdown=True, do_exit=True):
    """returns dict(exit=code|'timeout', frames=[...] (after the initialize reply), stderr=str)"""
    data = frame({"jsonrpc": "2.0", "id": INIT_ID, "method": "initialize",
                  "params": {"processId": None, "rootUri": None, "capabilities": {}}})
    data += frame({"jsonrpc": "2.0", "method": "initialized", "params": {}})
    for m in messages:
        data += frame(m)
    if shutdown:
        data += frame({"jsonrpc": "2.0", "id": SHUT_ID, "method": "shutdown", "params": None})
    if do_exit:
        data += frame({"jsonrpc": "2.0", "method": "exit", "params": None})
    try:
        p = subprocess.run([binpath, "lsp", "--stdio"], input=data, stdout=subprocess.PIPE, stderr=subprocess.PIPE,
                           timeout=timeout)
        code = p.returncode
        out, err = p.stdout, p.stderr
    except subprocess.TimeoutExpired as e:
        code = "timeout"
        out, err = e.stdout or b"", e.stderr or b""
    frames = parse_frames(out)
    init = [f for f in frames if f.get("id") == INIT_ID]
    rest = [f for f in frames if f.get("id") != INIT_ID]
    return {"exit": code, "frames": rest, "init": init[0] if init else None,
            "stderr": err.decode("utf-8", "replace")[-2000:]}
