"""Shared pieces of the C11 / C12 checks: the document alphabet, message encoding for the real server and for the
model driver, and the skeleton (which frames, for which document / id, with which version) of a real session."""
import lspclient

DOCS = [
    ("valid", "FUNCTION_BLOCK Counter\nVAR n : INT; END_VAR\nn := n + 1;\nEND_FUNCTION_BLOCK\n"),
    ("lexical-error", "PROGRAM plex\nVAR x : INT; END_VAR\nx := 1 ? 2;\nEND_PROGRAM\n"),
    ("syntax-error", "PROGRAM psyn\nVAR x : INT; END_VAR\nx := ;\nEND_PROGRAM\n"),
    ("semantic-error", "PROGRAM psem\nVAR x : INT; END_VAR\n(* c *) y := 1;\nEND_PROGRAM\n"),
    ("depends-on-other", "PROGRAM pdep\nVAR c : Counter; END_VAR\nc();\nEND_PROGRAM\n"),
    # a diagnostic with labels in two documents: the call site (far into a long document) and the callee's declaration
    ("cross-file-caller", "(* " + "padding " * 40 + "*)\nPROGRAM pcall\nVAR latch1 : Latch; b : BOOL; END_VAR\nlatch1(SETT := b);\nEND_PROGRAM\n"),
    ("cross-file-callee", "FUNCTION_BLOCK Latch\nVAR_INPUT SET1 : BOOL; END_VAR\nEND_FUNCTION_BLOCK\n"),
    # characters outside ASCII in front of the diagnosed place, on the same line (columns are counted in characters)
    ("semantic-error-after-umlaut", "PROGRAM pu\nVAR x : INT; END_VAR\n(* Zähler für Überlauf *) y := 1;\nEND_PROGRAM\n"),
    ("syntax-error-after-cjk", "PROGRAM pc\nVAR x : INT; s : STRING; END_VAR\ns := '日本語'; x := ;\nEND_PROGRAM\n"),
    ("lexical-error-after-accent", "PROGRAM pa\nVAR x : INT; END_VAR\n(* é *) x := 1 ? 2;\nEND_PROGRAM\n"),
    # the same text with and without white space at the end, once failing at the very end (no END_PROGRAM) and once valid: an editor
    # that trims on save sends the second after the first; whatever was remembered about the first must not be applied to it
    ("unfinished-with-blank-lines", "PROGRAM pt\nVAR x : INT; END_VAR\nx := 1;\n\n\n   \n"),
    ("unfinished-trimmed", "PROGRAM pt\nVAR x : INT; END_VAR\nx := 1;"),
    ("valid-with-blank-lines", "PROGRAM pv\nVAR x : INT; END_VAR\nx := 1;\nEND_PROGRAM\n\n\t \n"),
    ("valid-trimmed", "PROGRAM pv\nVAR x : INT; END_VAR\nx := 1;\nEND_PROGRAM"),
    # two places that are no token: `check` reports the first (the parse stops there); so must the server
    # a syntax error whose unexpected token is a long string of two-byte characters, starting at an even and at an odd byte offset:
    # wherever a message that quotes the token is cut, shortened or measured in bytes, one of the two has a character across that place
    ("syntax-error-at-long-cyrillic-string", "PROGRAM pcy\nVAR x : INT; END_VAR\n'" + "Жщ" * 800 + "'\nEND_PROGRAM\n"),
    ("syntax-error-at-long-cyrillic-string-shifted", "PROGRAM pcy\nVAR x : INT; END_VAR\n'#" + "Жщ" * 800 + "'\nEND_PROGRAM\n"),
    ("lexical-errors-two", "PROGRAM pl2\nVAR x : INT; END_VAR\nx := 1 ? 2;\nx := 3 ! 4 ?? 5;\nEND_PROGRAM\n"),
]


# documents live under paths that need percent-encoding in a URI (a blank, a non-ASCII letter, a '#', a '+'): what the server
# makes of the URI must not decide whether the document's diagnostics are published
URI_DIRS = ["w", "w/my%20project", "w/caf%C3%A9", "w/a+b/c%23", "w/%E6%97%A5%E6%9C%AC"]


BAD_PARAMS = [{}, {"textDocument": 5}, None, [], {"textDocument": {"uri": 7}}, {"textDocument": {}}, "x",
              {"textDocument": {"uri": "not a uri"}}]


URI_ROOT = ""      # percent-encoded absolute directory in front of the document paths ("" : paths that exist nowhere)


def uri_str(uid, is_file):
    if not is_file:
        return "untitled:Untitled-%d" % uid
    return "file://%s/%s/doc%s%d.st" % (URI_ROOT, URI_DIRS[uid % len(URI_DIRS)], "%20" if uid % 2 else "", uid)


def put_on_disk(root_dir, text, uids=(1, 2, 3)):
    """from now on the documents' URIs name files that exist, under root_dir, all holding `text` -- content the editor never
    sends: what is on disk behind an open, changed or closed document is not part of what the server is told"""
    import os
    import urllib.parse
    global URI_ROOT
    URI_ROOT = urllib.parse.quote(os.path.abspath(root_dir))
    for uid in uids:
        path = urllib.parse.unquote(uri_str(uid, True)[len("file://"):])
        os.makedirs(os.path.dirname(path), exist_ok=True)
        with open(path, "w", encoding="utf-8") as f:
            f.write(text)


def to_real(m, texts):
    """m: tuple as produced by the generators; texts: list of document texts"""
    k = m[0]
    if k == "O":
        return lspclient.did_open(uri_str(m[1], m[2]), m[3], texts[m[4]])
    if k == "C":
        return lspclient.did_change(uri_str(m[1], m[2]), m[3], [texts[d] for d in m[4]])
    if k == "S":
        return lspclient.sem_tokens(m[1], uri_str(m[2], m[3]))
    if k == "X":
        return {"jsonrpc": "2.0", "method": "textDocument/didClose", "params": {"textDocument": {"uri": uri_str(m[1], m[2])}}}
    if k == "B":
        # a request of an implemented method whose parameters do not have the method's shape
        return {"jsonrpc": "2.0", "id": m[1], "method": "textDocument/semanticTokens/full", "params": BAD_PARAMS[m[2] % len(BAD_PARAMS)]}
    if k == "Q":
        return {"jsonrpc": "2.0", "id": m[1], "method": m[2], "params": {"textDocument": {"uri": uri_str(1, True)},
                                                                        "position": {"line": 0, "character": 0}}}
    if k == "N":
        # (implemented methods appear here too, with parameters that do not have their shape: nothing is done for them)
        return {"jsonrpc": "2.0", "method": m[1], "params": BAD_PARAMS[m[2] % len(BAD_PARAMS)] if len(m) > 2 else {}}
    if k == "A":
        return {"jsonrpc": "2.0", "id": m[1], "result": None}
    if k == "H":
        return {"jsonrpc": "2.0", "id": m[1], "method": "shutdown", "params": None}
    if k == "Z":
        return {"jsonrpc": "2.0", "method": "exit", "params": None}
    raise ValueError(m)


def to_model(m, clean):
    """encoding for the extracted model: a document is 2*index + (1 if it tokenizes without error)"""
    k = m[0]
    enc = lambda d: str(2 * d + (1 if clean[d] else 0))
    if k == "O":
        return "O %d %d %d %s" % (m[1], 1 if m[2] else 0, m[3], enc(m[4]))
    if k == "C":
        return "C %d %d %d %s" % (m[1], 1 if m[2] else 0, m[3], ",".join(enc(d) for d in m[4]) if m[4] else "-")
    if k == "S":
        return "S %d %d %d" % (m[1], m[2], 1 if m[3] else 0)
    if k == "X":
        return "X %d %d" % (m[1], 1 if m[2] else 0)
    if k == "B":
        return "B %d" % m[1]
    if k == "Q":
        return "Q %d" % m[1]
    if k == "N":
        return "N"
    if k == "A":
        return "A %d" % m[1]
    if k == "H":
        return "H %d" % m[1]
    if k == "Z":
        return "Z"
    raise ValueError(m)


def skeleton(frames):
    """the observable skeleton of the frames written after initialization, without the shutdown reply"""
    out = []
    for f in frames:
        if f.get("id") == lspclient.SHUT_ID:
            continue
        if f.get("method") == "textDocument/publishDiagnostics":
            p = f["params"]
            out.append(("P", p["uri"], p.get("version")))
        elif "method" in f:
            out.append(("X", f["method"]))
        elif "error" in f:
            out.append(("E", f.get("id"), f["error"].get("code")))
        elif "result" in f:
            out.append(("R", f.get("id"), f["result"] is not None))
        else:
            out.append(("?", str(f)[:80]))
    return out


def model_skeleton(field, uid_file):
    out = []
    if not field:
        return out
    for it in field.split(";"):
        p = it.split(" ")
        if p[0] == "P":
            out.append(("P", uri_str(int(p[1]), p[2] == "1"), int(p[3])))
        elif p[0] == "R":
            out.append(("R", int(p[1]), p[2] == "1"))
        elif p[0] == "E":
            out.append(("E", int(p[1]), int(p[2])))
    return out


def diag_key(d):
    """(code, start line, start character) of an LSP diagnostic"""
    c = d.get("code")
    r = d.get("range", {}).get("start", {})
    return (c, r.get("line"), r.get("character"))
