#!/usr/bin/env python3
"""Translator: regenerates coq/Gen/*.v from the Rust sources of /repo on every run.

Only behaviour-defining *data* is transcribed (token table, precedence table, legend table,
stage lists, decoder list, problem codes ...).  Total-or-refuse: if a source no longer has the shape
expected here, an exception is raised and the caller treats that like a failed proof obligation.
Files are rewritten only when their content changes so that an untouched source triggers no
recompilation.
"""
import os
import re
import sys
import json

REPO = os.environ.get("VERIF_REPO", "/repo")
OUT = os.path.join(os.path.dirname(os.path.dirname(os.path.abspath(__file__))), "coq", "Gen")


class Refuse(Exception):
    pass


def read(rel):
    with open(os.path.join(REPO, rel), encoding="utf-8") as f:
        return f.read()


def coq_string(s):
    """A Coq string literal for an ASCII python string."""
    for ch in s:
        if ord(ch) > 126 or (ord(ch) < 32):
            raise Refuse("non printable in string literal: %r" % s)
    return '"' + s.replace('"', '""') + '"'


def coq_text(s):
    """list N of code points"""
    return "[" + "; ".join(str(ord(c)) for c in s) + "]%N"


def write_if_changed(name, content):
    os.makedirs(OUT, exist_ok=True)
    p = os.path.join(OUT, name)
    old = None
    if os.path.exists(p):
        with open(p, encoding="utf-8") as f:
            old = f.read()
    if old != content:
        with open(p, "w", encoding="utf-8") as f:
            f.write(content)
        return True
    return False


def rust_str_literal(tok):
    """Decode a Rust string literal token: r"..." or "..." (with simple escapes)."""
    tok = tok.strip()
    if tok.startswith('r"') and tok.endswith('"'):
        return tok[2:-1]
    if tok.startswith('"') and tok.endswith('"'):
        body = tok[1:-1]
        out = []
        i = 0
        while i < len(body):
            c = body[i]
            if c == "\\":
                n = body[i + 1]
                m = {"n": "\n", "r": "\r", "t": "\t", "\\": "\\", '"': '"', "'": "'", "0": "\0"}
                if n not in m:
                    raise Refuse("unknown escape in %r" % tok)
                out.append(m[n])
                i += 2
            else:
                out.append(c)
                i += 1
        return "".join(out)
    raise Refuse("not a string literal: %r" % tok)


# ------------------------------------------------------------------------------------------
# token.rs -> GenTokens.v
# ------------------------------------------------------------------------------------------
ATTR_RE = re.compile(r'^\s*#\[(token|regex)\((.*)\)\]\s*$')
VARIANT_RE = re.compile(r'^\s*([A-Z][A-Za-z0-9]*),\s*$')


def split_attr_args(s):
    """split top level arguments of #[token(...)]: first is a string literal"""
    s = s.strip()
    # find the end of the first string literal
    if s.startswith('r"'):
        end = s.index('"', 2)
    elif s.startswith('"'):
        i = 1
        while True:
            if s[i] == "\\":
                i += 2
                continue
            if s[i] == '"':
                break
            i += 1
        end = i
    else:
        raise Refuse("token attribute without literal: %r" % s)
    lit = s[: end + 1]
    rest = s[end + 1:].strip()
    opts = [x.strip() for x in rest.split(",") if x.strip()]
    return lit, opts


def parse_tokens():
    src = read("compiler/parser/src/token.rs")
    m = re.search(r"pub enum TokenType \{\n(.*?)\n\}\n", src, re.S)
    if not m:
        raise Refuse("token.rs: enum TokenType not found")
    body = m.group(1)
    variants = []  # names in order
    literals = []  # (text, ignore_case, kind)
    regexes = []  # (pattern, ignore_case, priority or None, kind)
    pending = []
    for line in body.split("\n"):
        if not line.strip() or line.strip().startswith("//"):
            continue
        a = ATTR_RE.match(line)
        if a:
            kind, args = a.group(1), a.group(2)
            lit, opts = split_attr_args(args)
            text = rust_str_literal(lit)
            ic = False
            prio = None
            for o in opts:
                if o == "ignore(case)":
                    ic = True
                elif o.startswith("priority"):
                    prio = int(o.split("=")[1].strip())
                else:
                    raise Refuse("token.rs: unknown option %r" % o)
            pending.append((kind, text, ic, prio))
            continue
        v = VARIANT_RE.match(line)
        if v:
            name = v.group(1)
            if not pending:
                raise Refuse("token.rs: variant %s without pattern" % name)
            variants.append(name)
            for kind, text, ic, prio in pending:
                if kind == "token":
                    literals.append((text, ic, name))
                else:
                    regexes.append((text, ic, prio, name))
            pending = []
            continue
        raise Refuse("token.rs: unexpected line in enum: %r" % line)
    if pending:
        raise Refuse("token.rs: dangling attributes")
    return variants, literals, regexes


def kname(v):
    return "K" + v


def gen_tokens():
    variants, literals, regexes = parse_tokens()
    o = []
    o.append("(* GENERATED by tools/translate.py from compiler/parser/src/token.rs -- do not edit *)")
    o.append("From Coq Require Import List NArith String.")
    o.append("Import ListNotations.")
    o.append("Local Open Scope string_scope.")
    o.append("")
    o.append("Inductive tok_kind : Set :=")
    for v in variants:
        o.append("  | %s" % kname(v))
    o.append(".")
    o.append("")
    o.append("Definition tok_index (k : tok_kind) : N :=")
    o.append("  match k with")
    for i, v in enumerate(variants):
        o.append("  | %s => %d" % (kname(v), i))
    o.append("  end%N.")
    o.append("")
    o.append("Definition tok_name (k : tok_kind) : string :=")
    o.append("  match k with")
    for v in variants:
        o.append("  | %s => %s" % (kname(v), coq_string(v)))
    o.append("  end.")
    o.append("")
    o.append("Definition all_kinds : list tok_kind :=")
    o.append("  [" + "; ".join(kname(v) for v in variants) + "].")
    o.append("")
    o.append("(* #[token(text, ignore(case)?)]: (code points, ignore_case, kind), source order *)")
    o.append("Definition literal_tokens : list (list N * bool * tok_kind) :=")
    rows = ["  (%s, %s, %s)" % (coq_text(t), "true" if ic else "false", kname(k)) for t, ic, k in literals]
    o.append("  [\n" + ";\n".join(rows) + "\n  ].")
    o.append("")
    o.append("(* #[regex(pattern, ignore(case)?, priority?)]: (pattern source, ignore_case, kind), source order *)")
    o.append("Definition regex_tokens : list (string * bool * tok_kind) :=")
    rows = ["  (%s, %s, %s)" % (coq_string(t), "true" if ic else "false", kname(k)) for t, ic, p, k in regexes]
    o.append("  [\n" + ";\n".join(rows) + "\n  ].")
    o.append("")
    write_if_changed("GenTokens.v", "\n".join(o) + "\n")
    return {"variants": len(variants), "literals": len(literals), "regexes": len(regexes)}


# ------------------------------------------------------------------------------------------
# lsp_project.rs -> GenLegend.v
# ------------------------------------------------------------------------------------------
def gen_legend():
    variants, _, _ = parse_tokens()
    src = read("compiler/plc2x/src/lsp_project.rs")
    m = re.search(r"pub const TOKEN_TYPE_LEGEND: \[SemanticTokenType; (\d+)\] = \[(.*?)\];", src, re.S)
    if not m:
        raise Refuse("lsp_project.rs: TOKEN_TYPE_LEGEND not found")
    names = re.findall(r"SemanticTokenType::([A-Z_]+)", m.group(2))
    if len(names) != int(m.group(1)):
        raise Refuse("lsp_project.rs: legend length mismatch")
    consts = dict((k, int(v)) for k, v in re.findall(r"const ([A-Z_]+_INDEX): u32 = (\d+);", src))
    m = re.search(r"let token_type = match val\.0\.token_type \{\n(.*?)\n        \};", src, re.S)
    if not m:
        raise Refuse("lsp_project.rs: token type match not found")
    arms = {}
    for line in m.group(1).split("\n"):
        line = line.strip()
        if not line or line.startswith("//"):
            continue
        a = re.match(r"^TokenType::([A-Za-z0-9]+) => (None|Some\(([A-Z_]+)\)),$", line)
        if not a:
            raise Refuse("lsp_project.rs: unexpected match arm %r" % line)
        if a.group(1) in arms:
            raise Refuse("lsp_project.rs: duplicate arm %s" % a.group(1))
        if a.group(2) == "None":
            arms[a.group(1)] = None
        else:
            if a.group(3) not in consts:
                raise Refuse("lsp_project.rs: unknown index constant %s" % a.group(3))
            arms[a.group(1)] = consts[a.group(3)]
    for v in variants:
        if v not in arms:
            raise Refuse("lsp_project.rs: no arm for %s" % v)
    # the fields of the emitted SemanticToken
    m = re.search(r"token_type\.map\(\|token_type\| SemanticToken \{(.*?)\}\)", src, re.S)
    if not m:
        raise Refuse("lsp_project.rs: SemanticToken construction not found")
    fields = [x.strip() for x in m.group(1).strip().split("\n")]
    expect = ["delta_line: val.0.line as u32,", "delta_start: val.0.col as u32,", "length: val.0.text.len() as u32,",
              "token_type,", "token_modifiers_bitset: 0,"]
    if fields != expect:
        raise Refuse("lsp_project.rs: SemanticToken fields changed: %r" % fields)
    o = ["(* GENERATED by tools/translate.py from compiler/plc2x/src/lsp_project.rs -- do not edit *)",
         "From Coq Require Import List NArith String.", "From Verif Require Import Gen.GenTokens.",
         "Import ListNotations.", "Local Open Scope string_scope.", "",
         "Definition legend : list string := [" + "; ".join(coq_string(n.lower()) for n in names) + "].", "",
         "Definition legend_of (k : tok_kind) : option N :=", "  match k with"]
    for v in variants:
        o.append("  | %s => %s" % (kname(v), "None" if arms[v] is None else "Some %d%%N" % arms[v]))
    o.append("  end.")
    write_if_changed("GenLegend.v", "\n".join(o) + "\n")
    return {"legend": names, "highlighted": sum(1 for v in variants if arms[v] is not None)}


# ------------------------------------------------------------------------------------------
# source.rs -> GenDecoders.v
# ------------------------------------------------------------------------------------------
def gen_decoders():
    src = read("compiler/plc2x/src/source.rs")
    m = re.search(r"fn path_to_source\(path: &Path\) -> Result<String, Diagnostic> \{(.*?)\n\}\n", src, re.S)
    if not m:
        raise Refuse("source.rs: path_to_source not found")
    body = m.group(1)
    code = "\n".join(l for l in body.split("\n") if not l.strip().startswith("//") and "trace!" not in l and "debug!" not in l)
    m = re.search(r"let decoders: \[&'static encoding_rs::Encoding; (\d+)\] =\s*\[(.*?)\];", code, re.S)
    if not m:
        raise Refuse("source.rs: decoder array not found")
    names = [x.strip() for x in m.group(2).split(",") if x.strip()]
    if len(names) != int(m.group(1)):
        raise Refuse("source.rs: decoder array length mismatch")
    known = {"encoding_rs::UTF_8": "E8", "encoding_rs::WINDOWS_1252": "E1252", "encoding_rs::UTF_16LE": "E16LE",
             "encoding_rs::UTF_16BE": "E16BE"}
    for n in names:
        if n not in known:
            raise Refuse("source.rs: decoder %s has no model" % n)
    # the shape of the cascade: read the file, first decoder without errors, else UnsupportedEncoding
    squashed = re.sub(r"\s+", " ", code)
    for frag in ["let bytes = std::fs::read(path)", "decoders.into_iter().find_map(move |d| {",
                 "let (res, encoding_used, had_errors) = d.decode(&bytes);", "if had_errors {", "return None; }",
                 "Some(res.to_string()) });", "match result { Some(res) => Ok(res), None => Err(diagnostic( Problem::UnsupportedEncoding,"]:
        if frag not in squashed:
            raise Refuse("source.rs: path_to_source no longer has the modelled shape (missing %r)" % frag)
    # nothing else may decode or transform: count statements
    if squashed.count(".decode(") != 1 or squashed.count("decode") != squashed.count("decoders") + 1 or "mem::" in squashed:
        raise Refuse("source.rs: path_to_source decodes in a way the model does not know")
    o = ["(* GENERATED by tools/translate.py from compiler/plc2x/src/source.rs -- do not edit *)",
         "From Coq Require Import List.", "From Verif Require Import Model.Decode.", "Import ListNotations.", "",
         "Definition decoders : list enc := [" + "; ".join(known[n] for n in names) + "].", ""]
    write_if_changed("GenDecoders.v", "\n".join(o) + "\n")
    return {"decoders": names}


# ------------------------------------------------------------------------------------------
# preprocessor.rs, lib.rs -> GenPipeline.v: the steps between the caller's text and the tokens
# ------------------------------------------------------------------------------------------
def fn_body(src, header_re, what):
    m = re.search(header_re, src)
    if not m:
        raise Refuse("%s not found" % what)
    i = src.index("{", m.end() - 1)
    depth = 0
    for j in range(i, len(src)):
        if src[j] == "{":
            depth += 1
        elif src[j] == "}":
            depth -= 1
            if depth == 0:
                return src[i + 1:j]
    raise Refuse("%s: unbalanced braces" % what)


def code_lines(body):
    out = []
    for l in body.split("\n"):
        l = l.strip()
        if not l or l.startswith("//"):
            continue
        out.append(l)
    return out


def gen_pipeline():
    pre = read("compiler/parser/src/preprocessor.rs")
    body = code_lines(fn_body(pre, r"pub fn preprocess\(source: &str\) -> String \{", "preprocessor.rs: preprocess"))
    if body != ["let source = source.to_string();", "remove_oscat_comment(source)"]:
        raise Refuse("preprocessor.rs: preprocess() has steps the model does not know: %r" % body)
    lib = read("compiler/parser/src/lib.rs")
    tb = " ".join(code_lines(fn_body(lib, r"pub fn tokenize_program\(", "lib.rs: tokenize_program")))
    for frag in ["let source = preprocess(source);", "tokenize(&source, file_id)", "insert_keyword_statement_terminators("]:
        if frag not in tb:
            raise Refuse("lib.rs: tokenize_program no longer has the modelled shape (missing %r): %s" % (frag, tb))
    o = ["(* GENERATED by tools/translate.py from compiler/parser/src/{preprocessor,lib}.rs -- do not edit *)",
         "From Coq Require Import List String.", "Import ListNotations.", "Local Open Scope string_scope.", "",
         'Definition preprocess_steps : list string := ["remove_oscat_comment"].',
         'Definition tokenize_program_steps : list string := ["preprocess"; "tokenize"; "insert_keyword_statement_terminators"].', ""]
    write_if_changed("GenPipeline.v", "\n".join(o) + "\n")
    return {"preprocess": body, "tokenize_program": "ok"}


# ------------------------------------------------------------------------------------------
# xform_toposort_declarations.rs -> GenTopo.v: which visitor adds which edge, in which direction
# ------------------------------------------------------------------------------------------
def gen_topo():
    src = read("compiler/analyzer/src/xform_toposort_declarations.rs")
    src = src.split("#[cfg(test)]")[0]
    m = re.search(r"impl DeclarationsGraph \{(.*?)\n\}\n", src, re.S)
    if not m:
        raise Refuse("toposort: impl DeclarationsGraph not found")
    methods = re.findall(r"\n    fn (\w+)\(", m.group(1))
    if methods != ["new", "add_node", "sorted_ids"]:
        raise Refuse("toposort: DeclarationsGraph has methods the model does not know: %r" % methods)
    if "toposort(&self.graph, None).map_err(" not in m.group(1) or "Problem::RecursiveCycle" not in m.group(1):
        raise Refuse("toposort: sorted_ids no longer reports RecursiveCycle from petgraph::toposort")
    addnode = fn_body(m.group(1), r"fn add_node\(&mut self, id: &Id\) -> NodeIndex<u32> \{", "toposort: add_node")
    sq = " ".join(code_lines(addnode))
    for frag in ["match self.id_to_index.get(id) {", "Some(existing_index) => *existing_index,", "let new_index = self.graph.add_node(());",
                 "self.id_to_index.insert(id.clone(), new_index);"]:
        if frag not in sq:
            raise Refuse("toposort: add_node no longer has the modelled shape (missing %r)" % frag)
    if "id_to_index: HashMap<Id, NodeIndex>," not in src:
        raise Refuse("toposort: id_to_index is no longer keyed by Id (case-insensitive identifier)")
    vis = re.search(r"impl Visitor<Diagnostic> for RuleGraphReferenceableElements \{(.*)\n\}\n", src, re.S)
    if not vis:
        raise Refuse("toposort: visitor impl not found")
    body = vis.group(1)
    rows = []
    parts = re.split(r"\n    fn (visit_\w+)\(", body)
    # parts: [pre, name1, body1, name2, body2 ...]
    for i in range(1, len(parts), 2):
        name, b = parts[i], parts[i + 1]
        # edges under match arms of InitialValueAssignmentKind are attributed to the arm
        if name == "visit_initial_value_assignment_kind":
            arms = re.split(r"InitialValueAssignmentKind::(\w+)\(\w+\) => \{", b)
            for j in range(1, len(arms), 2):
                arm, ab = arms[j], arms[j + 1].split("InitialValueAssignmentKind::")[0]
                for a, c in re.findall(r"graph\s*\.add_edge\((\w+), (\w+), \(\)\)", ab):
                    rows.append((name + ":" + arm, a, c))
        else:
            for a, c in re.findall(r"graph\s*\.add_edge\((\w+), (\w+), \(\)\)", b):
                rows.append((name, a, c))
    if src.count("add_edge(") != len(rows):
        raise Refuse("toposort: an add_edge call was not attributed to a visitor (%d calls, %d rows)" % (src.count("add_edge("), len(rows)))
    o = ["(* GENERATED by tools/translate.py from compiler/analyzer/src/xform_toposort_declarations.rs -- do not edit *)",
         "From Coq Require Import List String.", "Import ListNotations.", "Local Open Scope string_scope.", "",
         "(* (visitor, first argument of add_edge, second argument) in source order *)",
         "Definition topo_edges : list (string * string * string) :=", "  [" + ";\n   ".join("(%s, %s, %s)" % (coq_string(a), coq_string(b), coq_string(c)) for a, b, c in rows) + "].", ""]
    write_if_changed("GenTopo.v", "\n".join(o) + "\n")
    return {"edges": rows}


# ------------------------------------------------------------------------------------------
# stages.rs -> GenStages.v: the ordered transforms and rules, and how their results are combined
# ------------------------------------------------------------------------------------------
def gen_stages():
    src = read("compiler/analyzer/src/stages.rs").split("#[cfg(test)]")[0]
    m = re.search(r"let xforms: Vec<fn\(Library\) -> Result<Library, Vec<Diagnostic>>> = vec!\[(.*?)\];", src, re.S)
    if not m:
        raise Refuse("stages.rs: transform list not found")
    xforms = re.findall(r"(\w+)::apply", m.group(1))
    m = re.search(r"let functions: Vec<fn\(&Library\) -> SemanticResult> = vec!\[(.*?)\];", src, re.S)
    if not m:
        raise Refuse("stages.rs: rule list not found")
    rules = re.findall(r"(\w+)::apply", m.group(1))
    sq = " ".join(code_lines(src))
    for frag in ["for xform in xforms { library = xform(library)? }", "Err(diagnostics) => { all_diagnostics.extend(diagnostics); }",
                 "if !all_diagnostics.is_empty() { return Err(all_diagnostics); }", "let library = resolve_types(sources)?;",
                 "let result = semantic(&library);", "if sources.is_empty() {", "Problem::NoContent,"]:
        if frag not in sq:
            raise Refuse("stages.rs: no longer has the modelled shape (missing %r)" % frag)
    # every rule / transform module named in stages.rs must exist
    for n in xforms + rules:
        if not os.path.exists(os.path.join(REPO, "compiler/analyzer/src", n + ".rs")):
            raise Refuse("stages.rs: module %s not found" % n)
    o = ["(* GENERATED by tools/translate.py from compiler/analyzer/src/stages.rs -- do not edit *)",
         "From Coq Require Import List String.", "Import ListNotations.", "Local Open Scope string_scope.", "",
         "Definition stage_xforms : list string := [" + "; ".join(coq_string(x) for x in xforms) + "].",
         "Definition stage_rules : list string := [" + "; ".join(coq_string(x) for x in rules) + "].", ""]
    write_if_changed("GenStages.v", "\n".join(o) + "\n")
    return {"xforms": xforms, "rules": rules}


# ------------------------------------------------------------------------------------------
# panic-capable constructs in the input-reachable files -> GenPanicSites.v
# ------------------------------------------------------------------------------------------
PANIC_FILES = ["compiler/parser/src/parser.rs", "compiler/parser/src/lexer.rs", "compiler/parser/src/lib.rs",
               "compiler/parser/src/preprocessor.rs", "compiler/parser/src/xform_tokens.rs", "compiler/parser/src/vars.rs",
               "compiler/parser/src/xform_assign_file_id.rs", "compiler/dsl/src/common.rs", "compiler/dsl/src/time.rs",
               "compiler/dsl/src/core.rs", "compiler/analyzer/src/rule_decl_subrange_limits.rs",
               "compiler/analyzer/src/xform_toposort_declarations.rs", "compiler/analyzer/src/stages.rs",
               "compiler/plc2plc/src/renderer.rs", "compiler/plc2plc/src/lib.rs", "compiler/plc2x/src/source.rs",
               "compiler/plc2x/src/cli.rs", "compiler/plc2x/src/project.rs"]
PANIC_RE = re.compile(r"(panic!|todo!|unimplemented!|unreachable!|\.unwrap\(\)|\.expect\()")


def gen_panic_sites():
    rows = []
    for f in PANIC_FILES:
        src = read(f).split("#[cfg(test)]")[0]
        fn = "-"
        for line in src.split("\n"):
            m = re.match(r"\s*(?:pub(?:\([a-z]+\))?\s+)?(?:rule|fn)\s+(\w+)", line)
            if m:
                fn = m.group(1)
            st = line.strip()
            if st.startswith("//"):
                continue
            for k in PANIC_RE.findall(line):
                rows.append((f.split("/", 1)[1], fn, k.strip(".(")))
    o = ["(* GENERATED by tools/translate.py: panic-capable constructs (panic! todo! unimplemented! unreachable! unwrap expect)",
         "   outside #[cfg(test)] in the files an input can reach -- do not edit *)",
         "From Coq Require Import List String.", "Import ListNotations.", "Local Open Scope string_scope.", "",
         "Definition panic_sites : list (string * string * string) :=",
         "  [" + ";\n   ".join("(%s, %s, %s)" % (coq_string(a), coq_string(b), coq_string(c)) for a, b, c in rows) + "].", ""]
    write_if_changed("GenPanicSites.v", "\n".join(o) + "\n")
    return {"sites": len(rows)}


# ------------------------------------------------------------------------------------------
# parser.rs precedence! block -> GenPrec.v
# ------------------------------------------------------------------------------------------
def gen_prec():
    src = read("compiler/parser/src/parser.rs")
    m = re.search(r"pub rule expression\(\) -> ExprKind = precedence!\{(.*?)\n    \}\n", src, re.S)
    if not m:
        raise Refuse("parser.rs: precedence! block of expression() not found")
    levels = [[]]
    atoms = []
    for line in m.group(1).split("\n"):
        st = line.strip()
        if not st or st.startswith("//"):
            continue
        if st == "--":
            levels.append([])
            continue
        a = re.match(r"^x:(\(@\)|@) _ tok\(TokenType::(\w+)\) ?_ y:(\(@\)|@) \{ ExprKind::(compare|binary)\((?:CompareOp|Operator)::(\w+), x, y ?\) \}$", st)
        if a:
            lassoc, tok, rassoc, ctor, op = a.groups()
            assoc = "left" if (lassoc, rassoc) == ("(@)", "@") else "right" if (lassoc, rassoc) == ("@", "(@)") else "other"
            levels[-1].append((tok, ctor, op, assoc))
            continue
        if st.startswith("p:unary_expression()"):
            atoms.append("unary_expression")
        elif st.startswith("c:constant()"):
            atoms.append("constant")
        elif st.startswith("v:variable()"):
            atoms.append("variable")
        elif st.startswith("tok(TokenType::LeftParen) _ e:expression() _ tok(TokenType::RightParen)"):
            atoms.append("paren")
        elif st.startswith("f:function_expression()"):
            atoms.append("function_expression")
        else:
            raise Refuse("parser.rs: unexpected line in precedence!: %r" % st)
    op_levels = [l for l in levels if l]
    o = ["(* GENERATED by tools/translate.py from the precedence! block of compiler/parser/src/parser.rs -- do not edit *)",
         "From Coq Require Import List String.", "Import ListNotations.", "Local Open Scope string_scope.", "",
         "(* lowest level first; (token, constructor, operator, associativity) *)",
         "Definition prec_table : list (list (string * string * string * string)) :=",
         "  [" + ";\n   ".join("[" + "; ".join("(%s, %s, %s, %s)" % tuple(coq_string(x) for x in row) for row in lvl) + "]" for lvl in op_levels) + "].",
         "Definition prec_atoms : list string := [" + "; ".join(coq_string(a) for a in atoms) + "].", ""]
    write_if_changed("GenPrec.v", "\n".join(o) + "\n")
    return {"levels": [len(l) for l in op_levels], "atoms": atoms}


# ------------------------------------------------------------------------------------------
# problem codes, the Problem:: names each rule module can report, the unsupported standard types -> GenRules.v
# ------------------------------------------------------------------------------------------
def gen_rules():
    csv = read("compiler/problems/resources/problem-codes.csv").splitlines()
    if not csv or not csv[0].startswith("Code,Name"):
        raise Refuse("problem-codes.csv: header changed")
    codes = {}
    for line in csv[1:]:
        if not line.strip():
            continue
        f = line.split(",")
        m = re.fullmatch(r"P(\d{4})", f[0])
        if not m or not re.fullmatch(r"\w+", f[1]):
            raise Refuse("problem-codes.csv: unexpected row %r" % line)
        codes[f[1]] = int(m.group(1))
    stages = gen_stages()
    per_rule = []
    for r in stages["rules"]:
        src = read("compiler/analyzer/src/%s.rs" % r).split("#[cfg(test)]")[0]
        src = "\n".join(code_lines(src))
        names = []
        for n in re.findall(r"Problem::(\w+)", src):
            if n not in codes:
                raise Refuse("%s.rs reports Problem::%s which has no code" % (r, n))
            if n not in names:
                names.append(n)
        todo = bool(re.search(r"Diagnostic::todo", src))
        per_rule.append((r, names, todo))
    std = read("compiler/analyzer/src/stdlib.rs")
    m = re.search(r"static STANDARD_LIBRARY_TYPES_LOWER_CASE: Set<&'static str> = phf_set! \{(.*?)\};", std, re.S)
    if not m or "STANDARD_LIBRARY_TYPES_LOWER_CASE.contains(&ty.name.lower_case().to_string())" not in std:
        raise Refuse("stdlib.rs: the unsupported type set no longer has the modelled shape")
    types = re.findall(r'"([^"]+)"', "\n".join(code_lines(m.group(1))))
    m2 = re.search(r"static ELEMENTARY_TYPES_LOWER_CASE: Set<&'static str> = phf_set! \{(.*?)\};", std, re.S)
    if not m2 or "ELEMENTARY_TYPES_LOWER_CASE.contains(&ty.name.lower_case().to_string())" not in std:
        raise Refuse("stdlib.rs: the elementary type set no longer has the modelled shape")
    elem = re.findall(r'"([^"]+)"', "\n".join(code_lines(m2.group(1))))
    o = ["(* GENERATED by tools/translate.py from compiler/problems/resources/problem-codes.csv, the rule modules named in",
         "   compiler/analyzer/src/stages.rs and compiler/analyzer/src/stdlib.rs -- do not edit *)",
         "From Coq Require Import List String NArith.", "Import ListNotations.", "Local Open Scope string_scope.", ""]
    for n, c in sorted(codes.items(), key=lambda x: x[1]):
        o.append("Definition P_%s : N := %d%%N." % (n, c))
    o.append("")
    o.append("(* per rule module: the problems it can report (in order of first mention) and whether it has a Diagnostic::todo exit *)")
    o.append("Definition rule_problems : list (string * (list N * bool)) := [")
    o.append(";\n".join("  (%s, ([%s], %s))" % (coq_string(r), "; ".join("P_" + n for n in names), "true" if todo else "false")
                        for r, names, todo in per_rule))
    o.append("].")
    o.append("")
    o.append("(* function block types of the standard library that are named but not implemented (lower case) *)")
    o.append("Definition unsupported_types : list (list N) := [" + "; ".join(coq_text(t) for t in types) + "].")
    o.append("")
    o.append("(* the elementary type names (lower case) *)")
    o.append("Definition elementary_types : list (list N) := [" + "; ".join(coq_text(t) for t in elem) + "].")
    o.append("")
    # the transformations report problems too
    xf = []
    for x in stages["xforms"]:
        src = "\n".join(code_lines(read("compiler/analyzer/src/%s.rs" % x).split("#[cfg(test)]")[0]))
        names = []
        for n in re.findall(r"Problem::(\w+)", src):
            if n not in codes:
                raise Refuse("%s.rs reports Problem::%s which has no code" % (x, n))
            if n not in names:
                names.append(n)
        xf.append((x, names, bool(re.search(r"Diagnostic::todo", src))))
    o.append("Definition xform_problems : list (string * (list N * bool)) := [")
    o.append(";\n".join("  (%s, ([%s], %s))" % (coq_string(r), "; ".join("P_" + n for n in names), "true" if todo else "false")
                        for r, names, todo in xf))
    o.append("].")
    o.append("")
    write_if_changed("GenRules.v", "\n".join(o) + "\n")
    return {"codes": len(codes), "rules": {r: names for r, names, _ in per_rule}, "unsupported": len(types)}


def gen_exprkind():
    """xform_resolve_late_bound_expr_kind.rs: the table from initializer kinds to the resolver's variable types, what a
    late-bound element becomes under each of them, how an assignment's target sets the current type, and that the current
    type is reset after an assignment and the table cleared after a unit (the shape Model/ExprKind.v transcribes)."""
    src = read("compiler/analyzer/src/xform_resolve_late_bound_expr_kind.rs").split("#[cfg(test)]")[0]
    src = "\n".join(code_lines(src))
    m = re.search(r"fn insert\(&mut self, node: &VarDecl\) \{(.*?)\nfn find_type", src, re.S)
    if not m:
        raise Refuse("xform_resolve_late_bound_expr_kind.rs: fn insert not found")
    ins = re.findall(r"InitialValueAssignmentKind::(\w+)\(_\) => VariableType::(\w+),", m.group(1))
    if len(ins) != 10 or len(re.findall(r"InitialValueAssignmentKind::", m.group(1))) != 10:
        raise Refuse("xform_resolve_late_bound_expr_kind.rs: insert() no longer maps ten initializer kinds one to one: %r" % (ins,))
    m = re.search(r"ExprKind::LateBound\(node\) => match self\.current_type \{(.*)$", src, re.S)
    if not m:
        raise Refuse("xform_resolve_late_bound_expr_kind.rs: the LateBound arm not found")
    arms = re.split(r"\n\s*VariableType::(\w+) => ", "\n" + m.group(1).strip("\n"))
    late = []
    for name, body in zip(arms[1::2], arms[2::2]):
        if "Diagnostic::todo" in body:
            late.append((name, "None"))
        elif "ExprKind::EnumeratedValue" in body and "ExprKind::Variable" not in body:
            late.append((name, "Some true"))
        elif "ExprKind::Variable" in body and "SymbolicVariableKind::Named" in body and "EnumeratedValue" not in body:
            late.append((name, "Some false"))
        else:
            raise Refuse("xform_resolve_late_bound_expr_kind.rs: arm VariableType::%s is of no known form" % name)
    if len(late) != 10:
        raise Refuse("xform_resolve_late_bound_expr_kind.rs: %d arms for a late-bound element, ten variable types" % len(late))
    m = re.search(r"fn fold_assignment\((.*?)\nfn fold_expr_kind", src, re.S)
    if not m:
        raise Refuse("xform_resolve_late_bound_expr_kind.rs: fold_assignment not found")
    fa = m.group(1)
    targets = []
    for pat, name in ((r"Variable::Direct\(_\) => self\.current_type = VariableType::None", ("Direct", "none")),
                      (r"SymbolicVariableKind::Named\(named\) => \{\s*self\.current_type = self\.find_type\(&named\.name\)\.clone\(\);\s*\}", ("Named", "find")),
                      (r"SymbolicVariableKind::Array\(arr\) => \{\s*Err\(Diagnostic::todo_with_span\(arr\.span\(\), file!\(\), line!\(\)\)\)\?\s*\}", ("Array", "todo")),
                      (r"SymbolicVariableKind::Structured\(st\) => \{\s*Err\(Diagnostic::todo_with_span\(st\.span\(\), file!\(\), line!\(\)\)\)\?\s*\}", ("Structured", "todo"))):
        if not re.search(pat, fa):
            raise Refuse("xform_resolve_late_bound_expr_kind.rs: fold_assignment no longer treats a %s target as modelled" % name[0])
        targets.append(name)
    if len(re.findall(r"SymbolicVariableKind::\w+\(", fa)) != 3 or len(re.findall(r"Variable::\w+\(", fa)) != 2:
        raise Refuse("xform_resolve_late_bound_expr_kind.rs: fold_assignment matches other targets than the four modelled")
    if not re.search(r"let result = node\.recurse_fold\(self\);\s*self\.current_type = VariableType::None;\s*result\s*\}", fa):
        raise Refuse("xform_resolve_late_bound_expr_kind.rs: fold_assignment does not reset the current type after folding the assignment")
    units = re.findall(r"fn fold_(function|function_block|program)_declaration\((.*?)\n\}", src, re.S)
    if len(units) != 3:
        raise Refuse("xform_resolve_late_bound_expr_kind.rs: the three unit folds not found")
    for kind, body in units:
        if not re.search(r"node\.variables\.iter\(\)\.for_each\(\|v\| self\.insert\(v\)\);\s*let result = node\.recurse_fold\(self\);\s*self\.names_to_types\.clear\(\);\s*result", body):
            raise Refuse("xform_resolve_late_bound_expr_kind.rs: fold_%s_declaration no longer inserts its variables, folds, and clears the table" % kind)
    o = ["(* GENERATED by tools/translate.py from compiler/analyzer/src/xform_resolve_late_bound_expr_kind.rs -- do not edit *)",
         "From Coq Require Import List String.", "Import ListNotations.", "Local Open Scope string_scope.", "",
         "(* insert(): initializer kind -> the resolver's variable type *)",
         "Definition gen_insert : list (string * string) := [" + "; ".join("(%s, %s)" % (coq_string(a), coq_string(b)) for a, b in ins) + "].", "",
         "(* what a late-bound element becomes under each variable type: Some false = a variable, Some true = an enumeration value, None = todo *)",
         "Definition gen_late : list (string * option bool) := [" + "; ".join("(%s, %s)" % (coq_string(a), b) for a, b in late) + "].", "",
         "(* how the target of an assignment sets the current type *)",
         "Definition gen_targets : list (string * string) := [" + "; ".join("(%s, %s)" % (coq_string(a), coq_string(b)) for a, b in targets) + "].", "",
         "(* shapes the translator insists on (it refuses otherwise): the current type is reset after an assignment was folded; every",
         "   function, function block and program inserts its variables, folds, then clears the table *)",
         "Definition gen_resets_after_assignment : bool := true.",
         "Definition gen_units_clear_table : list string := [" + "; ".join(coq_string(k) for k, _ in units) + "].", ""]
    write_if_changed("GenExprKind.v", "\n".join(o) + "\n")
    return {"variable_types": len(late), "targets": len(targets)}


def gen_datadecl():
    """xform_resolve_late_bound_data_decl.rs: which declarations enter the graph with which kind, what a late-bound declaration
    becomes for each kind, and the shape of add() (a new node becomes a root with its kind; an existing declared name is a
    duplicate; an existing undeclared node becomes a root with the data it already has)."""
    src = read("compiler/analyzer/src/xform_resolve_late_bound_data_decl.rs").split("#[cfg(test)]")[0]
    src = "\n".join(code_lines(src))
    m = re.search(r"impl Visitor<Diagnostic> for TypeDeclResolver \{(.*?)\nstruct DeclarationResolver", src, re.S)
    if not m:
        raise Refuse("xform_resolve_late_bound_data_decl.rs: the graph-building visitor not found")
    vis = m.group(1)
    fns = re.findall(r"fn visit_(\w+)\(", vis)
    added = re.findall(r"fn visit_(\w+)_declaration\(\s*&mut self,\s*node: &\w+,\s*\) -> Result<Self::Value, Diagnostic> \{\s*self\.add\(&node\.type_name, LateResolvableTypeDecl::(\w+)\)\?;\s*Ok\(\(\)\)\s*\}", vis)
    conn = re.findall(r"fn visit_late_bound_declaration\(\s*&mut self,\s*node: &LateBoundDeclaration,\s*\) -> Result<Self::Value, Diagnostic> \{\s*self\.connect\(\s*&node\.base_type_name,\s*&node\.data_type_name,\s*LateResolvableTypeDecl::LateBound,\s*\);\s*Ok\(\(\)\)\s*\}", vis)
    if len(fns) != 4 or len(added) != 3 or len(conn) != 1:
        raise Refuse("xform_resolve_late_bound_data_decl.rs: the visitor no longer has three add() methods and one connect() method: %r" % (fns,))
    m = re.search(r"fn fold_data_type_declaration_kind\((.*)$", src, re.S)
    if not m:
        raise Refuse("xform_resolve_late_bound_data_decl.rs: the fold not found")
    arms = re.split(r"\n\s*LateResolvableTypeDecl::(\w+) => ", "\n" + m.group(1))
    fold = []
    for name, body in zip(arms[1::2], arms[2::2]):
        body = body.split("\nLateResolvableTypeDecl::")[0]
        mk = re.search(r"Ok\(\s*DataTypeDeclarationKind::(\w+)\(", body)
        if "Diagnostic::todo" in body.split("} else {")[0] and mk and mk.group(1) == "LateBound":
            fold.append((name, "None"))
        elif mk and "Diagnostic::todo" not in body.split("}\n}")[0]:
            fold.append((name, "Some " + coq_string(mk.group(1))))
        else:
            raise Refuse("xform_resolve_late_bound_data_decl.rs: fold arm %s is of no known form" % name)
    if [n for n, _ in fold] != ["Simple", "Enumeration", "Structure", "LateBound", "Unspecified"]:
        raise Refuse("xform_resolve_late_bound_data_decl.rs: the fold's arms changed: %r" % (fold,))
    m = re.search(r"fn add\(&mut self, item: &Type, item_kind: LateResolvableTypeDecl\) -> Result<\(\), Diagnostic> \{(.*?)\nimpl Visitor", src, re.S)
    if not m:
        raise Refuse("xform_resolve_late_bound_data_decl.rs: add() not found")
    ab = m.group(1)
    for what, pat in (("a new node with the declared kind", r"None => \{\s*let added = self\.graph\.add_node\(item, item_kind\);"),
                      ("a duplicate of a declared name", r"if self\.declared_types\.contains\(existing\.0\) \{\s*return Err\(Diagnostic::problem\(\s*Problem::DeclarationNameDuplicated,"),
                      ("a root with the data the node already has", r"\} else \{\s*let data = self\.graph\.data\(item\);\s*self\.roots\.push\(\(\s*\*existing\.1,")):
        if not re.search(pat, ab):
            raise Refuse("xform_resolve_late_bound_data_decl.rs: add() no longer handles %s as modelled" % what)
    o = ["(* GENERATED by tools/translate.py from compiler/analyzer/src/xform_resolve_late_bound_data_decl.rs -- do not edit *)",
         "From Coq Require Import List String.", "Import ListNotations.", "Local Open Scope string_scope.", "",
         "(* the declarations that enter the graph through add(), with their kind *)",
         "Definition gen_added : list (string * string) := [" + "; ".join("(%s, %s)" % (coq_string(a), coq_string(b)) for a, b in added) + "].", "",
         "(* what a late-bound declaration becomes for each resolved kind: Some <declaration kind>, or None = not implemented *)",
         "Definition gen_fold : list (string * option string) := [" + "; ".join("(%s, %s)" % (coq_string(a), b) for a, b in fold) + "].", ""]
    write_if_changed("GenDataDecl.v", "\n".join(o) + "\n")
    return {"added": len(added), "fold_arms": len(fold)}


def gen_declrules():
    """rule_decl_struct_element_unique_names.rs, rule_enumeration_values_unique.rs, rule_decl_subrange_limits.rs: the set
    operations of the two scans (get, then push for Some(first) / insert for None), what each label is put on, and the arms of the
    subrange comparison."""
    def visitor_body(path):
        src = read(path).split("#[cfg(test)]")[0]
        src = "\n".join(code_lines(src))
        m = re.search(r"impl Visitor<Diagnostic> for \w+ \{(.*)$", src, re.S)
        if not m:
            raise Refuse(path + ": the visitor not found")
        return m.group(1)

    def labels(body, path):
        ls = re.findall(r"Label::span\(\s*([\w\.]+?)\.span\(\),\s*\"([^\"]*)\"\s*,?\s*\)", body)
        prim = re.findall(r"Diagnostic::problem\(\s*Problem::(\w+),\s*Label::span\(\s*([\w\.]+?)\.span\(\)", body)
        sec = re.findall(r"\.with_secondary\(\s*Label::span\(\s*([\w\.]+?)\.span\(\)", body)
        if len(prim) != 1 or len(ls) != 1 + len(sec):
            raise Refuse(path + ": the diagnostic is no longer one problem with labels on spans of named things: %r" % (ls,))
        return prim[0][0], prim[0][1], sec

    def scan(path, loop_var):
        body = visitor_body(path)
        m = re.search(r"let mut (\w+): HashSet<&Id> = HashSet::new\(\);", body)
        if not m:
            raise Refuse(path + ": the set of seen names not found")
        st = m.group(1)
        # a statement without effect does not count
        body2 = re.sub(r"if %s\.contains\([^)]*\) \{\s*\}" % st, "", body)
        ops = re.findall(r"\b%s\.(\w+)\(" % st, body2)
        key = re.search(r"let seen = %s\.get\(&(\w+)\.(\w+)\);\s*match seen \{\s*Some\(first\) => \{\s*self\.diagnostics\.push\(" % st, body2)
        ins = re.search(r"None => \{\s*%s\.insert\(&(\w+)\.(\w+)\);\s*\}" % st, body2)
        if not key or not ins or key.groups() != ins.groups() or key.group(1) != loop_var:
            raise Refuse(path + ": the scan is no longer get / Some(first) => push / None => insert on the loop variable's name")
        code, prim, sec = labels(body2, path)
        return ops, key.group(2), code, prim, sec

    s_ops, s_key, s_code, s_prim, s_sec = scan("compiler/analyzer/src/rule_decl_struct_element_unique_names.rs", "element")
    e_ops, e_key, e_code, e_prim, e_sec = scan("compiler/analyzer/src/rule_enumeration_values_unique.rs", "current")
    path = "compiler/analyzer/src/rule_decl_subrange_limits.rs"
    body = visitor_body(path)
    r_code, r_prim, r_sec = labels(body, path)
    sg = re.search(r"let signed = \|v: &SignedInteger\| \((.*?)\);", body)
    mt = re.search(r"let is_less = match \(signed\(&node\.start\), signed\(&node\.end\)\) \{(.*?)\};", body, re.S)
    if not sg or not mt or not re.search(r"if !is_less \{\s*self\.diagnostics\.push\(", body):
        raise Refuse(path + ": the comparison is no longer a match on the signed bounds followed by `if !is_less`")
    arms = [tuple(x.strip() for x in a.split("=>")) for a in mt.group(1).strip().rstrip(",").split(",\n")]
    if any(len(a) != 2 for a in arms):
        raise Refuse(path + ": the arms of the comparison are of no known form: %r" % (arms,))
    lst = lambda xs: "[" + "; ".join(coq_string(x) for x in xs) + "]"
    o = ["(* GENERATED by tools/translate.py from compiler/analyzer/src/rule_decl_struct_element_unique_names.rs,",
         "   rule_enumeration_values_unique.rs and rule_decl_subrange_limits.rs -- do not edit *)",
         "From Coq Require Import List String.", "Import ListNotations.", "Local Open Scope string_scope.", "",
         "(* per scan: the operations on the set of seen names in the order they are written (statements without effect left out), the",
         "   field of the loop variable that is the key, the problem, what the primary label is put on, what the secondary labels *)",
         "Definition gen_struct_scan : list string * string * string * string * list string := (%s, %s, %s, %s, %s)." % (
             lst(s_ops), coq_string(s_key), coq_string(s_code), coq_string(s_prim), lst(s_sec)),
         "Definition gen_enum_scan : list string * string * string * string * list string := (%s, %s, %s, %s, %s)." % (
             lst(e_ops), coq_string(e_key), coq_string(e_code), coq_string(e_prim), lst(e_sec)), "",
         "(* the subrange rule: sign and magnitude of a bound, the arms of the comparison, the problem and its labels *)",
         "Definition gen_sub_signed : string := %s." % coq_string(sg.group(1).strip()),
         "Definition gen_sub_arms : list (string * string) := [" + "; ".join("(%s, %s)" % (coq_string(a), coq_string(b)) for a, b in arms) + "].",
         "Definition gen_sub_labels : string * string * list string := (%s, %s, %s)." % (coq_string(r_code), coq_string(r_prim), lst(r_sec)), ""]
    write_if_changed("GenDeclRules.v", "\n".join(o) + "\n")
    return {"struct_ops": s_ops, "enum_ops": e_ops, "subrange_arms": len(arms)}


def gen_project():
    """project.rs FileBackedProject::semantic and lsp_project.rs LspProject::semantic: the sources are collected from the map,
    sorted by the string of their file identifier, parsed in that order and analyzed together; the language server keeps the
    diagnostics that mention the file; the command line calls the same semantic()."""
    prj = read("compiler/plc2x/src/project.rs").split("#[cfg(test)]")[0]
    body = " ".join(code_lines(fn_body(prj, r"fn semantic\(&mut self\) -> Result<\(\), Vec<Diagnostic>> \{", "project.rs: semantic")))
    frags = ["let mut sources: Vec<_> = self.sources.iter_mut().collect();",
             "sources.sort_by_key(|source| ",
             "let library_results: Vec<_> = sources .into_iter() .map(|source| source.1.library()) .collect();",
             "match analyze(&all_libraries) {"]
    at = -1
    for f in frags:
        k = body.find(f, at + 1)
        if k < 0:
            raise Refuse("project.rs: semantic() no longer has the modelled steps in order (missing %r after offset %d)" % (f, at))
        at = k
    key = re.search(r"sources\.sort_by_key\(\|source\| (.*?)\);", body)
    if not key:
        raise Refuse("project.rs: the sort key of the sources not found")
    if "sources: HashMap<FileId, Source>," not in prj:
        raise Refuse("project.rs: the sources are no longer a map from file identifiers")
    lsp = read("compiler/plc2x/src/lsp_project.rs").split("#[cfg(test)]")[0]
    lb = " ".join(code_lines(fn_body(lsp, r"pub\(crate\) fn semantic\(&mut self, url: &Url\) -> Vec<lsp_types::Diagnostic> \{", "lsp_project.rs: semantic")))
    flt = re.search(r"let semantic_result = self\.wrapped\.semantic\(\);.*?Ok\(_\) => vec!\[\], Err\(diagnostics\) => diagnostics \.into_iter\(\) \.filter\(\|d\| (.*?)\) \.map\(\|d\| map_diagnostic\(d, self\.wrapped\.as_ref\(\)\)\) \.collect\(\),", lb)
    if not flt:
        raise Refuse("lsp_project.rs: semantic() is no longer wrapped.semantic() filtered by file and mapped one by one")
    cli = read("compiler/plc2x/src/cli.rs").split("#[cfg(test)]")[0]
    cb = " ".join(code_lines(fn_body(cli, r"pub fn check\(", "cli.rs: check")))
    if "project.semantic()" not in cb:
        raise Refuse("cli.rs: check() no longer calls the project's semantic()")
    o = ["(* GENERATED by tools/translate.py from compiler/plc2x/src/{project,lsp_project,cli}.rs -- do not edit *)",
         "From Coq Require Import List String.", "Import ListNotations.", "Local Open Scope string_scope.", "",
         'Definition project_semantic_steps : list string := ["collect the map"; "sort by key"; "parse each in that order"; "analyze together"].',
         "Definition project_sort_key : string := %s." % coq_string(key.group(1).strip()),
         "Definition lsp_file_filter : string := %s." % coq_string(flt.group(1).strip()),
         'Definition check_calls : string := "project.semantic()".', ""]
    write_if_changed("GenProject.v", "\n".join(o) + "\n")
    return {"sort_key": key.group(1).strip(), "filter": flt.group(1).strip()}


GENERATORS = [("GenRules", gen_rules), ("GenProject", gen_project), ("GenDeclRules", gen_declrules), ("GenExprKind", gen_exprkind), ("GenDataDecl", gen_datadecl), ("GenPrec", gen_prec), ("GenPanicSites", gen_panic_sites), ("GenPipeline", gen_pipeline), ("GenTopo", gen_topo), ("GenStages", gen_stages), ("GenTokens", gen_tokens), ("GenLegend", gen_legend), ("GenDecoders", gen_decoders)]


def main():
    summary = {}
    failed = {}
    for name, fn in GENERATORS:
        try:
            summary[name] = fn()
        except Refuse as e:
            failed[name] = str(e)
            # an un-translatable source must break the build of everything depending on it
            write_if_changed(name + ".v", "(* translator refused: %s *)\nDefinition translator_refused : False := I.\n" % str(e).replace("*)", "* )"))
    print(json.dumps({"generated": summary, "refused": failed}))
    return 1 if failed else 0


if __name__ == "__main__":
    sys.exit(main())
