"""Correspondence of Model/Scope.v (symbol-table walk of rule_use_declared_symbolic_var) with the implementation.
For each file set the harness parses the files, applies the analyzer's own transformations (through the `verif` feature
hook), emits the scope events of the resolved library with the library's own traversal, runs the rule on it, and runs
analyze() on the parsed files.  The model is run on the whole event stream and on each top-level element separately:
  * P0015 is among the diagnostics exactly when the model rejects the stream (when the rules ran at all);
  * the reported name and place are those the model computes for one of the faulty elements (the declaration sort may
    visit the elements in another order than they were written, so with several faulty elements any of them may be first);
  * the event stream has the shape the theorems are about (one E .. X group per unit, nothing outside groups)."""
import glob
import os
import re

import vlib
from vlib import hexs

_RULE_CODES = None


def rule_codes():
    """problem codes raised by the rule_*.rs files (the stage after resolve_types)"""
    global _RULE_CODES
    if _RULE_CODES is None:
        names = {}
        with open(os.path.join(vlib.REPO, "compiler/problems/resources/problem-codes.csv")) as f:
            for line in f:
                p = line.strip().split(",")
                if len(p) >= 2 and re.match(r"P\d+", p[0]):
                    names[p[1]] = p[0]
        out = set()
        for fn in glob.glob(os.path.join(vlib.REPO, "compiler/analyzer/src/rule_*.rs")):
            for m in re.finditer(r"Problem::([A-Za-z]+)", open(fn).read()):
                if m.group(1) in names:
                    out.add(names[m.group(1)])
        _RULE_CODES = out
    return _RULE_CODES


def well_shaped(unit_events):
    """events of one top-level element: empty, or E ... X with no E / X inside"""
    ev = unit_events.split()
    if not ev:
        return True
    return ev[0] == "E" and ev[-1] == "X" and all(e not in ("E", "X") for e in ev[1:-1])


def check(run, filesets, info, tag):
    """filesets: list of lists of (name, text).  Returns (compared, disagreements)."""
    if not filesets or not info.get("extract_ok"):
        return 0, 0
    cases = [{"id": i, "op": "events", "files": [[n, hexs(t)] for n, t in fs]} for i, fs in enumerate(filesets)]
    res = vlib.run_impl(cases, run.workdir, per_case_timeout=30)
    lines = []
    units_of = {}
    for i, r in enumerate(res):
        if "events" not in r or r.get("parse_errs") or not isinstance(r.get("resolved_events"), str) or r.get("rule_diags") is None:
            continue      # a file did not parse, or a transformation failed: the rules do not run
        stream = r["resolved_events"]
        units = [u.strip() for u in stream.split("|")]
        units_of[i] = units
        lines.append(("scope", "%d:w" % i, [" ".join(units).strip() or "-"]))
        for j, u in enumerate(units):
            if u:
                lines.append(("scope", "%d:%d" % (i, j), [u]))
    model = vlib.run_model(lines, run.workdir)
    rc = rule_codes()
    compared = bad = 0
    for i, units in units_of.items():
        r = res[i]
        w = model.get("%d:w" % i)
        if not w or w[0] not in ("ok", "bad"):
            continue
        codes = [d["code"] for d in r.get("diags", [])]
        compared += 1
        run.cov["traces_validated_against_impl"] += 1
        run.count(("scope", tuple(filesets[i])), True, "scope-events:" + tag)
        text = "\n".join(t for _, t in filesets[i])
        rep = {"input": {"text": text, "files": [[n, t] for n, t in filesets[i]]}, "events": units}
        impl_bad = [d for d in r["rule_diags"] if d["code"] == "P0015"]
        if bool(impl_bad) != ("P0015" in codes):
            bad += 1
            run.violation("impl-violates-property", "rule_use_declared_symbolic_var %s P0015 on the resolved library, analyze() %s it: %s" % (
                "reports" if impl_bad else "does not report", "reports" if "P0015" in codes else "does not report", text[:200].replace("\n", " ")), rep)
            continue
        per_unit = set()
        for j, u in enumerate(units):
            m = model.get("%d:%d" % (i, j))
            if m and m[0] == "bad":
                per_unit.add((int(m[1]), m[2].lower()))
        msg = None
        if (w[0] == "bad") != bool(impl_bad):
            # the model is the documented rule (every used variable is declared in its unit): a concrete failing input
            if w[0] == "bad":
                what = "the unit uses %r at offset %s, which no declaration of its program organisation unit provides, and P0015 is not reported (codes %r)" % (w[2], w[1], codes)
            else:
                what = "every variable used is declared in its unit, and P0015 is reported for %r" % (impl_bad[0].get("desc"),)
            bad += 1
            run.violation("impl-violates-property", what + ": " + text[:200].replace("\n", " "), dict(rep, expect_p0015=(w[0] == "bad")))
            continue
        elif impl_bad:
            d = impl_bad[0]
            m = re.search(r"variable=([A-Za-z0-9_]+)", d.get("desc", ""))
            got = (d["start"], (m.group(1) if m else "?").lower())
            if got not in per_unit:
                msg = "P0015 is reported for %r, the scope model computes %r for the faulty elements" % (got, sorted(per_unit))
        if msg is None and not all(well_shaped(u) for u in units):
            msg = "the scope events of the library do not have the one-group-per-unit shape the theorems assume"
        if msg:
            bad += 1
            run.cov["disagreements_checked"] += 1
            run.violation("correspondence", msg + ": " + text[:200].replace("\n", " "), rep, no_input=True)
    return compared, bad
