#!/usr/bin/env python3
"""Applies each seeded change under /verif/seeded/<id>/patch.diff to /repo, runs the quick check of the property it
breaks (plus any extra properties given in meta.json 'also_run'), records whether a VIOLATION was printed, and
reverts /repo.  Results: seeded/results.json.  Usage: tools/run_seeds.py [id ...]"""
import json
import os
import subprocess
import sys
import time

VERIF = os.path.dirname(os.path.dirname(os.path.abspath(__file__)))
REPO = os.environ.get("VERIF_REPO", "/repo")      # a copy of the repository when several lanes run side by side (tools/seed_lanes.sh)


def sh(cmd, **kw):
    return subprocess.run(cmd, shell=True, stdout=subprocess.PIPE, stderr=subprocess.STDOUT, **kw)


def main():
    ids = sys.argv[1:] or sorted(os.listdir(os.path.join(VERIF, "seeded")))
    resp = os.path.join(VERIF, "seeded", "results.json")
    results = json.load(open(resp)) if os.path.exists(resp) else {}
    man = json.load(open(os.path.join(VERIF, "MANIFEST.json")))
    claimed = {c["property_id"] for c in man["checks"]}
    for sid in ids:
        d = os.path.join(VERIF, "seeded", sid)
        patch = os.path.join(d, "patch.diff")
        if not os.path.isfile(patch):
            continue
        meta = json.load(open(os.path.join(d, "meta.json")))
        prop = str(meta.get("property", sid))[:3]
        props = [prop] + [p for p in meta.get("also_run", []) if p != prop]
        st = sh("git -C %s status --porcelain" % REPO)
        if st.stdout.strip():
            print("refusing: /repo has uncommitted changes")
            return 2
        # the checks rewrite evidence/<id>.json and replays/; what is committed must describe the unchanged tree
        keep = {}
        for pp in props:
            ev = os.path.join(VERIF, "evidence", pp + ".json")
            keep[ev] = open(ev, "rb").read() if os.path.exists(ev) else None
        a = sh("git -C %s apply %s" % (REPO, patch))
        if a.returncode != 0:
            results[sid] = {"applied": False, "error": a.stdout.decode()[-400:]}
            continue
        try:
            r = {"applied": True, "checks": {}}
            for p in props:
                if p not in claimed:
                    r["checks"][p] = {"claimed": False}
                    continue
                t0 = time.time()
                c = sh("./check %s --tier quick" % p, cwd=VERIF)
                out = c.stdout.decode("utf-8", "replace")
                viol = [l for l in out.split("\n") if l.startswith("VIOLATION")]
                r["checks"][p] = {"claimed": True, "exit": c.returncode, "violations": viol[:3],
                                  "with_failing_input": any("no-failing-input-found" not in v for v in viol),
                                  "wall_s": round(time.time() - t0, 1)}
            r["caught"] = any(v.get("exit") == 1 for v in r["checks"].values())
            results[sid] = r
            print(sid, "caught" if r["caught"] else "MISSED", {p: (v.get("exit"), v.get("with_failing_input")) for p, v in r["checks"].items()})
        finally:
            sh("git -C %s checkout -- ." % REPO)
            sh("git -C %s clean -fdq -- compiler docs 2>/dev/null" % REPO)   # files a patch added
            sh("python3 tools/translate.py", cwd=VERIF)                   # the generated facts follow the tree again
            for ev, data in keep.items():
                if data is not None:
                    open(ev, "wb").write(data)
        json.dump(results, open(resp, "w"), indent=1, sort_keys=True)
    return 0


if __name__ == "__main__":
    sys.exit(main())
