"""Generator for the sub-language of Model/StParser.v (expressions with calls; assignment, IF / ELSIF / ELSE, FOR,
WHILE, REPEAT, EXIT, RETURN, function-block calls; plain names; integer, boolean and string constants) and the reading of
the implementation's Debug tree in the same S-expression form the extracted model prints.

A body is generated as a tree, written down as a lexeme list (gen_prog's Spelling then chooses letter case, trivia,
the optional ';' after END_IF) with random redundant parentheses, empty statements and signed constants, and its
S-expression is what the text means."""
import gen_prog
from gen_prog import kw, ident, sym, lit, G, OS

BINOPS = [("OR", "or", 0), ("XOR", "xor", 1), ("AND", "and", 2), ("&", "and", 2), ("=", "eq", 3), ("<>", "ne", 3), ("<", "lt", 4), (">", "gt", 4),
          ("<=", "lteq", 4), (">=", "gteq", 4), ("+", "add", 5), ("-", "sub", 5), ("*", "mul", 6), ("/", "div", 6), ("MOD", "mod", 6),
          ("**", "pow", 7)]


import struct as _struct


def real_bits(text, neg=False):
    """the bits of the binary64 value of a real constant (correctly rounded; '_' ignored), as the model driver prints them"""
    f = float(text.replace("_", ""))
    if neg:
        f = -f
    return "%x" % _struct.unpack("<Q", _struct.pack("<d", f))[0]


INT_TY = ["SINT", "INT", "DINT", "LINT", "USINT", "UINT", "UDINT", "ULINT"]
BIT_TY = ["BYTE", "WORD", "DWORD", "LWORD"]
BASED = [("16#FF", 255), ("16#0", 0), ("16#DEAD_BEEF", 0xDEADBEEF), ("8#17", 15), ("8#7_7", 63), ("2#1010", 10), ("2#1_0", 2),
         ("16#" + "F" * 32, 2 ** 128 - 1)]
REALS = ["0.0", "1.5", "3.14159", "1_0.2_5", "0.001", "123456789.125", "1.0E3", "2.5e-3", "1.0E+2", "9.9E22", "0.5E0", "00.50"]


# what the generators may write: real constants (their rendering is f64's Display, which the renderer model does not have) and
# typed constants in declarations (not among the spelled constants of the declaration renderer model) are left out while a
# rendering is compared
MODE = {"reals": True, "decl_typed": True}


class mode:
    def __init__(self, **kw):
        self.kw = kw

    def __enter__(self):
        self.old = dict(MODE)
        MODE.update(self.kw)

    def __exit__(self, *a):
        MODE.update(self.old)


def numeric_leaf(rng, based_only=False):
    """a numeric constant of the forms added to the parser model: based integers, reals, typed integers / reals / bit strings"""
    r = rng.random()
    if based_only:
        r = 0.0
    elif not MODE["reals"]:
        r = rng.choice([0.1, 0.5, 0.9])
        if r == 0.5:
            r = 0.55
    if r < 0.2:
        t, v = rng.choice(BASED)
        return "i:%d" % v, [lit(t)]
    if r < 0.45:
        t = rng.choice(REALS)
        if rng.random() < 0.2:
            return "r:-:" + real_bits(t), [sym("+"), G, lit(t)]
        return "r:-:" + real_bits(t), [lit(t)]
    if r < 0.65:
        ty = rng.choice(INT_TY)
        k = rng.random()
        if k < 0.3:
            t, v = rng.choice(BASED)
            return "ti:%s:%d" % (ty.lower(), v), [kw(ty), G, sym("#"), G, lit(t)]
        d = rng.choice(["0", "1", "42", "1_000", "007"])
        v = int(d.replace("_", ""))
        if k < 0.55:
            return "ti:%s:-%d" % (ty.lower(), v), [kw(ty), G, sym("#"), G, sym("-"), G, lit(d)]
        if k < 0.65:
            return "ti:%s:%d" % (ty.lower(), v), [kw(ty), G, sym("#"), G, sym("+"), G, lit(d)]
        return "ti:%s:%d" % (ty.lower(), v), [kw(ty), G, sym("#"), G, lit(d)]
    if r < 0.85:
        ty = rng.choice(["REAL", "LREAL"])
        t = rng.choice(REALS)
        k = rng.random()
        if k < 0.3:
            return "r:%s:%s" % (ty.lower(), real_bits(t, True)), [kw(ty), G, sym("#"), G, sym("-"), G, lit(t)]
        if k < 0.4:
            return "r:%s:%s" % (ty.lower(), real_bits(t)), [kw(ty), G, sym("#"), G, sym("+"), G, lit(t)]
        return "r:%s:%s" % (ty.lower(), real_bits(t)), [kw(ty), G, sym("#"), G, lit(t)]
    ty = rng.choice(BIT_TY)
    if rng.random() < 0.6:
        t, v = rng.choice(BASED)
        return "bs:%s:%d" % (ty.lower(), v), [kw(ty), G, sym("#"), G, lit(t)]
    d = rng.choice(["0", "1", "255", "1_000"])
    return "bs:%s:%d" % (ty.lower(), int(d.replace("_", ""))), [kw(ty), G, sym("#"), G, lit(d)]


def sx_numeric(c):
    """IntegerLiteral with a type / RealLiteral / BitStringLiteral of the compact tree in the leaf notation, or None"""
    if not (isinstance(c, tuple) and isinstance(c[1], dict)):
        return None
    b = c[1]
    ty = b.get("data_type")
    try:
        if c[0] == "IntegerLiteral" and isinstance(ty, str) and isinstance(b.get("value"), str) and b["value"].startswith("i:"):
            return "ti:%s:%s" % (ty, b["value"][2:])
        if c[0] == "RealLiteral" and isinstance(b.get("value"), str) and (ty is None or isinstance(ty, str)):
            return "r:%s:%s" % (ty or "-", real_bits(b["value"]))
        if c[0] == "BitStringLiteral" and isinstance(ty, str) and isinstance(b.get("value"), str) and b["value"].startswith("i:"):
            return "bs:%s:%s" % (ty, b["value"][2:])
    except ValueError:
        return None
    return None



class G_:
    def __init__(self, rng, depth=3, empties=True):
        self.rng = rng
        self.depth = depth
        self.empties = empties      # write empty statements and allow bodies made of them only
        self.structured = True      # structured and array variables
        self.cases = True           # CASE statements

    def name(self, p="v"):
        return "%s%d" % (p, self.rng.randrange(40))

    # ---- expressions: (sexp, lexemes) with the lexemes well-formed at level q ----
    def selvar(self, d):
        """a variable with at least one selector: (sexp, lexemes)"""
        n = self.name()
        sx, lx = [], [ident(n)]
        for _ in range(self.rng.choice([1, 1, 2, 3])):
            if self.rng.random() < 0.5:
                f = self.name("fld")
                sx.append("(field %s)" % f)
                lx += [sym("."), ident(f)]
            else:
                es, el = [], []
                for i in range(self.rng.choice([1, 1, 2])):
                    if i:
                        el.append(sym(","))
                    e, l = self.expr(d + 1, 0)
                    es.append(e)
                    el += l
                sx.append("(index %s)" % " ".join(es))
                lx += [sym("[")] + el + [sym("]")]
        return "(var %s %s)" % (n, " ".join(sx)), lx

    def target(self, d):
        """the variable on the left of ':=' or right of '=>'"""
        if self.structured and d < self.depth and self.rng.random() < 0.3:
            return self.selvar(d)
        n = self.name()
        return "v:" + n, [ident(n)]

    def leaf(self):
        r = self.rng.random()
        if self.structured and r < 0.12:
            return self.selvar(self.depth - 1)
        if self.rng.random() < 0.12:
            return numeric_leaf(self.rng)
        if r < 0.45:
            n = self.name()
            return "n:" + n, [ident(n)]
        if r < 0.75:
            d = self.rng.choice(["0", "1", "7", "42", "1_000", "65535", str(2 ** 70), "007"])
            v = str(int(d.replace("_", "")))
            if self.rng.random() < 0.15:
                return "i:" + v, [sym("+"), G, lit(d)]
            return "i:" + v, [lit(d)]
        if r < 0.85:
            b = self.rng.choice(["TRUE", "FALSE"])
            if self.rng.random() < 0.4:
                if self.rng.random() < 0.3:
                    return "b:" + b.lower(), [kw("BOOL"), G, sym("#"), G, lit("1" if b == "TRUE" else "0")]      # BOOL#1 / BOOL#0
                return "b:" + b.lower(), [kw("BOOL"), G, sym("#"), G, kw(b)]
            return "b:" + b.lower(), [kw(b)]
        s = self.rng.choice(["", "a", "str", "x y", "(*c*)", "q$$", "END_IF"])
        q = self.rng.choice(["'", '"'])
        return "s:" + "".join("%x." % ord(c) for c in s), [lit(q + s + q)]

    def sint(self):
        d = self.rng.choice(["0", "1", "7", "42", "1_000", "65535", "007"])
        v = str(int(d.replace("_", "")))
        r = self.rng.random()
        if r < 0.2:
            return "i:-" + v, [sym("-"), G, lit(d)]
        if r < 0.3:
            return "i:" + v, [sym("+"), G, lit(d)]
        return "i:" + v, [lit(d)]

    def csel(self):
        r = self.rng.random()
        if r < 0.5:
            return self.sint()
        if r < 0.8:
            a, al = self.sint()
            b, bl = self.sint()
            return "(range %s %s)" % (a, b), al + [sym("..")] + bl
        n = self.name("en")
        return "e:" + n, [ident(n)]

    def call(self, d):
        f = self.name("f")
        ps, lx = self.params(d)
        return "(call %s%s)" % (f, "".join(" " + p for p in ps)), [ident(f), sym("(")] + lx + [sym(")")]

    def params(self, d):
        n = self.rng.choice([0, 1, 1, 2, 3])
        ps, lx = [], []
        for i in range(n):
            if i:
                lx.append(sym(","))
            r = self.rng.random()
            if r < 0.5:
                s, l = self.expr(d + 1, 0)
                ps.append("(pos %s)" % s)
                lx += l
            elif r < 0.8:
                nm = self.name("p")
                s, l = self.expr(d + 1, 0)
                ps.append("(named %s %s)" % (nm, s))
                lx += [ident(nm), sym(":=")] + l
            else:
                nm = self.name("o")
                vs, vl = self.target(d + 1)
                neg = self.rng.random() < 0.4
                ps.append("(out %d %s %s)" % (1 if neg else 0, nm, vs))
                lx += ([kw("NOT")] if neg else []) + [ident(nm), sym("=>")] + vl
        return ps, lx

    def primary(self, d):
        r = self.rng.random()
        if d < self.depth and r < 0.15:
            return self.call(d)
        if d < self.depth and r < 0.3:
            s, l = self.expr(d + 1, 0)
            return s, [sym("(")] + l + [sym(")")]
        return self.leaf()

    def expr(self, d, q):
        """an expression whose spelling parses at minimum level q"""
        r = self.rng.random()
        if d >= self.depth or r < 0.3:
            return self.primary(d)
        if r < 0.42:
            op = self.rng.choice(["-", "NOT"])
            if self.rng.random() < 0.15:
                dg = self.rng.choice(["5", "12"])
                return "(%s i:-%s)" % ("neg" if op == "-" else "not", dg), [kw(op) if op == "NOT" else sym(op), sym("-"), G, lit(dg)]
            s, l = self.primary(d + 1)
            return "(%s %s)" % ("neg" if op == "-" else "not", s), [kw(op) if op == "NOT" else sym(op)] + l
        tok, nm, lv = self.rng.choice(BINOPS)
        ls, ll = self.expr(d + 1, lv)
        rs, rl = self.expr(d + 1, lv + 1)
        lx = ll + [kw(tok) if tok.isalpha() else sym(tok)] + rl
        s = "(%s %s %s)" % (nm, ls, rs)
        if lv < q or self.rng.random() < 0.1:
            lx = [sym("(")] + lx + [sym(")")]
        return s, lx

    # ---- statements ----
    def stmts(self, d, minimum):
        """(list of sexps, lexemes) of a statement list; minimum 0 allows the empty list (no token at all)"""
        n = self.rng.choice([0, 1, 1, 2, 3]) if d < self.depth else self.rng.choice([0, 1])
        if not self.empties and minimum > 0:
            n = max(n, 1)
        out, lx = [], []
        for _ in range(n):
            if self.empties and self.rng.random() < 0.15:
                lx.append(sym(";"))
            s, l, endif = self.stmt(d)
            out.append(s)
            lx += l
            lx.append(OS if endif else sym(";"))
        if (self.empties and self.rng.random() < 0.15) or (not lx and minimum > 0):
            lx.append(sym(";"))
        return out, lx

    def stmt(self, d):
        r = self.rng.random()
        if d >= self.depth or r < 0.4:
            vs, vl = self.target(d)
            s, l = self.expr(0, 0)
            return "(assign %s %s)" % (vs, s), vl + [sym(":=")] + l, False
        if r < 0.5:
            f = self.name("fb")
            ps, lx = self.params(1)
            return "(fbcall %s%s)" % (f, "".join(" " + p for p in ps)), [ident(f), sym("(")] + lx + [sym(")")], False
        if r < 0.7:
            c, cl = self.expr(1, 0)
            b, bl = self.stmts(d + 1, 0)
            lx = [kw("IF")] + cl + [kw("THEN")] + bl
            eis = []
            for _ in range(self.rng.choice([0, 0, 1, 2])):
                ec, ecl = self.expr(1, 0)
                eb, ebl = self.stmts(d + 1, 1)
                eis.append("(elsif %s (%s))" % (ec, " ".join(eb)))
                lx += [kw("ELSIF")] + ecl + [kw("THEN")] + ebl
            els = []
            if self.rng.random() < 0.5:
                els, el = self.stmts(d + 1, 1)
                lx += [kw("ELSE")] + el
            lx.append(kw("END_IF"))
            return "(if %s (%s) (%s) (%s))" % (c, " ".join(b), " ".join(eis), " ".join(els)), lx, True
        if r < 0.76 and self.cases:
            c, cl = self.expr(1, 0)
            lx = [kw("CASE")] + cl + [kw("OF")]
            gs = []
            for _ in range(self.rng.choice([0, 1, 1, 2, 3])):
                ss = []
                for i in range(self.rng.choice([1, 1, 2, 3])):
                    if i:
                        lx.append(sym(","))
                    x, l = self.csel()
                    ss.append(x)
                    lx += l
                lx.append(sym(":"))
                gb, gbl = self.stmts(d + 1, 1)
                lx += gbl
                gs.append("(grp (%s) (%s))" % (" ".join(ss), " ".join(gb)))
            els = []
            if self.rng.random() < 0.5:
                els, el = self.stmts(d + 1, 1)
                lx += [kw("ELSE")] + el
            lx.append(kw("END_CASE"))
            return "(case %s (%s) (%s))" % (c, " ".join(gs), " ".join(els)), lx, False
        if r < 0.8:
            v = self.name("i")
            a, al = self.expr(1, 0)
            b, bl = self.expr(1, 0)
            st, stl = "-", []
            if self.rng.random() < 0.5:
                st, l = self.expr(1, 0)
                stl = [kw("BY")] + l
            body, bodyl = self.stmts(d + 1, 1)
            return "(for %s %s %s %s (%s))" % (v, a, b, st, " ".join(body)), \
                [kw("FOR"), ident(v), sym(":=")] + al + [kw("TO")] + bl + stl + [kw("DO")] + bodyl + [kw("END_FOR")], False
        if r < 0.88:
            c, cl = self.expr(1, 0)
            body, bodyl = self.stmts(d + 1, 1)
            return "(while %s (%s))" % (c, " ".join(body)), [kw("WHILE")] + cl + [kw("DO")] + bodyl + [kw("END_WHILE")], False
        if r < 0.94:
            body, bodyl = self.stmts(d + 1, 1)
            c, cl = self.expr(1, 0)
            return "(repeat (%s) %s)" % (" ".join(body), c), [kw("REPEAT")] + bodyl + [kw("UNTIL")] + cl + [kw("END_REPEAT")], False
        return ("exit", [kw("EXIT")], False) if self.rng.random() < 0.5 else ("return", [kw("RETURN")], False)

    def body(self):
        """(sexp of the list, lexemes of FUNCTION_BLOCK name body END_FUNCTION_BLOCK)"""
        ss, lx = self.stmts(0, 0)
        return "(" + " ".join(ss) + ")", [kw("FUNCTION_BLOCK"), ident("fbm")] + lx + [kw("END_FUNCTION_BLOCK")]


# ---- the implementation's tree (compact Debug form of tools/debugtree.py) in the same notation ----
def _name(v):
    return v if isinstance(v, str) else "?"


def sx_expr(t):
    if isinstance(t, tuple):
        name, body = t
        if name == "LateBound":
            return "n:" + body["name"]
        if name in ("Variable", "Symbolic", "Named"):
            return sx_var(t)
        if name == "Const" and isinstance(body, list) and body:
            c = body[0]
            if isinstance(c, tuple) and c[0] == "IntegerLiteral":
                if c[1].get("data_type") is not None:
                    return sx_numeric(c)
                return c[1]["value"]
            if isinstance(c, tuple) and c[0] in ("RealLiteral", "BitStringLiteral"):
                return sx_numeric(c)
            if isinstance(c, tuple) and c[0] == "Boolean":
                return "b:" + c[1][0][1]["value"]
            if isinstance(c, tuple) and c[0] == "CharacterString":
                chars = c[1][0][1]["value"]
                return "s:" + "".join("%x." % ord(x[2:]) for x in chars)
            return None
        if name in ("Compare", "BinaryOp") and isinstance(body, list) and body:
            f = body[0][1]
            l, r = sx_expr(f["left"]), sx_expr(f["right"])
            return None if l is None or r is None else "(%s %s %s)" % (f["op"], l, r)
        if name == "UnaryOp" and isinstance(body, list) and body:
            f = body[0][1]
            x = sx_expr(f["term"])
            return None if x is None else "(%s %s)" % (f["op"], x)
        if name == "Function":
            ps = [sx_param(p) for p in body["param_assignment"]]
            return None if any(p is None for p in ps) else "(call %s%s)" % (body["name"], "".join(" " + p for p in ps))
        if name == "Expression" and isinstance(body, list) and body:
            return sx_expr(body[0])
    return None


def var_chain(t):
    """(name, [selector sexps]) of Symbolic(Named / Structured / Array ...), or None"""
    while isinstance(t, tuple) and isinstance(t[1], list) and len(t[1]) == 1 and t[0] in ("Variable", "Symbolic", "Named", "Structured", "Array"):
        t = t[1][0]
    if not isinstance(t, tuple):
        return None
    if t[0] == "NamedVariable":
        return t[1]["name"], []
    if t[0] == "StructuredVariable":
        c = var_chain(t[1]["record"])
        return None if c is None else (c[0], c[1] + ["(field %s)" % t[1]["field"]])
    if t[0] == "ArrayVariable":
        c = var_chain(t[1]["subscripted_variable"])
        es = [sx_expr(e) for e in t[1]["subscripts"]]
        return None if c is None or any(e is None for e in es) else (c[0], c[1] + ["(index %s)" % " ".join(es)])
    return None


def sx_var(t):
    """v:name for a plain variable, (var name selectors..) otherwise"""
    c = var_chain(t)
    if c is None:
        return None
    return "v:" + c[0] if not c[1] else "(var %s %s)" % (c[0], " ".join(c[1]))


def sx_param(p):
    name, body = p
    if name == "PositionalInput":
        e = sx_expr(body["expr"])
        return None if e is None else "(pos %s)" % e
    if name == "NamedInput":
        e = sx_expr(body["expr"])
        return None if e is None else "(named %s %s)" % (body["name"], e)
    if name == "Output":
        v = sx_var(body["tgt"])
        return None if v is None else "(out %d %s %s)" % (1 if body["not"] == "true" else 0, body["src"], v)
    return None


def sx_csel(t):
    if isinstance(t, tuple) and isinstance(t[1], list) and len(t[1]) == 1:
        name, x = t[0], t[1][0]
        if name == "SignedInteger" and isinstance(x, str):
            return x
        if name == "Subrange" and isinstance(x, tuple) and isinstance(x[1], dict):
            return "(range %s %s)" % (x[1]["start"], x[1]["end"])
        if name == "EnumeratedValue" and isinstance(x, tuple) and isinstance(x[1], dict) and x[1].get("type_name") is None:
            return "e:" + _name(x[1]["value"])
    if isinstance(t, tuple) and isinstance(t[1], dict):
        if t[0] == "Subrange":
            return "(range %s %s)" % (t[1]["start"], t[1]["end"])
        if t[0] == "EnumeratedValue" and t[1].get("type_name") is None:
            return "e:" + _name(t[1]["value"])
    return None


def sx_list(l):
    ss = [sx_stmt(s) for s in l]
    return None if any(s is None for s in ss) else "(" + " ".join(ss) + ")"


def sx_stmt(t):
    if t == "exit" or t == "return":
        return t
    if not isinstance(t, tuple):
        return None
    name, b = t
    if name == "Assignment":
        v, e = sx_var(b["target"]), sx_expr(b["value"])
        return None if v is None or e is None else "(assign %s %s)" % (v, e)
    if name == "FbCall":
        ps = [sx_param(p) for p in b["params"]]
        return None if any(p is None for p in ps) else "(fbcall %s%s)" % (b["var_name"], "".join(" " + p for p in ps))
    if name == "If":
        c, body, els = sx_expr(b["expr"]), sx_list(b["body"]), sx_list(b["else_body"])
        eis = []
        for ei in b["else_ifs"]:
            ec, eb = sx_expr(ei[1]["expr"]), sx_list(ei[1]["body"])
            if ec is None or eb is None:
                return None
            eis.append("(elsif %s %s)" % (ec, eb))
        return None if None in (c, body, els) else "(if %s %s (%s) %s)" % (c, body, " ".join(eis), els)
    if name == "Case":
        c, els = sx_expr(b["selector"]), sx_list(b["else_body"])
        gs = []
        for g in b["statement_groups"]:
            ss = [sx_csel(x) for x in g[1]["selectors"]]
            gb = sx_list(g[1]["statements"])
            if gb is None or any(x is None for x in ss):
                return None
            gs.append("(grp (%s) %s)" % (" ".join(ss), gb))
        return None if None in (c, els) else "(case %s (%s) %s)" % (c, " ".join(gs), els)
    if name == "For":
        a, c, body = sx_expr(b["from"]), sx_expr(b["to"]), sx_list(b["body"])
        st = "-" if b["step"] is None else sx_expr(b["step"])
        return None if None in (a, c, body, st) else "(for %s %s %s %s %s)" % (b["control"], a, c, st, body)
    if name == "While":
        c, body = sx_expr(b["condition"]), sx_list(b["body"])
        return None if None in (c, body) else "(while %s %s)" % (c, body)
    if name == "Repeat":
        c, body = sx_expr(b["until"]), sx_list(b["body"])
        return None if None in (c, body) else "(repeat %s %s)" % (body, c)
    return None


def sx_of_library(tree):
    """the statement list of the single function block of a parsed library, or None when it is not in the model's notation"""
    try:
        el = tree[1]["elements"]
        if len(el) != 1 or el[0][0] != "FunctionBlockDeclaration":
            return None
        body = el[0][1]["body"]
        if body == "empty" or (isinstance(body, tuple) and body[0] == "Empty"):
            return "()"
        if isinstance(body, tuple) and body[0] == "Statements":
            return sx_list(body[1]["body"])
    except (KeyError, IndexError, TypeError):
        return None
    return None


# ---- variable declaration blocks (Model/DeclParser.v) ----
ELEM_TYPES = ["BOOL", "SINT", "INT", "DINT", "LINT", "USINT", "UINT", "UDINT", "ULINT", "REAL", "LREAL", "TIME", "DATE", "TIME_OF_DAY", "TOD",
              "DATE_AND_TIME", "DT", "BYTE", "WORD", "DWORD", "LWORD"]
CANON = {"TOD": "time_of_day", "DT": "date_and_time"}


class D_:
    """blocks of variable declarations of a function block: (sexp of the variables, sexp of the edge inputs, lexemes)"""

    def __init__(self, rng):
        self.rng = rng

    def name(self, p="d"):
        return "%s%d" % (p, self.rng.randrange(60))

    def const(self):
        r = self.rng.random()
        if self.rng.random() < 0.15:
            return numeric_leaf(self.rng, based_only=not MODE["decl_typed"])
        if r < 0.5:
            d = self.rng.choice(["0", "1", "17", "1_000", "007"])
            v = str(int(d.replace("_", "")))
            k = self.rng.random()
            if k < 0.15:
                return "i:-" + v, [sym("-"), G, lit(d)]
            if k < 0.25:
                return "i:" + v, [sym("+"), G, lit(d)]
            return "i:" + v, [lit(d)]
        if r < 0.8:
            b = self.rng.choice(["TRUE", "FALSE"])
            if self.rng.random() < 0.3:
                if self.rng.random() < 0.3:
                    return "b:" + b.lower(), [kw("BOOL"), G, sym("#"), G, lit("1" if b == "TRUE" else "0")]
                return "b:" + b.lower(), [kw("BOOL"), G, sym("#"), G, kw(b)]
            return "b:" + b.lower(), [kw(b)]
        s = self.rng.choice(["", "a", "x y"])
        return "s:" + "".join("%x." % ord(c) for c in s), [lit("'" + s + "'")]

    def typ(self):
        """(canonical lower-case name, lexemes, is elementary)"""
        if self.rng.random() < 0.6:
            t = self.rng.choice(ELEM_TYPES)
            return CANON.get(t, t.lower()), [kw(t)], True
        n = self.name("T")
        return n.lower(), [ident(n)], False

    def names(self):
        ns = [self.name() for _ in range(self.rng.choice([1, 1, 1, 2, 3]))]
        lx = []
        for i, n in enumerate(ns):
            if i:
                lx.append(sym(","))
            lx.append(ident(n))
        return ns, lx

    def init_decl(self, cls, q):
        """names ':' spec [':=' value]  as var_init_decl reads it"""
        ns, lx = self.names()
        ty, tl, elem = self.typ()
        lx += [sym(":")] + tl
        r = self.rng.random()
        if r < 0.35:
            c, cl = self.const()
            lx += [sym(":=")] + cl
            init = "(simple %s %s)" % (ty, c)
        elif r < 0.5 and not elem:
            v = self.name("val")
            lx += [sym(":="), ident(v)]
            init = "(enumtype %s %s)" % (ty, v.lower())
        elif elem:
            init = "(simple %s -)" % ty
        else:
            init = "(late %s)" % ty
        return ["(var %s %s %s %s)" % (n.lower(), cls, q, init) for n in ns], [], lx

    def block(self, func=False):
        r = self.rng.random()
        if func and 0.5 <= r < 0.6:
            r = 0.9                    # no VAR_EXTERNAL in a function
        vs, es, lx = [], [], []
        if r < 0.25:
            q = self.rng.choice(["unspec", "unspec", "retain", "nonretain"])
            lx = [kw("VAR_INPUT")] + ([kw("RETAIN")] if q == "retain" else [kw("NON_RETAIN")] if q == "nonretain" else [])
            for _ in range(self.rng.choice([0, 1, 2, 3])):
                if self.rng.random() < 0.3:
                    ns, nl = self.names()
                    rising = self.rng.random() < 0.5
                    lx += nl + [sym(":"), kw("BOOL"), kw("R_EDGE" if rising else "F_EDGE"), sym(";")]
                    es += ["(edge %s %s %s)" % (n.lower(), "r" if rising else "f", q) for n in ns]
                else:
                    v, _, l = self.init_decl("input", q)
                    vs += v
                    lx += l + [sym(";")]
        elif r < 0.4:
            q = self.rng.choice(["unspec", "retain", "nonretain"])
            lx = [kw("VAR_OUTPUT")] + ([kw("RETAIN")] if q == "retain" else [kw("NON_RETAIN")] if q == "nonretain" else [])
            for _ in range(self.rng.choice([0, 1, 2])):
                v, _, l = self.init_decl("output", q)
                vs += v
                lx += l + [sym(";")]
        elif r < 0.5:
            lx = [kw("VAR_IN_OUT")]
            for _ in range(self.rng.choice([0, 1, 2])):
                ns, nl = self.names()
                ty, tl, _ = self.typ()
                lx += nl + [sym(":")] + tl + [sym(";")]
                vs += ["(var %s inout unspec (late %s))" % (n.lower(), ty) for n in ns]
        elif r < 0.6:
            q = self.rng.choice(["unspec", "const"])
            lx = [kw("VAR_EXTERNAL")] + ([kw("CONSTANT")] if q == "const" else [])
            for _ in range(self.rng.choice([0, 1, 2])):
                n = self.name()
                ty, tl, _ = self.typ()
                lx += [ident(n), sym(":")] + tl + [sym(";")]
                vs.append("(var %s external %s (simple %s -))" % (n.lower(), q, ty))
        else:
            q = self.rng.choice(["unspec", "unspec", "const", "retain", "nonretain"] if not func else ["unspec", "unspec", "const"])
            lx = [kw("VAR")] + ({"const": [kw("CONSTANT")], "retain": [kw("RETAIN")], "nonretain": [kw("NON_RETAIN")]}.get(q, []))
            for _ in range(self.rng.choice([0, 1, 2, 3] if not func else [1, 1, 2, 3])):      # a function's VAR needs a declaration
                v, _, l = self.init_decl("var", q)
                vs += v
                lx += l + [sym(";")]
        if lx[-1] != sym(";"):
            lx.append(sym(";"))              # an empty block needs a ';'
        lx.append(kw("END_VAR"))
        return vs, es, lx

    def blocks(self, func=False):
        vs, es, lx = [], [], []
        for _ in range(self.rng.choice([0, 1, 1, 2, 3])):
            v, e, l = self.block(func)
            vs += v
            es += e
            lx += l
        return vs, es, lx


def fbd_body(rng, depth=1):
    """(sexp of variables, sexp of edges, sexp of statements, lexemes) of a function block with declaration blocks"""
    d = D_(rng)
    vs, es, dl = d.blocks()
    g = G_(rng, depth=depth)
    ss, sl = g.stmts(0, 0)
    lx = [kw("FUNCTION_BLOCK"), ident("fbm")] + dl + sl + [kw("END_FUNCTION_BLOCK")]
    return "(%s)" % " ".join(vs), "(%s)" % " ".join(es), "(%s)" % " ".join(ss), lx


def sx_const(c):
    """a ConstantKind of the tree in the leaf notation, or None"""
    if isinstance(c, tuple) and c[0] == "IntegerLiteral" and isinstance(c[1], dict):
        if c[1].get("data_type") is not None:
            return sx_numeric(c)
        return c[1]["value"]
    if isinstance(c, tuple) and c[0] in ("RealLiteral", "BitStringLiteral") and isinstance(c[1], dict):
        return sx_numeric(c)
    if isinstance(c, tuple) and c[0] in ("RealLiteral", "BitStringLiteral") and isinstance(c[1], list) and c[1] and isinstance(c[1][0], tuple):
        return sx_numeric(c[1][0])
    if isinstance(c, tuple) and c[0] == "IntegerLiteral" and isinstance(c[1], list) and c[1] and isinstance(c[1][0], tuple):
        return sx_const(c[1][0])
    if isinstance(c, tuple) and c[0] == "Boolean":
        try:
            return "b:" + c[1][0][1]["value"]
        except (KeyError, IndexError, TypeError):
            return None
    if isinstance(c, tuple) and c[0] == "CharacterString":
        try:
            chars = c[1][0][1]["value"]
            return "s:" + "".join("%x." % ord(x[2:]) for x in chars)
        except (KeyError, IndexError, TypeError):
            return None
    return None


def _tyname(t):
    if isinstance(t, tuple) and isinstance(t[1], dict) and "name" in t[1]:
        return _name(t[1]["name"]).lower()
    return None


_QUAL = {"unspecified": "unspec", "constant": "const", "retain": "retain", "nonretain": "nonretain"}


def sx_vardecl(v):
    if not (isinstance(v, tuple) and v[0] == "VarDecl"):
        return None
    b = v[1]
    ident_ = b["identifier"]
    if not (isinstance(ident_, tuple) and ident_[0] == "Symbol"):
        return None
    name = _name(ident_[1][0]).lower()
    cls = {"input": "input", "output": "output", "inout": "inout", "external": "external", "var": "var"}.get(str(b["var_type"]).lower())
    q = _QUAL.get(str(b["qualifier"]).lower())
    i = b["initializer"]
    init = None
    if isinstance(i, tuple) and i[0] == "Simple":
        x = i[1] if isinstance(i[1], dict) else i[1][0][1]
        ty = _tyname(x["type_name"])
        iv = x["initial_value"]
        c = "-" if iv is None else sx_const(iv[1][0] if isinstance(iv, tuple) and iv[0] == "Some" else iv)
        if ty is not None and c is not None:
            init = "(simple %s %s)" % (ty, c)
    elif isinstance(i, tuple) and i[0] == "EnumeratedType":
        x = i[1] if isinstance(i[1], dict) else i[1][0][1]
        ty = _tyname(x["type_name"])
        iv = x["initial_value"]
        if iv is not None:
            ev = iv[1][0] if isinstance(iv, tuple) and iv[0] == "Some" else iv
            evb = ev[1] if isinstance(ev, tuple) else None
            if isinstance(evb, dict) and evb.get("type_name") is None and ty is not None:
                init = "(enumtype %s %s)" % (ty, _name(evb["value"]).lower())
    elif isinstance(i, tuple) and i[0] == "LateResolvedType":
        ty = _tyname(i[1][0]) if isinstance(i[1], list) else _tyname(i[1])
        if ty is not None:
            init = "(late %s)" % ty
    if None in (cls, q, init):
        return None
    return "(var %s %s %s %s)" % (name, cls, q, init)


def sx_fbd_of_library(tree):
    """(variables, edges, statements) of the single function block of a parsed library, or None outside the notation"""
    try:
        el = tree[1]["elements"]
        if len(el) != 1 or el[0][0] != "FunctionBlockDeclaration":
            return None
        fb = el[0][1]
        vs = [sx_vardecl(v) for v in fb["variables"]]
        es = []
        for e in fb["edge_variables"]:
            b = e[1]
            es.append("(edge %s %s %s)" % (_name(b["identifier"]).lower(), {"rising": "r", "falling": "f"}[str(b["direction"]).lower()],
                                           _QUAL[str(b["qualifier"]).lower()]))
        body = fb["body"]
        if body == "empty" or (isinstance(body, tuple) and body[0] == "Empty"):
            st = "()"
        elif isinstance(body, tuple) and body[0] == "Statements":
            st = sx_list(body[1]["body"])
        else:
            st = None
        if st is None or any(v is None for v in vs):
            return None
        return "(%s)" % " ".join(vs), "(%s)" % " ".join(es), st
    except (KeyError, IndexError, TypeError):
        return None


# ---- a library: several function blocks and programs ----
def lib_units(rng, depth=1, edges_in_programs=True):
    """(list of unit sexps, lexemes): each unit (fb|program name (vars) (edges) (stmts))"""
    units, lx = [], []
    for k in range(rng.choice([1, 2, 2, 3])):
        kind = rng.choice(["fb", "fb", "program"])
        name = "u%d" % k
        d = D_(rng)
        vs, es, dl = d.blocks()
        if kind == "program" and es and not edges_in_programs:
            continue
        g = G_(rng, depth=depth)
        ss, sl = g.stmts(0, 0)
        lx += [kw("FUNCTION_BLOCK" if kind == "fb" else "PROGRAM"), ident(name)] + dl + sl + [kw("END_FUNCTION_BLOCK" if kind == "fb" else "END_PROGRAM")]
        units.append("(%s %s (%s) (%s) (%s))" % (kind, name, " ".join(vs), " ".join(es), " ".join(ss)))
    return units, lx


def sx_units_of_library(tree):
    """the units of a parsed library in the same notation, or None outside the notation"""
    try:
        out = []
        for el in tree[1]["elements"]:
            if el[0] == "FunctionBlockDeclaration":
                kind, edges = "fb", el[1]["edge_variables"]
            elif el[0] == "ProgramDeclaration":
                kind, edges = "program", []
                if el[1]["access_variables"]:
                    return None
            else:
                return None
            fb = el[1]
            vs = [sx_vardecl(v) for v in fb["variables"]]
            es = []
            for e in edges:
                b = e[1]
                es.append("(edge %s %s %s)" % (_name(b["identifier"]).lower(), {"rising": "r", "falling": "f"}[str(b["direction"]).lower()],
                                               _QUAL[str(b["qualifier"]).lower()]))
            body = fb["body"]
            if body == "empty" or (isinstance(body, tuple) and body[0] == "Empty"):
                st = "()"
            elif isinstance(body, tuple) and body[0] == "Statements":
                st = sx_list(body[1]["body"])
            else:
                st = None
            if st is None or any(v is None for v in vs):
                return None
            out.append("(%s %s (%s) (%s) %s)" % (kind, _name(fb["name"]).lower(), " ".join(vs), " ".join(es), st))
        return out
    except (KeyError, IndexError, TypeError):
        return None


# ---- TYPE blocks (Model/DeclParser.v type_block) ----
INT_TYPES_T = ["SINT", "INT", "DINT", "LINT", "USINT", "UINT", "UDINT", "ULINT"]


class T_:
    def __init__(self, rng):
        self.rng = rng
        self.d = D_(rng)

    def si(self):
        d = self.rng.choice(["0", "1", "7", "42", "1_000", "007"])
        v = str(int(d.replace("_", "")))
        r = self.rng.random()
        if r < 0.25:
            return "i:-" + v, [sym("-"), G, lit(d)]
        if r < 0.35:
            return "i:" + v, [sym("+"), G, lit(d)]
        return "i:" + v, [lit(d)]

    def tref(self):
        ty, tl, elem = self.d.typ()
        return ty, tl

    def decl(self, k):
        n = "Ty%d" % k
        r = self.rng.random()
        lx = [ident(n), sym(":")]
        if r < 0.2:
            rs, rl = [], []
            for i in range(self.rng.choice([0, 1, 1, 2, 3])):
                if i:
                    rl.append(sym(","))
                a, al = self.si()
                b, bl = self.si()
                rs.append("(%s %s)" % (a, b))
                rl += al + [sym("..")] + bl
            ty, tl = self.tref()
            return "(array %s (%s) %s)" % (n.lower(), " ".join(rs), ty), lx + [kw("ARRAY"), sym("[")] + rl + [sym("]"), kw("OF")] + tl
        if r < 0.4:
            t = self.rng.choice(INT_TYPES_T)
            a, al = self.si()
            b, bl = self.si()
            d, dl = "-", []
            if self.rng.random() < 0.5:
                d, x = self.si()
                dl = [sym(":=")] + x
            return "(subrange %s %s %s %s %s)" % (n.lower(), t.lower(), a, b, d), lx + [kw(t), sym("(")] + al + [sym("..")] + bl + [sym(")")] + dl
        if r < 0.6:
            vs = ["val%d" % self.rng.randrange(30) for _ in range(self.rng.choice([1, 2, 3, 4]))]
            vl = []
            for i, v in enumerate(vs):
                if i:
                    vl.append(sym(","))
                vl.append(ident(v))
            d, dl = "-", []
            if self.rng.random() < 0.5:
                d = self.rng.choice(vs + ["other"])
                dl = [sym(":="), ident(d)]
            return "(enum %s (%s) %s)" % (n.lower(), " ".join(vs), d), lx + [sym("(")] + vl + [sym(")")] + dl
        if r < 0.7:
            b = "Ty%d" % self.rng.randrange(8)
            v = "val%d" % self.rng.randrange(30)
            return "(enumof %s %s %s)" % (n.lower(), b.lower(), v), lx + [ident(b), sym(":="), ident(v)]
        if r < 0.85:
            ty, tl = self.tref()
            c, cl = self.d.const()
            return "(simple %s %s %s)" % (n.lower(), ty, c), lx + tl + [sym(":=")] + cl
        b = "Ty%d" % self.rng.randrange(8)
        return "(late %s %s)" % (n.lower(), b.lower()), lx + [ident(b)]

    def block(self, k0):
        out, lx = [], [kw("TYPE")]
        for j in range(self.rng.choice([0, 1, 2, 3])):
            s, l = self.decl(k0 + j)
            out.append(s)
            lx += l + [sym(";")]
        if not out:
            lx.append(sym(";"))
        lx.append(kw("END_TYPE"))
        return out, lx


def lib2_elements(rng, depth=1):
    """(element sexps, lexemes): TYPE blocks (one sexp per declaration), function blocks and programs"""
    els, lx = [], []
    k = 0
    for i in range(rng.choice([1, 2, 3, 4])):
        if rng.random() < 0.45:
            t = T_(rng)
            o, l = t.block(k)
            k += len(o) + 1
            els += o
            lx += l
        elif rng.random() < 0.35:
            # FUNCTION name : type  blocks  statements (at least a ';')  END_FUNCTION
            d = D_(rng)
            ty, tl, _ = d.typ()
            vs, es, dl = d.blocks(func=True)
            g = G_(rng, depth=depth)
            ss, sl = g.stmts(0, 0)
            if not sl:
                sl = [sym(";")]
            name = "fn%d" % i
            lx += [kw("FUNCTION"), ident(name), sym(":")] + tl + dl + sl + [kw("END_FUNCTION")]
            els.append("(function %s %s (%s) (%s) (%s))" % (name, ty, " ".join(vs), " ".join(es), " ".join(ss)))
        else:
            us, ul = lib_units(rng, depth=depth)
            # lib_units names its units u0..; rename by position to keep names distinct
            els += us
            lx += ul
    return els, lx


def sx_si(t):
    return t if isinstance(t, str) else None


def _un(x):
    """('Name', [('Struct', {...})]) -> {...};  ('Name', {...}) -> {...}"""
    if isinstance(x, tuple) and isinstance(x[1], list) and len(x[1]) == 1 and isinstance(x[1][0], tuple) and isinstance(x[1][0][1], dict):
        return x[1][0][1]
    if isinstance(x, tuple) and isinstance(x[1], dict):
        return x[1]
    return None


def sx_typedecl(el):
    """a DataTypeDeclaration element in the model's notation, or None"""
    try:
        kind = el[1][0]
        name = kind[0]
        b = _un(kind)
        if name == "Array":
            if b["spec"][0] != "Subranges" or b["init"]:
                return None
            sub = _un(b["spec"])
            rs = ["(%s %s)" % (r[1]["start"], r[1]["end"]) for r in sub["ranges"]]
            return "(array %s (%s) %s)" % (_tyname(b["type_name"]), " ".join(rs), _tyname(sub["type_name"]))
        if name == "Subrange":
            if b["spec"][0] != "Specification":
                return None
            sp = _un(b["spec"])
            rng_ = sp["subrange"][1]
            d = b["default"]
            return "(subrange %s %s %s %s %s)" % (_tyname(b["type_name"]), str(sp["type_name"]).lower(), rng_["start"], rng_["end"], "-" if d is None else d)
        if name == "Enumeration":
            si = b["spec_init"][1]
            spec = si["spec"]
            d = si["default"]
            dv = None
            if d is not None:
                if d[1].get("type_name") is not None:
                    return None
                dv = _name(d[1]["value"]).lower()
            if spec[0] == "Values":
                vs = []
                for v in _un(spec)["values"]:
                    if v[1].get("type_name") is not None:
                        return None
                    vs.append(_name(v[1]["value"]).lower())
                return "(enum %s (%s) %s)" % (_tyname(b["type_name"]), " ".join(vs), dv or "-")
            if spec[0] == "TypeName" and dv is not None:
                return "(enumof %s %s %s)" % (_tyname(b["type_name"]), _tyname(spec[1][0]), dv)
            return None
        if name == "Simple":
            i = b["spec_and_init"]
            if not (isinstance(i, tuple) and i[0] == "Simple"):
                return None
            x = _un(i)
            iv = x["initial_value"]
            if iv is None:
                return None
            c = sx_const(iv)
            return None if c is None else "(simple %s %s %s)" % (_tyname(b["type_name"]), _tyname(x["type_name"]), c)
        if name == "LateBound":
            return "(late %s %s)" % (_tyname(b["data_type_name"]), _tyname(b["base_type_name"]))
    except (KeyError, IndexError, TypeError, AttributeError):
        return None
    return None


def sx_elements_of_library(tree):
    try:
        out = []
        for el in tree[1]["elements"]:
            if el[0] == "DataTypeDeclaration":
                s = sx_typedecl(el)
                if s is None:
                    return None
                out.append(s)
            elif el[0] == "FunctionDeclaration":
                fn = el[1]
                vs = [sx_vardecl(v) for v in fn["variables"]]
                es = []
                for e in fn["edge_variables"]:
                    b = e[1]
                    es.append("(edge %s %s %s)" % (_name(b["identifier"]).lower(), {"rising": "r", "falling": "f"}[str(b["direction"]).lower()],
                                                   _QUAL[str(b["qualifier"]).lower()]))
                st = sx_list(fn["body"])
                rt = _tyname(fn["return_type"])
                if st is None or rt is None or any(v is None for v in vs):
                    return None
                out.append("(function %s %s (%s) (%s) %s)" % (_name(fn["name"]).lower(), rt, " ".join(vs), " ".join(es), st))
            else:
                u = sx_units_of_library(("Library", {"elements": [el]}))
                if u is None:
                    return None
                out += u
        return out
    except (KeyError, IndexError, TypeError):
        return None
