#!/bin/bash
# confirm_seed.sh <id>: re-runs, in the sub-agent's scratch worktree, the three facts a seeded change must satisfy:
# the test suite passes with it, its demonstration fails with it, and passes without it.
id=$1
wt=/tmp/seed/$id/wt
out=/tmp/seed/$id/out
log=/tmp/seed/$id/confirm.log
export CARGO_NET_OFFLINE=true
export CARGO_TARGET_DIR=$wt/compiler/target
exec >$log 2>&1
cd $wt || exit 2
git diff --stat
echo "== test suite with change"
( cd compiler && cargo test --workspace --no-fail-fast --offline -j6 2>&1 | grep -E "^test result|FAILED|panicked|error(\[|:)" ) 
echo "== demo with change"
bash $out/demo.sh $wt > /tmp/seed/$id/demo_with.log 2>&1; echo "demo_with_rc=$?"
tail -5 /tmp/seed/$id/demo_with.log
git diff > /tmp/seed/$id/current.diff; git apply -R /tmp/seed/$id/current.diff
echo "== demo without change"
bash $out/demo.sh $wt > /tmp/seed/$id/demo_without.log 2>&1; echo "demo_without_rc=$?"
tail -5 /tmp/seed/$id/demo_without.log
git apply /tmp/seed/$id/current.diff
git diff --stat | tail -1
echo "== done"
