#!/bin/sh
# builds the extracted model + driver: ocaml/_build/driver
set -e
cd "$(dirname "$0")"
mkdir -p _build
cp ../coq/model.ml ../coq/model.mli driver.ml _build/
cd _build
ocamlfind ocamlopt -w -a -O2 -package str model.mli model.ml driver.ml -o driver 2>/dev/null || \
ocamlfind ocamlopt -w -a model.mli model.ml driver.ml -o driver
