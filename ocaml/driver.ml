(* Driver for the extracted Coq models (coq/model.ml).  Reads one case per line on stdin:
     <op> TAB <id> TAB <arg> [TAB <arg> ...]
   and prints one result line per case: <id> TAB <fields...>.
   Everything that decides an answer is extracted code; this file only converts between
   hex / decimal text and the inductive number types of the extraction. *)
open Model
module S = Stdlib.String
type str = S.t

let rec pos_of_int (i : int) : positive =
  if i = 1 then XH else if i land 1 = 0 then XO (pos_of_int (i lsr 1)) else XI (pos_of_int (i lsr 1))
let n_of_int (i : int) : n = if i = 0 then N0 else Npos (pos_of_int i)
let rec int_of_pos (p : positive) : int =
  match p with XH -> 1 | XO q -> 2 * int_of_pos q | XI q -> 2 * int_of_pos q + 1
let int_of_n (x : n) : int = match x with N0 -> 0 | Npos p -> int_of_pos p
let rec int_of_nat (x : nat) : int = match x with O -> 0 | S y -> 1 + int_of_nat y
let rec nat_of_int (i : int) : nat = if i <= 0 then O else S (nat_of_int (i - 1))

(* arbitrary precision decimal printing of positive / N / Z (values may exceed 63 bits) *)
let dec_of_bits (bits : bool list) : str =
  (* bits: most significant first; decimal digits kept little endian in an int array list *)
  let digits = ref [0] in
  let double_add b =
    let carry = ref (if b then 1 else 0) in
    digits := List.map (fun d -> let v = d * 2 + !carry in carry := v / 10; v mod 10) !digits;
    if !carry > 0 then digits := !digits @ [!carry] in
  List.iter double_add bits;
  S.concat "" (List.rev_map string_of_int !digits)
let rec bits_of_pos (p : positive) (acc : bool list) : bool list =
  match p with XH -> true :: acc | XO q -> bits_of_pos q (false :: acc) | XI q -> bits_of_pos q (true :: acc)
let dec_of_pos p = dec_of_bits (bits_of_pos p [])
let dec_of_n (x : n) = match x with N0 -> "0" | Npos p -> dec_of_pos p

(* decimal string -> positive, arbitrary precision *)
let pos_of_dec (s : str) : n =
  (* repeated division by 2 on a decimal digit array *)
  let d = Array.init (S.length s) (fun i -> Char.code s.[i] - 48) in
  let is_zero () = Array.for_all (fun x -> x = 0) d in
  let bits = ref [] in
  while not (is_zero ()) do
    let rem = ref 0 in
    for i = 0 to Array.length d - 1 do
      let v = !rem * 10 + d.(i) in
      d.(i) <- v / 2; rem := v mod 2
    done;
    bits := (!rem = 1) :: !bits
  done;
  (* bits: most significant first *)
  match !bits with
  | [] -> N0
  | _ :: rest -> Npos (List.fold_left (fun acc b -> if b then XI acc else XO acc) XH rest)

let hex_val c =
  match c with
  | '0' .. '9' -> Char.code c - 48
  | 'a' .. 'f' -> Char.code c - 87
  | 'A' .. 'F' -> Char.code c - 55
  | _ -> 0
let bytes_of_hex (h : str) : int list =
  let n = S.length h / 2 in
  List.init n (fun i -> hex_val h.[2 * i] * 16 + hex_val h.[2 * i + 1])

(* UTF-8 decoding of harness texts (always valid UTF-8: they are Rust strings) *)
let rec cps_of_bytes (b : int list) : int list =
  match b with
  | [] -> []
  | x :: r when x < 0x80 -> x :: cps_of_bytes r
  | x :: y :: r when x < 0xE0 -> (((x land 0x1F) lsl 6) lor (y land 0x3F)) :: cps_of_bytes r
  | x :: y :: z :: r when x < 0xF0 ->
      (((x land 0x0F) lsl 12) lor ((y land 0x3F) lsl 6) lor (z land 0x3F)) :: cps_of_bytes r
  | x :: y :: z :: w :: r ->
      (((x land 0x07) lsl 18) lor ((y land 0x3F) lsl 12) lor ((z land 0x3F) lsl 6) lor (w land 0x3F))
      :: cps_of_bytes r
  | _ -> []
let text_of_hex (h : str) : text = List.map n_of_int (cps_of_bytes (bytes_of_hex h))

let rec string_of_coq (s : Model.string) : str =
  match s with
  | EmptyString -> ""
  | String (Ascii (b0, b1, b2, b3, b4, b5, b6, b7), r) ->
      let bit b i = if b then 1 lsl i else 0 in
      let c = bit b0 0 + bit b1 1 + bit b2 2 + bit b3 3 + bit b4 4 + bit b5 5 + bit b6 6 + bit b7 7 in
      S.make 1 (Char.chr c) ^ string_of_coq r

let kind_name k = string_of_coq (tok_name k)

let show_token (t : token) : str =
  Printf.sprintf "%s %d %d %d %d" (kind_name t.t_kind) (int_of_n t.t_start) (int_of_n t.t_end)
    (int_of_n t.t_line) (int_of_n t.t_col)

let op_lex (args : str list) : str list =
  match args with
  | h :: _ ->
      let t = text_of_hex h in
      let (toks, errs) = tokenize_program t in
      let dom = in_domain t in
      [ (if dom then "1" else "0");
        S.concat ";" (List.map show_token toks);
        S.concat ";" (List.map (fun (s, e) -> Printf.sprintf "%d %d" (int_of_n s) (int_of_n e)) errs) ]
  | [] -> ["bad-args"]

(* semantic tokens: the model's response (relative data, or null) and, independently of
   lsp_project.rs, every lexeme of the text with the classes acceptable for it *)
let op_semtok (args : str list) : str list =
  match args with
  | h :: _ ->
      let t = text_of_hex h in
      let resp =
        match lsp_semantic_tokens t with
        | None -> "null"
        | Some l ->
            S.concat " " (List.map (fun ((((a, b), c), d), e) ->
              Printf.sprintf "%d %d %d %d %d" (int_of_n a) (int_of_n b) (int_of_n c) (int_of_n d) (int_of_n e)) l) in
      let items = lex_items (preprocess t) in
      let toks = tokens_of items in
      let lexemes =
        S.concat ";" (List.map (fun tk ->
          Printf.sprintf "%s %d %d %d %s %s" (kind_name tk.t_kind) (int_of_n tk.t_line) (int_of_n tk.t_col)
            (int_of_n (blen tk.t_text))
            (match allowed_classes tk.t_kind with [] -> "-" | l -> S.concat "|" (List.map string_of_coq l))
            (if must_highlight tk.t_kind then "1" else "0")) toks) in
      [ (if in_domain t then "1" else "0"); resp; lexemes; S.concat " " (List.map string_of_coq legend) ]
  | [] -> ["bad-args"]

(* file decoding: bytes (hex) -> decoded text as UTF-8 hex, or "none" (UnsupportedEncoding) *)
let hex_of_bytes (bs : n list) : str = S.concat "" (List.map (fun b -> Printf.sprintf "%02x" (int_of_n b)) bs)
let op_decode (args : str list) : str list =
  match args with
  | h :: _ ->
      let bs = List.map n_of_int (bytes_of_hex h) in
      (match cascade decoders bs with
       | None -> ["none"]
       | Some t -> ["some"; hex_of_bytes (enc8 t)])
  | [] -> ["bad-args"]

(* literals: <kind> <token texts as hex ...> -> model result *)
let show_opt_n = function None -> "none" | Some v -> dec_of_n v
let op_lit (args : str list) : str list =
  match args with
  | "int" :: h :: _ -> [show_opt_n (integer_new (text_of_hex h))]
  | "hex" :: h :: _ -> [show_opt_n (try_hex (text_of_hex h))]
  | "oct" :: h :: _ -> [show_opt_n (try_octal (text_of_hex h))]
  | "bin" :: h :: _ -> [show_opt_n (try_binary (text_of_hex h))]
  | "fixed" :: h :: _ ->
      (match fixed_parse (text_of_hex h) with None -> ["none"] | Some (w, f) -> [dec_of_n w; dec_of_n f])
  | "dur" :: unit_ :: isfixed :: h :: _ ->
      (* one duration component: the token text of its number, as FixedPoint or Digits token *)
      let v = if isfixed = "1" then fixed_parse (text_of_hex h)
              else (match integer_new (text_of_hex h) with None -> None | Some i -> fixed_of_integer i) in
      let npu = (match unit_ with "d" -> npu_day | "h" -> npu_hour | "m" -> npu_minute | "s" -> npu_second | _ -> npu_milli) in
      (match v with
       | None -> ["none"]
       | Some wf -> (match try_from_units wf npu with None -> ["none"] | Some (s, n) -> [dec_of_n s; dec_of_n n]))
  | "date" :: y :: m :: d :: _ ->
      (match integer_new (text_of_hex y), integer_new (text_of_hex m), integer_new (text_of_hex d) with
       | Some y, Some m, Some d ->
           (match date_literal y m d with None -> ["none"] | Some ((a, b), c) -> [dec_of_n a; dec_of_n b; dec_of_n c])
       | _ -> ["none"])
  | "tod" :: hh :: mm :: isfixed :: ss :: _ ->
      let s = if isfixed = "1" then fixed_parse (text_of_hex ss)
              else (match integer_new (text_of_hex ss) with None -> None | Some i -> fixed_of_integer i) in
      (match integer_new (text_of_hex hh), integer_new (text_of_hex mm), s with
       | Some h, Some m, Some s ->
           (match daytime h m s with None -> ["none"]
            | Some (((a, b), c), d) -> [dec_of_n a; dec_of_n b; dec_of_n c; dec_of_n d])
       | _ -> ["none"])
  | "todtext" :: hh :: mm :: ss :: us :: _ ->
      (* the renderer model's text for the seconds, and what the literal model reads it back as *)
      (match integer_new (text_of_hex hh), integer_new (text_of_hex mm), integer_new (text_of_hex ss), integer_new (text_of_hex us) with
       | Some h, Some m, Some s, Some u ->
           let txt = S.concat "." (List.map dec_of_n (seconds_text s u)) in
           (match read_back h m s u with None -> [txt; "none"]
            | Some (((a, b), c), d) -> [txt; dec_of_n a; dec_of_n b; dec_of_n c; dec_of_n d])
       | _ -> ["none"])
  | "datetext" :: yy :: mm :: dd :: _ ->
      (match integer_new (text_of_hex yy), integer_new (text_of_hex mm), integer_new (text_of_hex dd) with
       | Some y, Some m, Some d ->
           let txt = S.concat "." (List.map dec_of_n (date_text y m d)) in
           (match date_read_back y m d with None -> [txt; "none"]
            | Some ((a, b), c) -> [txt; dec_of_n a; dec_of_n b; dec_of_n c])
       | _ -> ["none"])
  | "mstext" :: h :: _ ->
      (match read_milliseconds (text_of_hex h) with None -> ["none"] | Some (a, b) -> [dec_of_n a; dec_of_n b])
  | "addr" :: h :: _ ->
      (match address (text_of_hex h) with
       | None -> ["none"]
       | Some ((l, s), comps) -> [dec_of_n l; dec_of_n s; S.concat "." (List.map dec_of_n comps)])
  | _ -> ["bad-args"]

(* declaration graph: each argument is one declaration "A n b" | "S n e1,e2" | "P n i1,i2" | "L n" *)
let op_cycle (args : str list) : str list =
  let ints s = if s = "" then [] else List.map (fun x -> n_of_int (int_of_string x)) (S.split_on_char ',' s) in
  let decl a =
    match S.split_on_char ' ' a with
    | ["A"; n; b] -> DAlias (n_of_int (int_of_string n), n_of_int (int_of_string b))
    | ["S"; n; es] -> DStruct (n_of_int (int_of_string n), ints es)
    | ["S"; n] -> DStruct (n_of_int (int_of_string n), [])
    | ["P"; n; is] -> DPou (n_of_int (int_of_string n), ints is)
    | ["P"; n] -> DPou (n_of_int (int_of_string n), [])
    | ["L"; n] -> DLeaf (n_of_int (int_of_string n))
    | _ -> failwith "bad decl" in
  [ if reports_cycle (List.map decl args) then "1" else "0" ]

(* language server: each argument one message:
   "O uid file ver doc" | "C uid file ver d1,d2|-" | "X uid file" | "S id uid file" | "B id" | "Q id" | "N" | "A id" *)
let z_of_int (i : int) : z = if i = 0 then Z0 else if i > 0 then Zpos (pos_of_int i) else Zneg (pos_of_int (-i))
let int_of_z (x : z) : int = match x with Z0 -> 0 | Zpos p -> int_of_pos p | Zneg p -> - (int_of_pos p)
let op_lsp (args : str list) : str list =
  let n s = n_of_int (int_of_string s) in
  let uri a b = { u_id = n a; u_file = (b = "1") } in
  let m a =
    match S.split_on_char ' ' a with
    | ["O"; u; f; v; d] -> DidOpen (uri u f, z_of_int (int_of_string v), n d)
    | ["C"; u; f; v; ds] -> DidChange (uri u f, z_of_int (int_of_string v),
                                       if ds = "-" then [] else List.map n (S.split_on_char ',' ds))
    | ["S"; i; u; f] -> SemTokens (n i, uri u f)
    | ["X"; u; f] -> DidClose (uri u f)
    | ["B"; i] -> BadParams (n i)
    | ["Q"; i] -> OtherRequest (n i)
    | ["N"] -> OtherNotification
    | ["A"; i] -> Response (n i)
    | _ -> failwith "bad message" in
  let show o =
    match o with
    | Publish (u, v, _) -> Printf.sprintf "P %d %d %d" (int_of_n u.u_id) (if u.u_file then 1 else 0) (int_of_z v)
    | Reply (i, t) -> Printf.sprintf "R %d %d" (int_of_n i) (if t then 1 else 0)
    | ErrorReply (i, c) -> Printf.sprintf "E %d %d" (int_of_n i) (int_of_z c) in
  let fr a =
    match S.split_on_char ' ' a with
    | ["H"; i] -> Shutdown (n i)
    | ["Z"] -> Exit
    | _ -> Msg (m a) in
  if List.exists (fun a -> a = "Z" || (S.length a > 1 && S.sub a 0 2 = "H ")) args || (match args with "L" :: _ -> true | _ -> false) then begin
    (* the life of the process: "L" first, then frames; answer: frames written | id of the shutdown answered or - | clean *)
    let args = (match args with "L" :: r -> r | r -> r) in
    let e = lsp_session (List.map fr args) in
    [ S.concat ";" (List.map show e.e_out);
      (match e.e_shutdown with Some i -> string_of_int (int_of_n i) | None -> "-");
      (if e.e_clean then "1" else "0") ]
  end else
  [ S.concat ";" (List.map show (lsp_run (List.map m args))) ]

(* command line: cmd(0 check,1 tokenize,2 echo) | fs "p:F<c>|p:U|p:D<e,e>|..." | tok "c:code,code;..." |
   parse "c:code;..." | render "c:code;..." | analysis "code,code" | paths "p,p" *)
let op_cli (args : str list) : str list =
  match args with
  | [cmd; fsS; tokS; parseS; renderS; anaS; pathsS] ->
      let n s = n_of_int (int_of_string s) in
      let items sep s = if s = "" || s = "-" then [] else S.split_on_char sep s in
      let fsl = List.map (fun it ->
        match S.split_on_char ':' it with
        | [p; spec] ->
            let nd =
              if spec = "U" then File None
              else if S.length spec > 0 && spec.[0] = 'F' then File (Some (n (S.sub spec 1 (S.length spec - 1))))
              else if S.length spec > 0 && spec.[0] = 'D' then Dir (List.map n (items ',' (S.sub spec 1 (S.length spec - 1))))
              else Missing in
            (n p, nd)
        | _ -> failwith "bad fs") (items '|' fsS) in
      let kv1 s = List.map (fun it -> match S.split_on_char ':' it with [c; v] -> (n c, n v) | _ -> failwith "bad kv") (items ';' s) in
      let kvl s = List.map (fun it -> match S.split_on_char ':' it with [c; v] -> (n c, List.map n (items ',' v)) | _ -> failwith "bad kvl") (items ';' s) in
      let o = cli_run (n cmd) fsl (kvl tokS) (kv1 parseS) (kv1 renderS) (List.map n (items ',' anaS)) (List.map n (items ',' pathsS)) in
      [ string_of_int (int_of_n o.exit); (if o.ok_line then "1" else "0");
        S.concat "," (List.map (fun c -> string_of_int (int_of_n c)) o.coded) ]
  | _ -> ["bad-args"]

(* analyzer pieces: "unique n,n,n" -> number of reports; "subrange neg lo neg hi" -> 0/1;
   "reasm K:name,K:name,..." (K in T type, X postfix, P pou) -> ok | dup *)
let op_rule (args : str list) : str list =
  match args with
  | ["unique"; l] ->
      let ns = if l = "" || l = "-" then [] else List.map (fun x -> n_of_int (int_of_string x)) (S.split_on_char ',' l) in
      [ string_of_int (List.length (rule_unique ns)) ]
  | ["subrange"; nl; lo; nh; hi] ->
      [ dec_of_n (rule_subrange (nl = "1", pos_of_dec lo) (nh = "1", pos_of_dec hi)) ]
  | ["reasm"; l] ->
      let ds = List.mapi (fun i it ->
        match S.split_on_char ':' it with
        | [k; nm] -> { d_kind = (match k with "T" -> DkType | "X" -> DkPostfix | _ -> DkPou);
                       d_name = n_of_int (int_of_string nm); d_body = n_of_int i }
        | _ -> failwith "bad decl") (if l = "" || l = "-" then [] else S.split_on_char ',' l) in
      let sorted = List.sort_uniq compare (List.map (fun d -> int_of_n d.d_name) ds) in
      (match reassemble (List.map n_of_int sorted) ds with
       | Ok out -> [ "ok"; string_of_int (List.length out) ]
       | _ -> [ "dup" ])
  | _ -> ["bad-args"]

(* expressions: "parse <hex text>" -> S-expression of the model's tree + number of tokens left;
   "render <S-expression>" -> the rendered tokens as kind:texthex separated by blanks *)
let str_of_text (t : text) : str = S.concat "" (List.map (fun c -> let i = int_of_n c in if i < 128 then S.make 1 (Char.chr i) else Printf.sprintf "\\u%x" i) t)
let binop_name = function BOr -> "or" | BXor -> "xor" | BAnd -> "and" | BEq -> "eq" | BNe -> "ne" | BLt -> "lt" | BGt -> "gt"
  | BLe -> "lteq" | BGe -> "gteq" | BAdd -> "add" | BSub -> "sub" | BMul -> "mul" | BDiv -> "div" | BMod -> "mod" | BPow -> "pow"
let unop_name = function UNeg -> "neg" | UNot -> "not"
let rec sexp (e : (binop, unop, leaf) expr) : str =
  match e with
  | EAtom (LInt d) -> "i:" ^ str_of_text d
  | EAtom (LName n) -> "n:" ^ S.lowercase_ascii (str_of_text n)
  | EBin (o, l, r) -> "(" ^ binop_name o ^ " " ^ sexp l ^ " " ^ sexp r ^ ")"
  | EUn (o, x) -> "(" ^ unop_name o ^ " " ^ sexp x ^ ")"
let text_of_str (s : str) : text = List.init (S.length s) (fun i -> n_of_int (Char.code s.[i]))
(* S-expression reader for trees built by the harness *)
let parse_sexp (s : str) : (binop, unop, leaf) expr =
  let n = S.length s in
  let pos = ref 0 in
  let skipws () = while !pos < n && s.[!pos] = ' ' do incr pos done in
  let word () = let j = ref !pos in while !j < n && s.[!j] <> ' ' && s.[!j] <> ')' && s.[!j] <> '(' do incr j done;
    let w = S.sub s !pos (!j - !pos) in pos := !j; w in
  let rec go () =
    skipws ();
    if s.[!pos] = '(' then begin
      incr pos; let h = word () in
      let a = go () in
      skipws ();
      if s.[!pos] = ')' then (incr pos;
        EUn ((match h with "neg" -> UNeg | _ -> UNot), a))
      else begin
        let b = go () in skipws (); incr pos;
        let o = (match h with "or" -> BOr | "xor" -> BXor | "and" -> BAnd | "eq" -> BEq | "ne" -> BNe | "lt" -> BLt | "gt" -> BGt
                 | "lteq" -> BLe | "gteq" -> BGe | "add" -> BAdd | "sub" -> BSub | "mul" -> BMul | "div" -> BDiv | "mod" -> BMod | _ -> BPow) in
        EBin (o, a, b) end
    end else begin
      let w = word () in
      let body = S.sub w 2 (S.length w - 2) in
      if w.[0] = 'i' then EAtom (LInt (text_of_str body)) else EAtom (LName (text_of_str body))
    end in
  go ()
let op_expr (args : str list) : str list =
  match args with
  | ["parse"; h] ->
      (match parse_expr_text (text_of_hex h) with
       | Ok (e, rest) -> [ "ok"; sexp e; string_of_int (List.length rest) ]
       | Fail -> ["fail"] | Panic -> ["panic"] | OutOfFuel -> ["out-of-fuel"])
  | ["render"; sx] ->
      let toks = render_expr (parse_sexp sx) in
      [ S.concat " " (List.map (fun (t : token) -> kind_name t.t_kind ^ ":" ^ str_of_text t.t_text)
                        (List.filter (fun (t : token) -> kind_name t.t_kind <> "Whitespace") toks)) ]
  | _ -> ["bad-args"]

(* symbol-table walk: events separated by blanks: E (enter) X (exit) A:name U:pos:name -> ok | bad pos name *)
let op_scope (args : str list) : str list =
  match args with
  | [l] ->
      let evs = List.filter_map (fun w ->
        if w = "" || w = "-" then None else
        match S.split_on_char ':' w with
        | ["E"] -> Some EvEnter
        | ["X"] -> Some EvExit
        | ["A"; nm] -> Some (EvAdd (text_of_str nm))
        | ["U"; ps; nm] -> Some (EvUse (text_of_str nm, n_of_int (int_of_string ps)))
        | _ -> failwith "bad event") (S.split_on_char ' ' l) in
      (match rule_symbolic evs with
       | None -> ["ok"]
       | Some (ps, nm) -> ["bad"; string_of_int (int_of_n ps); str_of_text nm])
  | _ -> ["bad-args"]

(* statements: "<hex text of FUNCTION_BLOCK name body END_FUNCTION_BLOCK>" -> parsed <S-expressions> | rejected | fuel | scope *)
let hex_of_text (t : text) : str = S.concat "" (List.map (fun c -> Printf.sprintf "%x." (int_of_n c)) t)
let lname (t : text) : str = S.lowercase_ascii (str_of_text t)
let tykw_name = function
  | TSint -> "sint" | TInt -> "int" | TDint -> "dint" | TLint -> "lint" | TUsint -> "usint" | TUint -> "uint" | TUdint -> "udint"
  | TUlint -> "ulint" | TReal -> "real" | TLreal -> "lreal" | TTime -> "time" | TDate -> "date" | TTod -> "time_of_day"
  | TDt -> "date_and_time" | TByte -> "byte" | TWord -> "word" | TDword -> "dword" | TLword -> "lword"
(* a real constant as the bits of its binary64 value: the text without '_' read by strtod (correctly rounded), negated for '-' *)
let real_bits (sg : bool option) (lit : text) : str =
  let s = S.concat "" (List.filter (fun c -> c <> "_") (List.map (S.make 1) (List.of_seq (S.to_seq (str_of_text lit))))) in
  match float_of_string_opt s with
  | Some f -> let f = (match sg with Some true -> -. f | _ -> f) in Printf.sprintf "%Lx" (Int64.bits_of_float f)
  | None -> "?" ^ s
let sx_leaf = function
  | LfInt (neg, v) -> "i:" ^ (if neg then "-" else "") ^ dec_of_n v
  | LfBool b -> if b then "b:true" else "b:false"
  | LfStr c -> "s:" ^ hex_of_text c
  | LfName n -> "n:" ^ lname n
  | LfReal (ty, sg, lit) -> "r:" ^ (match ty with Some k -> tykw_name k | None -> "-") ^ ":" ^ real_bits sg lit
  | LfTInt (k, neg, v) -> "ti:" ^ tykw_name k ^ ":" ^ (if neg then "-" else "") ^ dec_of_n v
  | LfBits (k, v) -> "bs:" ^ tykw_name k ^ ":" ^ dec_of_n v
let rec sx_expr (e : sexpr) : str =
  match e with
  | XAtom l -> sx_leaf l
  | XVar (n, ss) -> sx_var n ss
  | XBin (o, l, r) -> "(" ^ binop_name o ^ " " ^ sx_expr l ^ " " ^ sx_expr r ^ ")"
  | XUn (o, x) -> "(" ^ unop_name o ^ " " ^ sx_expr x ^ ")"
  | XCall (f, ps) -> "(call " ^ lname f ^ sx_params ps ^ ")"
and sx_var n ss =
  if ss = [] then "v:" ^ lname n
  else "(var " ^ lname n ^ S.concat "" (List.map (fun s -> match s with
      | SField f -> " (field " ^ lname f ^ ")"
      | SIndex es -> " (index" ^ S.concat "" (List.map (fun e -> " " ^ sx_expr e) es) ^ ")") ss) ^ ")"
and sx_params ps = S.concat "" (List.map (fun p -> " " ^ sx_param p) ps)
and sx_param p =
  match p with
  | PPos e -> "(pos " ^ sx_expr e ^ ")"
  | PNamed (n, e) -> "(named " ^ lname n ^ " " ^ sx_expr e ^ ")"
  | POut (neg, n, v, vs) -> "(out " ^ (if neg then "1" else "0") ^ " " ^ lname n ^ " " ^ sx_var v vs ^ ")"
let rec sx_stmt (s : stmt) : str =
  match s with
  | TAssign (v, vs, e) -> "(assign " ^ sx_var v vs ^ " " ^ sx_expr e ^ ")"
  | TCall (f, ps) -> "(fbcall " ^ lname f ^ sx_params ps ^ ")"
  | TIf (c, b, eis, els) ->
      "(if " ^ sx_expr c ^ " " ^ sx_list b ^ " (" ^ S.concat " " (List.map (fun (c, b) -> "(elsif " ^ sx_expr c ^ " " ^ sx_list b ^ ")") eis) ^ ") " ^ sx_list els ^ ")"
  | TFor (v, a, b, st, body) ->
      "(for " ^ lname v ^ " " ^ sx_expr a ^ " " ^ sx_expr b ^ " " ^ (match st with Some e -> sx_expr e | None -> "-") ^ " " ^ sx_list body ^ ")"
  | TCase (c, gs, els) ->
      let sx_sel = function
        | CsInt (neg, v) -> "i:" ^ (if neg then "-" else "") ^ dec_of_n v
        | CsRange (n1, v1, n2, v2) ->
            "(range i:" ^ (if n1 then "-" else "") ^ dec_of_n v1 ^ " i:" ^ (if n2 then "-" else "") ^ dec_of_n v2 ^ ")"
        | CsEnum n -> "e:" ^ lname n in
      "(case " ^ sx_expr c ^ " (" ^ S.concat " " (List.map (fun (ss, b) -> "(grp (" ^ S.concat " " (List.map sx_sel ss) ^ ") " ^ sx_list b ^ ")") gs) ^ ") " ^ sx_list els ^ ")"
  | TWhile (c, b) -> "(while " ^ sx_expr c ^ " " ^ sx_list b ^ ")"
  | TRepeat (b, c) -> "(repeat " ^ sx_list b ^ " " ^ sx_expr c ^ ")"
  | TExit -> "exit"
  | TReturn -> "return"
and sx_list l = "(" ^ S.concat " " (List.map sx_stmt l) ^ ")"
let op_stmts (args : str list) : str list =
  match args with
  | [h] ->
      (match parse_fb_text (text_of_hex h) with
       | OParsed l -> ["parsed"; sx_list l]
       | ORejected -> ["rejected"]
       | OFuel -> ["fuel"]
       | OScope -> ["scope"])
  | _ -> ["bad-args"]

(* function block with declaration blocks: "<hex text>" -> parsed <vars> <edges> <statements> | rejected | fuel | scope *)
let sx_dinit = function
  | DSimple (ty, None) -> "(simple " ^ lname ty ^ " -)"
  | DSimple (ty, Some c) -> "(simple " ^ lname ty ^ " " ^ sx_leaf c ^ ")"
  | DEnumType (ty, v) -> "(enumtype " ^ lname ty ^ " " ^ lname v ^ ")"
  | DLate ty -> "(late " ^ lname ty ^ ")"
let sx_class = function DcInput -> "input" | DcOutput -> "output" | DcInOut -> "inout" | DcExternal -> "external" | DcVar -> "var"
let sx_qual = function DqNone -> "unspec" | DqConst -> "const" | DqRetain -> "retain" | DqNonRetain -> "nonretain"
let op_fbd (args : str list) : str list =
  match args with
  | [h] ->
      (match parse_fbd_text (text_of_hex h) with
       | O2Parsed (ds, l) ->
           let vars = List.filter_map (function DVar (n, c, q, i) -> Some ("(var " ^ lname n ^ " " ^ sx_class c ^ " " ^ sx_qual q ^ " " ^ sx_dinit i ^ ")") | _ -> None) ds in
           let edges = List.filter_map (function DEdge (n, r, q) -> Some ("(edge " ^ lname n ^ " " ^ (if r then "r" else "f") ^ " " ^ sx_qual q ^ ")") | _ -> None) ds in
           ["parsed"; "(" ^ S.concat " " vars ^ ")"; "(" ^ S.concat " " edges ^ ")"; sx_list l]
       | O2Rejected -> ["rejected"]
       | O2Fuel -> ["fuel"]
       | O2Scope -> ["scope"])
  | _ -> ["bad-args"]

(* the significant tokens of a rendered token list, kind:texthex, with a leading '+' when trivia stands before the token *)
let sig_tokens (toks : token list) : str =
  let rec go gap = function
    | [] -> []
    | (t : token) :: r ->
        let k = kind_name t.t_kind in
        if k = "Whitespace" || k = "Newline" || k = "Comment" then go true r
        else ((if gap then "+" else "") ^ k ^ ":" ^ hex_of_text t.t_text) :: go false r in
  S.concat " " (go false toks)

(* renderer model: "<hex text>" -> the significant tokens (kind:texthex) the renderer model writes for the statement list
   the parser model reads from the text | notparsed *)
let op_strender (args : str list) : str list =
  match args with
  | [h] ->
      (match parse_fb_text (text_of_hex h) with
       | OParsed [] -> ["emptybody"]
       | OParsed l ->
           let toks = render_list l in
           [ "rendered";
             sig_tokens toks ]
       | _ -> ["notparsed"])
  | _ -> ["bad-args"]

(* the text round trip: "<hex text of a function block>" -> rt <1|0: the decidable check text_ok of the rendering> <1|0: parsing the
   rendered TEXT gives back the statements> <hex of the rendered text> | emptybody | notparsed *)
let op_textrt (args : str list) : str list =
  match args with
  | [h] ->
      (match parse_fb_text (text_of_hex h) with
       | OParsed [] -> ["emptybody"]
       | OParsed l ->
           let name = [n_of_int 102; n_of_int 98] in
           let u = render_fb name l in
           let txt = render_text name l in
           [ "rt"; (if text_ok u then "1" else "0"); (if parse_fb_text txt = OParsed l then "1" else "0"); hex_of_text txt ]
       | _ -> ["notparsed"])
  | _ -> ["bad-args"]

(* the decidable check of C01_spelled_text_is_faithful on the tokens of a text: "<hex text>" -> 1|0 (the check), 1|0 (the tokens spell the text) *)
let op_textok (args : str list) : str list =
  match args with
  | [h] ->
      let t = text_of_hex h in
      let u = List.map norm_tok (tokens_of (lex_items t)) in
      [ (if text_ok u then "1" else "0"); (if spell_all u = t then "1" else "0") ]
  | _ -> ["bad-args"]

(* which token makes the text check fail: "<hex text>" -> kind, text, the next characters | ok *)
let op_textwhy (args : str list) : str list =
  match args with
  | [h] ->
      let t = text_of_hex h in
      let u = List.map norm_tok (tokens_of (lex_items t)) in
      let rec go = function
        | [] -> ["ok"]
        | (tk : token) :: r ->
            let rest = spell_all r in
            if tok_sep tk rest then go r
            else [ kind_name tk.t_kind; hex_of_text tk.t_text; hex_of_text (List.filteri (fun i _ -> i < 4) rest) ] in
      go u
  | _ -> ["bad-args"]

(* semantic rules on facts: one fact per argument (fields separated by ','; see harness op `facts`) ->
   one field per rule, "code@pos code@pos ..", in the order const_init const_not_fb global_const task enum_value fb_call stdlib *)
let fact_of (w : str) : fact =
  let name h = text_of_hex h in
  let num x = n_of_int (int_of_string x) in
  let names l = if l = "" then [] else List.map name (S.split_on_char ':' l) in
  match S.split_on_char ',' w with
  | ["EA"; n; t; p] -> FEnumAlias (name n, name t, num p)
  | ["EV"; n; vs] -> FEnumValues (name n, names vs)
  | ["EN"; k; n] -> FEnter ((match k with "F" -> PkFunction | "B" -> PkFB | _ -> PkProgram), name n)
  | ["EX"] -> FExit
  | ["VA"; n; c; q; k; t; h; p] ->
      FVar { v_name = (if n = "-" then None else Some (name n));
             v_class = (match c with "var" -> VcVar | "temp" -> VcTemp | "input" -> VcInput | "output" -> VcOutput | "inout" -> VcInOut
                                   | "external" -> VcExternal | "global" -> VcGlobal | "access" -> VcAccess | _ -> failwith "class");
             v_qual = (match q with "unspec" -> QUnspec | "const" -> QConst | "retain" -> QRetain | "nonretain" -> QNonRetain | _ -> failwith "qual");
             v_ikind = (match k with "none" -> IkNone | "simple" -> IkSimple | "string" -> IkString | "enumvalues" -> IkEnumValues
                                   | "enumtype" -> IkEnumType | "fb" -> IkFB | "subrange" -> IkSubrange | "struct" -> IkStruct
                                   | "array" -> IkArray | "late" -> IkLate | _ -> failwith "ikind");
             v_type = (if t = "-" then [] else name t); v_hasinit = (h = "1"); v_pos = num p }
  | ["ED"; n] -> FEdge (name n)
  | ["CA"; i; p; args] ->
      let arg a = if a = "P" then APos
                  else if S.length a > 0 && a.[0] = 'N' then ANamed (name (S.sub a 1 (S.length a - 1)))
                  else if S.length a > 0 && a.[0] = 'O' then AOut (name (S.sub a 1 (S.length a - 1)))
                  else failwith "arg" in
      FCall (name i, num p, (if args = "" then [] else List.map arg (S.split_on_char ':' args)))
  | ["EI"; t; tp; v; vp] -> FEnumInit (name t, num tp, (if v = "-" then None else Some (name v, num vp)))
  | ["FI"; t; tp] -> FFbInit (name t, num tp)
  | ["RS"; ts; ps] ->
      let prog x = if x = "-" then None else
        (match S.split_on_char '@' x with [t; p] -> Some (name t, num p) | _ -> failwith "prog") in
      FRes (names ts, (if ps = "" then [] else List.map prog (S.split_on_char ':' ps)))
  | _ -> failwith ("bad fact " ^ w)
let op_rules (args : str list) : str list =
  let fs = List.map fact_of (List.filter (fun w -> w <> "") args) in
  let show ds = if ds = [] then "-" else S.concat " " (List.map (fun (c, p) -> dec_of_n c ^ "@" ^ dec_of_n p) ds) in
  [ show (rule_const_init fs); show (rule_const_not_fb fs); show (rule_global_const fs); show (rule_task fs);
    show (rule_enum_value fs); show (rule_fb_call fs); show (rule_stdlib fs) ]

(* the three rules on type declarations: one fact per argument (see harness op `declfacts`) -> per rule (structure elements,
   enumeration values, subrange limits) "-" or diagnostics "code@s-e@s-e@.." (primary label, then the secondary ones) *)
let span_of (w : str) = match S.split_on_char '-' w with
  | [a; b] -> (pos_of_dec a, pos_of_dec b)
  | _ -> failwith ("bad span " ^ w)
let item_of (w : str) : nitem = match S.split_on_char '@' w with
  | [n; a; b] -> { i_name = text_of_hex n; i_id = span_of a; i_node = span_of b }
  | _ -> failwith ("bad item " ^ w)
let items_of (w : str) = if w = "" then [] else List.map item_of (S.split_on_char ':' w)
let declfact_of (w : str) : tyfact =
  match S.split_on_char ',' w with
  | ["ST"; nm; els] -> TyStruct (span_of nm, items_of els)
  | ["EV"; vs] -> TyEnum (items_of vs)
  | ["SR"; ln; lm; ls; hn; hm; hs] -> TySub ((ln = "1", pos_of_dec lm), (hn = "1", pos_of_dec hm), span_of ls, span_of hs)
  | _ -> failwith ("bad declaration fact " ^ w)
let op_declrules (args : str list) : str list =
  let fs = List.map declfact_of (List.filter (fun w -> w <> "") args) in
  let sp (a, b) = dec_of_n a ^ "-" ^ dec_of_n b in
  let show ds = if ds = [] then "-" else
    S.concat " " (List.map (fun d -> S.concat "@" (dec_of_n d.ld_code :: sp d.ld_primary :: List.map sp d.ld_secondary)) ds) in
  [ show (rule_struct_unique fs); show (rule_enum_unique fs); show (rule_subrange_limits fs) ]

(* the late-bound type initializer transformation: one type fact per argument (see harness op `latebound`) ->
   ok <kinds separated by blanks> | err <code@pos ..> *)
let ikind_of = function
  | "none" -> IkNone | "simple" -> IkSimple | "string" -> IkString | "enumvalues" -> IkEnumValues | "enumtype" -> IkEnumType
  | "fb" -> IkFB | "subrange" -> IkSubrange | "struct" -> IkStruct | "array" -> IkArray | "late" -> IkLate | _ -> failwith "ikind"
let ikind_name = function
  | IkNone -> "none" | IkSimple -> "simple" | IkString -> "string" | IkEnumValues -> "enumvalues" | IkEnumType -> "enumtype"
  | IkFB -> "fb" | IkSubrange -> "subrange" | IkStruct -> "struct" | IkArray -> "array" | IkLate -> "late"
let tfact_of (w : str) : tfact =
  match S.split_on_char ',' w with
  | ["TD"; n; k; p] ->
      TDecl (text_of_hex n,
             (match k with "enum" -> TkEnum | "subrange" -> TkSubrange | "simple" -> TkSimple | "array" -> TkArray | "struct" -> TkStruct
                         | "structinit" -> TkStructInit | "string" -> TkString | "latebound" -> TkLateBound | "fb" -> TkFB | _ -> failwith "tkind"),
             n_of_int (int_of_string p))
  | ["IK"; k; t; p] -> TInit (ikind_of k, (if t = "-" then [] else text_of_hex t), n_of_int (int_of_string p))
  | _ -> failwith ("bad type fact " ^ w)
let op_latebound (args : str list) : str list =
  let fs = List.map tfact_of (List.filter (fun w -> w <> "") args) in
  match xform_type_init fs with
  | Inl ks -> ["ok"; S.concat " " (List.map ikind_name ks)]
  | Inr ds -> ["err"; S.concat " " (List.map (fun (c, p) -> dec_of_n c ^ "@" ^ dec_of_n p) ds)]

(* the late-bound expression resolver: one event per argument (EN,name=kind;.. EX AS,D AS,N,name AS,A AS,S AE LB,name; other
   tags are skipped) -> ok V:<hex> E:<hex> .. | error *)
let vkind_of = function
  | "none" -> VkNone | "simple" -> VkSimple | "string" -> VkString | "enumvalues" -> VkEnumValues | "enumtype" -> VkEnumType
  | "fb" -> VkFb | "subrange" -> VkSubrange | "struct" -> VkStruct | "array" -> VkArray | "late" -> VkLate
  | k -> failwith ("bad kind " ^ k)
let efact_of (w : str) : efact option =
  match S.split_on_char ',' w with
  | "EN" :: rest ->
      let body = S.concat "," rest in
      let items = List.filter (fun x -> x <> "") (S.split_on_char ';' body) in
      Some (EfEnter (List.map (fun it -> match S.split_on_char '=' it with
                                         | [n; k] -> (text_of_hex n, vkind_of k)
                                         | _ -> failwith ("bad variable " ^ it)) items))
  | ["EX"] -> Some EfExit
  | ["AS"; "D"] -> Some (EfAssign AtDirect)
  | ["AS"; "N"; n] -> Some (EfAssign (AtNamed (text_of_hex n)))
  | ["AS"; "A"] -> Some (EfAssign AtArray)
  | ["AS"; "S"] -> Some (EfAssign AtStruct)
  | ["AE"] -> Some EfEndAssign
  | ["LB"; n] -> Some (EfLate (text_of_hex n))
  | _ -> None
let op_exprkind (args : str list) : str list =
  let fs = List.filter_map efact_of (List.filter (fun w -> w <> "") args) in
  match resolve_expr_kinds fs with
  | Some rs -> ["ok"; S.concat " " (List.map (function ErVar n -> "V:" ^ hex_of_text n | ErEnum n -> "E:" ^ hex_of_text n) rs)]
  | None -> ["error"]

(* the data type alias resolver: one declaration per argument (DD,name,kind,pos  DA,alias,base) -> ok <kinds of the
   aliases> | err <code>@<pos> .. *)
let dfact_of (w : str) : dfact =
  match S.split_on_char ',' w with
  | ["DD"; n; k; p] ->
      TyDecl (text_of_hex n, (match k with "simple" -> Some DkSimple | "enum" -> Some DkEnum | "struct" -> Some DkStruct | _ -> None),
             n_of_int (int_of_string p))
  | ["DA"; n; b] -> TyAlias (text_of_hex n, text_of_hex b)
  | _ -> failwith ("bad declaration fact " ^ w)
let op_datadecl (args : str list) : str list =
  let fs = List.map dfact_of (List.filter (fun w -> w <> "") args) in
  match xform_data_decl fs with
  | Inl ks -> ["ok"; S.concat " " (List.map (function DkSimple -> "simple" | DkEnum -> "enum" | DkStruct -> "structinit") ks)]
  | Inr ds -> ["err"; S.concat " " (List.map (fun (c, p) -> dec_of_n c ^ "@" ^ dec_of_n p) ds)]

(* a library of function blocks and programs: "<hex text>" -> parsed <unit> <unit> .. | rejected | fuel | scope *)
let sx_items ds =
  let vars = List.filter_map (function DVar (n, c, q, i) -> Some ("(var " ^ lname n ^ " " ^ sx_class c ^ " " ^ sx_qual q ^ " " ^ sx_dinit i ^ ")") | _ -> None) ds in
  let edges = List.filter_map (function DEdge (n, r, q) -> Some ("(edge " ^ lname n ^ " " ^ (if r then "r" else "f") ^ " " ^ sx_qual q ^ ")") | _ -> None) ds in
  "(" ^ S.concat " " vars ^ ") (" ^ S.concat " " edges ^ ")"
let op_lib (args : str list) : str list =
  match args with
  | [h] ->
      (match parse_lib_text (text_of_hex h) with
       | O3Parsed us ->
           "parsed" :: List.map (fun u ->
             "(" ^ (match u.u_kind with UFb -> "fb" | UProgram -> "program") ^ " " ^ lname u.u_name ^ " " ^ sx_items u.u_decls ^ " " ^ sx_list u.u_body ^ ")") us
       | O3Rejected -> ["rejected"]
       | O3Fuel -> ["fuel"]
       | O3Scope -> ["scope"])
  | _ -> ["bad-args"]

(* a library with TYPE blocks: "<hex text>" -> parsed <element> .. (one per type declaration / unit) | rejected | fuel | scope *)
let sx_si (neg, v) = "i:" ^ (if neg then "-" else "") ^ dec_of_n v
let sx_tdecl = function
  | TdArray (n, rs, ty) -> "(array " ^ lname n ^ " (" ^ S.concat " " (List.map (fun (lo, hi) -> "(" ^ sx_si lo ^ " " ^ sx_si hi ^ ")") rs) ^ ") " ^ lname ty ^ ")"
  | TdSubrange (n, ty, lo, hi, d) -> "(subrange " ^ lname n ^ " " ^ lname ty ^ " " ^ sx_si lo ^ " " ^ sx_si hi ^ " " ^ (match d with Some x -> sx_si x | None -> "-") ^ ")"
  | TdEnum (n, vs, d) -> "(enum " ^ lname n ^ " (" ^ S.concat " " (List.map lname vs) ^ ") " ^ (match d with Some x -> lname x | None -> "-") ^ ")"
  | TdEnumOf (n, b, v) -> "(enumof " ^ lname n ^ " " ^ lname b ^ " " ^ lname v ^ ")"
  | TdSimple (n, ty, c) -> "(simple " ^ lname n ^ " " ^ lname ty ^ " " ^ sx_leaf c ^ ")"
  | TdLate (n, b) -> "(late " ^ lname n ^ " " ^ lname b ^ ")"
let op_lib2 (args : str list) : str list =
  match args with
  | [h] ->
      (match parse_lib2_text (text_of_hex h) with
       | O4Parsed es ->
           "parsed" :: List.concat (List.map (function
             | ETypes l -> List.map sx_tdecl l
             | EUnit u -> ["(" ^ (match u.u_kind with UFb -> "fb" | UProgram -> "program") ^ " " ^ lname u.u_name ^ " " ^ sx_items u.u_decls ^ " " ^ sx_list u.u_body ^ ")"]
             | EFunc f -> ["(function " ^ lname f.fn_name ^ " " ^ lname f.fn_ret ^ " " ^ sx_items f.fn_decls ^ " " ^ sx_list f.fn_body ^ ")"]) es)
       | O4Rejected -> ["rejected"]
       | O4Fuel -> ["fuel"]
       | O4Scope -> ["scope"])
  | _ -> ["bad-args"]

(* renderer model with declarations: "<hex text>" -> the significant tokens the renderer model writes for the variables, the
   edge inputs and the statement list the parser model reads from the text | notparsed *)
let op_fbdrender (args : str list) : str list =
  match args with
  | [h] ->
      (match parse_fbd_text (text_of_hex h) with
       | O2Parsed (ds, l) ->
           let vars = List.filter (function DVar _ -> true | _ -> false) ds in
           let edges = List.filter (function DEdge _ -> true | _ -> false) ds in
           let toks = render_decls (vars @ edges) @ nl1 @ render_list l in      (* a line break between the two renderings *)
           [ "rendered";
             sig_tokens toks ]
       | _ -> ["notparsed"])
  | _ -> ["bad-args"]

(* renderer model for a whole library: "<hex text>" -> the significant tokens the renderer model writes for the library the
   parser model reads from the text (in every unit the variables first, then the edge inputs, as the library holds them) *)
let op_lib2render (args : str list) : str list =
  match args with
  | [h] ->
      (match parse_lib2_text (text_of_hex h) with
       | O4Parsed es ->
           let reorder = function
             | ETypes l -> ETypes l
             | EUnit u ->
                 let vars = List.filter (function DVar _ -> true | _ -> false) u.u_decls in
                 let edges = List.filter (function DEdge _ -> true | _ -> false) u.u_decls in
                 EUnit { u with u_decls = vars @ edges }
             | EFunc f ->
                 let vars = List.filter (function DVar _ -> true | _ -> false) f.fn_decls in
                 let edges = List.filter (function DEdge _ -> true | _ -> false) f.fn_decls in
                 EFunc { f with fn_decls = vars @ edges } in
           let toks = render_lib2 (List.map reorder es) in
           [ "rendered";
             sig_tokens toks ]
       | _ -> ["notparsed"])
  | _ -> ["bad-args"]

let ops : (str * (str list -> str list)) list ref =
  ref [ ("lex", op_lex); ("semtok", op_semtok); ("decode", op_decode); ("lit", op_lit); ("cycle", op_cycle);
        ("lsp", op_lsp); ("cli", op_cli); ("rule", op_rule); ("expr", op_expr); ("scope", op_scope); ("stmts", op_stmts); ("strender", op_strender); ("rules", op_rules); ("latebound", op_latebound); ("fbd", op_fbd); ("fbdrender", op_fbdrender); ("lib", op_lib); ("lib2", op_lib2); ("lib2render", op_lib2render); ("exprkind", op_exprkind); ("datadecl", op_datadecl); ("declrules", op_declrules); ("textrt", op_textrt); ("textok", op_textok); ("textwhy", op_textwhy) ]


let () =
  try
    while true do
      let line = input_line stdin in
      match S.split_on_char '\t' line with
      | op :: id :: args ->
          let out =
            match List.assoc_opt op !ops with
            | Some f -> (try f args with Stack_overflow -> ["model-stack-overflow"])
            | None -> ["unknown-op"] in
          print_string (S.concat "\t" (id :: out));
          print_newline ()
      | _ -> ()
    done
  with End_of_file -> ()
