(* FEASIBILITY PROTOTYPE written during the design round (not part of the framework).
   It shows that the proof technique planned in DESIGN.md section 4.5 goes through:
   a fuel-indexed, open-recursive model of the peg `precedence!` climbing loop with trivia,
   proved to return [erase s] on the token flattening of every well-formed spelled tree [s].
   coqc Prec2_feasibility.v  ==> "Closed under the global context" (Coq 8.16.1, <1 s). *)
From Coq Require Import List Arith Lia Bool.
Import ListNotations.

Inductive tok := TNum (n:nat) | TOp (o:nat) | TLp | TRp | TWs | TNeg.

Inductive res (A:Type) := Ok (a:A) | Fail | OutOfFuel.
Arguments Ok {A}. Arguments Fail {A}. Arguments OutOfFuel {A}.

Inductive expr := ENum (n:nat) | EBin (o:nat) (l r:expr) | ENeg (e:expr).

Definition PR := res (expr * list tok).

Section P.
Variable lvl : nat -> nat.

Fixpoint skip_ws (ts:list tok) : list tok :=
  match ts with TWs :: r => skip_ws r | _ => ts end.

(* open-recursive rule bodies: [pe minp ts] is the recursive expression parser *)
Definition prim (pe : nat -> list tok -> PR) (ts:list tok) : PR :=
  match ts with
  | TNum n :: r => Ok (ENum n, r)
  | TLp :: r =>
      match pe 0 (skip_ws r) with
      | Ok (e, r') => match skip_ws r' with TRp :: r'' => Ok (e, r'') | _ => Fail end
      | Fail => Fail
      | OutOfFuel => OutOfFuel
      end
  | _ => Fail
  end.

Definition unary (pe : nat -> list tok -> PR) (ts:list tok) : PR :=
  match ts with
  | TNeg :: r =>
      match prim pe (skip_ws r) with
      | Ok (e, r') => Ok (ENeg e, r')
      | Fail => prim pe (skip_ws ts)
      | OutOfFuel => OutOfFuel
      end
  | _ => prim pe (skip_ws ts)
  end.

Fixpoint loop (pe : nat -> list tok -> PR) (f:nat) (minp:nat) (acc:expr) (ts:list tok) : PR :=
  match f with
  | 0 => OutOfFuel
  | S f' =>
    match skip_ws ts with
    | TOp o :: r =>
        if minp <=? lvl o then
          match pe (S (lvl o)) (skip_ws r) with
          | Ok (e, r') => loop pe f' minp (EBin o acc e) r'
          | Fail => Ok (acc, ts)
          | OutOfFuel => OutOfFuel
          end
        else Ok (acc, ts)
    | _ => Ok (acc, ts)
    end
  end.

Fixpoint parse_e (f:nat) (minp:nat) (ts:list tok) : PR :=
  match f with
  | 0 => OutOfFuel
  | S f' =>
    match unary (parse_e f') ts with
    | Ok (a, r) => loop (parse_e f') f' minp a r
    | Fail => Fail
    | OutOfFuel => OutOfFuel
    end
  end.

Definition defined {A} (r:res A) := match r with OutOfFuel => False | _ => True end.
Definition le_p (p p' : nat -> list tok -> PR) :=
  forall m ts, defined (p m ts) -> p' m ts = p m ts.

Lemma prim_mono p p' ts : le_p p p' -> defined (prim p ts) -> prim p' ts = prim p ts.
Proof.
  intros L D. unfold prim in *. destruct ts as [|[] ?]; auto.
  destruct (p 0 (skip_ws ts)) eqn:E; simpl in D; try contradiction;
  rewrite (L 0 (skip_ws ts)) by (rewrite E; exact I); rewrite E; reflexivity.
Qed.

Lemma unary_mono p p' ts : le_p p p' -> defined (unary p ts) -> unary p' ts = unary p ts.
Proof.
  intros L D. unfold unary in *.
  destruct ts as [|t ts']; [apply prim_mono; auto|].
  destruct t; try (apply prim_mono; auto; fail).
  destruct (prim p (skip_ws ts')) as [[e r]| |] eqn:E; simpl in D; try contradiction.
  - rewrite (prim_mono p p' _ L) by (rewrite E; exact I). rewrite E. reflexivity.
  - rewrite (prim_mono p p' (skip_ws ts') L) by (rewrite E; exact I). rewrite E. apply prim_mono; auto.
Qed.

Lemma loop_mono p p' f k minp acc ts :
  le_p p p' -> defined (loop p f minp acc ts) -> loop p' (f+k) minp acc ts = loop p f minp acc ts.
Proof.
  intros L. revert minp acc ts. induction f; intros minp acc ts D; simpl in *; try contradiction.
  destruct (skip_ws ts) as [|[] ?]; auto.
  destruct (minp <=? lvl o); auto.
  destruct (p (S (lvl o)) (skip_ws l)) as [[e r']| |] eqn:E; simpl in D; try contradiction;
  rewrite (L _ _) by (rewrite E; exact I); rewrite E; auto.
Qed.

Lemma parse_le f k : le_p (parse_e f) (parse_e (f+k)).
Proof.
  induction f; intros m ts D; simpl in *; try contradiction.
  destruct (unary (parse_e f) ts) as [[a r]| |] eqn:E; simpl in D; try contradiction.
  - rewrite (unary_mono (parse_e f)) by (auto; rewrite E; exact I). rewrite E.
    apply loop_mono; auto.
  - rewrite (unary_mono (parse_e f)) by (auto; rewrite E; exact I). rewrite E. reflexivity.
Qed.

Lemma parse_mono f f' minp ts x : f <= f' -> parse_e f minp ts = Ok x -> parse_e f' minp ts = Ok x.
Proof. intros L H. replace f' with (f + (f'-f)) by lia. rewrite parse_le by (rewrite H; exact I). exact H. Qed.

(* spelled trees *)
Inductive sp :=
| SNum (n:nat)
| SParen (w1:nat) (s:sp) (w2:nat)
| SNeg (w:nat) (s:sp)
| SBin (o:nat) (l:sp) (w1 w2:nat) (r:sp).

Definition ws (n:nat) := repeat TWs n.

Fixpoint flat (s:sp) : list tok :=
  match s with
  | SNum n => [TNum n]
  | SParen w1 s w2 => TLp :: ws w1 ++ flat s ++ ws w2 ++ [TRp]
  | SNeg w s => TNeg :: ws w ++ flat s
  | SBin o l w1 w2 r => flat l ++ ws w1 ++ TOp o :: ws w2 ++ flat r
  end.

Fixpoint erase (s:sp) : expr :=
  match s with
  | SNum n => ENum n
  | SParen _ s _ => erase s
  | SNeg _ s => ENeg (erase s)
  | SBin o l _ _ r => EBin o (erase l) (erase r)
  end.

Definition is_prim (s:sp) := match s with SNum _ | SParen _ _ _ => true | _ => false end.

Fixpoint wf (p:nat) (s:sp) : Prop :=
  match s with
  | SNum _ => True
  | SParen _ s _ => wf 0 s
  | SNeg _ s => is_prim s = true /\ wf 0 s
  | SBin o l _ _ r => p <= lvl o /\ wf (lvl o) l /\ wf (S (lvl o)) r
  end.

Definition follow_lt (k:nat) (rest:list tok) : Prop :=
  match skip_ws rest with TOp o :: _ => lvl o < k | _ => True end.

Definition top_lvl (s:sp) : option nat :=
  match s with SBin o _ _ _ _ => Some (lvl o) | _ => None end.

Definition follow_top (s:sp) (rest:list tok) : Prop :=
  match top_lvl s with Some k => follow_lt (S k) rest | None => True end.

Lemma skip_ws_app n r : skip_ws (ws n ++ r) = skip_ws r.
Proof. induction n; simpl; auto. Qed.

Lemma wf_mono p q s : q <= p -> wf p s -> wf q s.
Proof. destruct s; simpl; intuition lia. Qed.

Lemma flat_nows s r : skip_ws (flat s ++ r) = flat s ++ r.
Proof.
  revert r. induction s; intros; simpl; auto.
  rewrite <- app_assoc. apply IHs1.
Qed.

Lemma loop_stop p f minp acc rest :
  follow_lt minp rest -> loop p (S f) minp acc rest = Ok (acc, rest).
Proof.
  unfold follow_lt. simpl. destruct (skip_ws rest) as [|[] ?]; auto.
  intros H. destruct (Nat.leb_spec minp (lvl o)); auto; lia.
Qed.

(* the parser, run on a primary spelled tree *)
Definition enough (s:sp) (P : nat -> Prop) := exists f0, forall f, f0 <= f -> P f.

Lemma main :
  forall s,
  (forall q rest g x, wf q s -> follow_top s rest ->
     (forall f, g <= f -> loop (parse_e f) f q (erase s) rest = Ok x) ->
     exists f0, forall f, f0 <= f -> parse_e f q (flat s ++ rest) = Ok x)
  /\
  (is_prim s = true -> wf 0 s -> forall rest, exists f0, forall f, f0 <= f ->
     prim (parse_e f) (flat s ++ rest) = Ok (erase s, rest)).
Proof.
  induction s as [n|w1 s [IH _] w2|w s [IH IHp]|o l [IHl _] w1 w2 r [IHr _]].
  - split.
    + intros q rest g x _ _ H. exists (S g). intros f Hf. destruct f; [lia|]. simpl. apply H. lia.
    + intros _ _ rest. exists 0. intros. reflexivity.
  - assert (Hprim: wf 0 s -> forall rest, exists f0, forall f, f0 <= f ->
       prim (parse_e f) (flat (SParen w1 s w2) ++ rest) = Ok (erase s, rest)).
    { intros Hwf rest.
      destruct (IH 0 (ws w2 ++ TRp :: rest) 1 (erase s, ws w2 ++ TRp :: rest) Hwf) as [f1 H1].
      { unfold follow_top. destruct (top_lvl s); auto. unfold follow_lt. rewrite skip_ws_app. simpl. exact I. }
      { intros f Hf. destruct f; [lia|]. apply loop_stop. unfold follow_lt. rewrite skip_ws_app. simpl. exact I. }
      exists f1. intros f Hf. cbn [flat app prim].
      rewrite <- !app_assoc. rewrite skip_ws_app. cbn [app].
      rewrite flat_nows. rewrite (H1 f Hf). rewrite skip_ws_app. reflexivity. }
    split.
    + intros q rest g x Hwf Hfol Hloop. simpl in Hwf.
      destruct (Hprim Hwf rest) as [f1 H1].
      exists (S (f1 + g)). intros f Hf. destruct f; [lia|].
      cbn [parse_e]. unfold unary.
      cbn [flat app]. cbn [skip_ws].
      change (TLp :: (ws w1 ++ flat s ++ ws w2 ++ [TRp]) ++ rest) with (flat (SParen w1 s w2) ++ rest).
      rewrite H1 by lia. apply Hloop. lia.
    + intros _ Hwf rest. apply Hprim. exact Hwf.
  - split; [|discriminate].
    intros q rest g x Hwf Hfol Hloop. simpl in Hwf. destruct Hwf as [Hp Hwf].
    destruct (IHp Hp Hwf rest) as [f1 H1].
    exists (S (f1 + g)). intros f Hf. destruct f; [lia|].
    cbn [parse_e]. unfold unary. cbn [flat app].
    rewrite <- app_assoc. rewrite skip_ws_app. rewrite flat_nows. rewrite H1 by lia.
    apply Hloop. lia.
  - split; [|discriminate].
    intros q rest g x Hwf Hfol Hloop. simpl in Hwf. destruct Hwf as (Hq & Hwl & Hwr).
    unfold follow_top in Hfol. simpl in Hfol.
    (* rhs r parses at level S (lvl o) and stops at rest *)
    destruct (IHr (S (lvl o)) rest 1 (erase r, rest) Hwr) as [fr Hr].
    { unfold follow_top. destruct r; simpl; auto. simpl in Hwr.
      unfold follow_lt in *. destruct (skip_ws rest) as [|[] ?]; auto. lia. }
    { intros f Hf. destruct f; [lia|]. apply loop_stop. exact Hfol. }
    (* l parses at q, continuing the loop *)
    destruct (IHl q (ws w1 ++ TOp o :: ws w2 ++ flat r ++ rest) (S (fr + g)) x) as [fl Hl].
    { apply wf_mono with (p:=lvl o); auto. }
    { unfold follow_top. destruct l; simpl; auto. simpl in Hwl.
      unfold follow_lt. rewrite skip_ws_app. simpl. lia. }
    { intros f Hf. destruct f; [lia|]. cbn [loop]. rewrite skip_ws_app. cbn [skip_ws].
      destruct (Nat.leb_spec q (lvl o)); [|lia].
      rewrite skip_ws_app. rewrite flat_nows.
      rewrite (parse_mono fr (S f) _ _ (erase r, rest)); [| lia | apply Hr; lia].
      replace f with (f + 0) at 2 by lia.
      rewrite (loop_mono (parse_e f) (parse_e (S f))).
      - apply Hloop. lia.
      - replace (S f) with (f + 1) by lia. apply parse_le.
      - rewrite Hloop by lia. exact I. }
    exists fl. intros f Hf. cbn [flat]. rewrite <- !app_assoc. cbn [app]. rewrite <- app_assoc.
    apply Hl. exact Hf.
Qed.

Theorem parse_spelled :
  forall s q rest, wf q s -> follow_lt q rest ->
    exists f0, forall f, f0 <= f -> parse_e f q (flat s ++ rest) = Ok (erase s, rest).
Proof.
  intros s q rest Hwf Hfol.
  destruct (main s) as [M _].
  apply (M q rest 1); auto.
  - unfold follow_top. destruct s; simpl; auto. simpl in Hwf.
    unfold follow_lt in *. destruct (skip_ws rest) as [|[] ?]; auto. lia.
  - intros f Hf. destruct f; [lia|]. apply loop_stop. exact Hfol.
Qed.
End P.
Print Assumptions parse_spelled.
