//! Correspondence / search harness: runs the real ironplc entry points on cases
//! read as JSON lines and writes one JSON line per case. Every call runs under
//! catch_unwind so that a panic is an observable outcome, not a crash of the harness.
//!
//!   verif-harness <cases.jsonl> <out.jsonl> [start_index]
//!
//! Each case: {"id": .., "op": .., ...}. See `run_case` for the operations.

use std::io::{BufRead, BufReader, BufWriter, Write};
use std::panic::{catch_unwind, AssertUnwindSafe};

use ironplc_analyzer::stages::analyze;
use ironplc_dsl::common::*;
use ironplc_dsl::core::{FileId, Id, Located, SourceSpan};
use ironplc_dsl::diagnostic::Diagnostic;
use ironplc_dsl::visitor::Visitor;
use ironplc_parser::options::ParseOptions;
use ironplc_parser::{parse_program, tokenize_program};
use ironplc_plc2plc::write_to_string;
use ironplcc::project::{FileBackedProject, Project};
use serde_json::{json, Value};

fn hex_decode(s: &str) -> Vec<u8> {
    let b = s.as_bytes();
    let mut out = Vec::with_capacity(b.len() / 2);
    let v = |c: u8| -> u8 {
        match c {
            b'0'..=b'9' => c - b'0',
            b'a'..=b'f' => c - b'a' + 10,
            b'A'..=b'F' => c - b'A' + 10,
            _ => 0,
        }
    };
    let mut i = 0;
    while i + 1 < b.len() {
        out.push(v(b[i]) * 16 + v(b[i + 1]));
        i += 2;
    }
    out
}

fn hex_encode(b: &[u8]) -> String {
    let mut s = String::with_capacity(b.len() * 2);
    for x in b {
        s.push_str(&format!("{:02x}", x));
    }
    s
}

fn text_of(case: &Value, key: &str) -> String {
    let h = case.get(key).and_then(|v| v.as_str()).unwrap_or("");
    String::from_utf8(hex_decode(h)).expect("case text must be UTF-8")
}

fn diag_json(d: &Diagnostic) -> Value {
    let sec: Vec<Value> = d
        .secondary
        .iter()
        .map(|l| json!([l.file_id.to_string(), l.location.start, l.location.end]))
        .collect();
    json!({
        "code": d.code,
        "file": d.primary.file_id.to_string(),
        "start": d.primary.location.start,
        "end": d.primary.location.end,
        "msg": d.primary.message,
        "desc": d.description(),
        "secondary": sec,
    })
}

/// Collects every Id (spelling, span, file) and every span's file id reached by the
/// default traversal, plus AddressAssignment details that Debug hides.
struct Collector {
    ids: Vec<Value>,
    addrs: Vec<Value>,
    spans: Vec<Value>,
    consts: Vec<Value>,
}

fn const_json(node: &ConstantKind) -> Value {
    match node {
        ConstantKind::IntegerLiteral(i) => json!({"kind": "int", "value": i.value.value.value.to_string(),
            "neg": i.value.is_neg, "type": i.data_type.as_ref().map(|t| format!("{:?}", t))}),
        ConstantKind::RealLiteral(r) => json!({"kind": "real", "bits": r.value.to_bits().to_string(),
            "type": r.data_type.as_ref().map(|t| format!("{:?}", t))}),
        ConstantKind::Boolean(b) => json!({"kind": "bool", "value": format!("{:?}", b.value)}),
        ConstantKind::CharacterString(c) => json!({"kind": "string",
            "chars": c.value.iter().map(|ch| *ch as u32).collect::<Vec<u32>>()}),
        ConstantKind::Duration(d) => json!({"kind": "duration", "seconds": d.interval.whole_seconds().to_string(),
            "nanos": d.interval.subsec_nanoseconds()}),
        ConstantKind::TimeOfDay(t) => { let (h, m, s, us) = t.hmsm(); json!({"kind": "tod", "hmsu": [h, m, s, us]}) }
        ConstantKind::Date(d) => { let (y, m, dd) = d.ymd(); json!({"kind": "date", "ymd": [y, m, dd]}) }
        ConstantKind::DateAndTime(d) => { let (y, m, dd) = d.ymd(); let (h, mi, s, us) = d.hmsm();
            json!({"kind": "dt", "ymd": [y, m, dd], "hmsu": [h, mi, s, us]}) }
        ConstantKind::BitStringLiteral(b) => json!({"kind": "bits", "value": b.value.value.to_string(),
            "type": b.data_type.as_ref().map(|t| format!("{:?}", t))}),
    }
}

impl Visitor<()> for Collector {
    type Value = ();

    fn visit_id(&mut self, node: &Id) -> Result<(), ()> {
        self.ids.push(json!([
            node.original,
            node.span.start,
            node.span.end,
            node.span.file_id.to_string(),
            node.lower_case
        ]));
        Ok(())
    }

    fn visit_source_span(&mut self, node: &SourceSpan) -> Result<(), ()> {
        self.spans
            .push(json!([node.start, node.end, node.file_id.to_string()]));
        Ok(())
    }

    fn visit_constant_kind(&mut self, node: &ConstantKind) -> Result<(), ()> {
        self.consts.push(const_json(node));
        node.recurse_visit(self)
    }

    fn visit_address_assignment(&mut self, node: &AddressAssignment) -> Result<(), ()> {
        self.addrs.push(json!({
            "location": format!("{:?}", node.location),
            "size": format!("{:?}", node.size),
            "address": node.address.clone(),
            "display": node.to_string(),
        }));
        Ok(())
    }
}

fn collect(lib: &Library) -> Value {
    let mut c = Collector {
        ids: vec![],
        addrs: vec![],
        spans: vec![],
        consts: vec![],
    };
    let _ = c.walk(lib);
    json!({"ids": c.ids, "addrs": c.addrs, "spans": c.spans, "consts": c.consts})
}

fn op_tok(case: &Value) -> Value {
    let text = text_of(case, "text");
    let file = case.get("file").and_then(|v| v.as_str()).unwrap_or("f.st");
    let fid = FileId::from_string(file);
    let (toks, diags) = tokenize_program(&text, &fid, &ParseOptions::default());
    let toks: Vec<Value> = toks
        .iter()
        .map(|t| {
            json!([
                format!("{:?}", t.token_type),
                t.span.start,
                t.span.end,
                t.line,
                t.col,
                hex_encode(t.text.as_bytes()),
                t.span.file_id.to_string()
            ])
        })
        .collect();
    let diags: Vec<Value> = diags.iter().map(diag_json).collect();
    json!({"tokens": toks, "diags": diags})
}

fn op_parse(case: &Value) -> Value {
    let text = text_of(case, "text");
    let file = case.get("file").and_then(|v| v.as_str()).unwrap_or("f.st");
    let fid = FileId::from_string(file);
    match parse_program(&text, &fid, &ParseOptions::default()) {
        Ok(lib) => {
            let mut v = json!({"ok": format!("{:?}", lib)});
            if case.get("collect").and_then(|v| v.as_bool()).unwrap_or(false) {
                v["collect"] = collect(&lib);
            }
            v
        }
        Err(d) => json!({"err": diag_json(&d)}),
    }
}

fn parse_files(case: &Value) -> (Vec<(String, Library)>, Vec<Value>) {
    let mut libs = vec![];
    let mut errs = vec![];
    if let Some(files) = case.get("files").and_then(|v| v.as_array()) {
        for f in files {
            let name = f[0].as_str().unwrap_or("f.st").to_string();
            let text = String::from_utf8(hex_decode(f[1].as_str().unwrap_or(""))).unwrap();
            let fid = FileId::from_string(&name);
            match parse_program(&text, &fid, &ParseOptions::default()) {
                Ok(lib) => libs.push((name, lib)),
                Err(d) => errs.push(diag_json(&d)),
            }
        }
    }
    (libs, errs)
}

/// parse every file; analyze the libraries that parsed (in the given order)
fn op_analyze(case: &Value) -> Value {
    let (libs, errs) = parse_files(case);
    let refs: Vec<&Library> = libs.iter().map(|x| &x.1).collect();
    let res = analyze(&refs);
    let diags: Vec<Value> = match res {
        Ok(_) => vec![],
        Err(ds) => ds.iter().map(diag_json).collect(),
    };
    json!({"parse_errs": errs, "ok": diags.is_empty(), "diags": diags})
}

/// The stream of scope events of rule_use_declared_symbolic_var, produced with the library's own traversal:
/// "|" starts a top-level element, E / X bracket a function, function block, program or configuration,
/// A:name is a declared variable (or the unit's own name), U:pos:name a named variable.
struct Events {
    out: Vec<String>,
}

impl Visitor<()> for Events {
    type Value = ();

    fn visit_library_element_kind(&mut self, node: &LibraryElementKind) -> Result<(), ()> {
        self.out.push("|".to_string());
        node.recurse_visit(self)
    }
    fn visit_function_declaration(&mut self, node: &FunctionDeclaration) -> Result<(), ()> {
        self.out.push("E".to_string());
        self.out.push(format!("A:{}", node.name.original));
        let r = node.recurse_visit(self);
        self.out.push("X".to_string());
        r
    }
    fn visit_function_block_declaration(&mut self, node: &FunctionBlockDeclaration) -> Result<(), ()> {
        self.out.push("E".to_string());
        self.out.push(format!("A:{}", node.name.original));
        let r = node.recurse_visit(self);
        self.out.push("X".to_string());
        r
    }
    fn visit_program_declaration(&mut self, node: &ProgramDeclaration) -> Result<(), ()> {
        self.out.push("E".to_string());
        self.out.push(format!("A:{}", node.name.original));
        let r = node.recurse_visit(self);
        self.out.push("X".to_string());
        r
    }
    fn visit_configuration_declaration(
        &mut self,
        node: &ironplc_dsl::configuration::ConfigurationDeclaration,
    ) -> Result<(), ()> {
        self.out.push("E".to_string());
        let r = node.recurse_visit(self);
        self.out.push("X".to_string());
        r
    }
    fn visit_var_decl(&mut self, node: &VarDecl) -> Result<(), ()> {
        if let Some(id) = node.identifier.symbolic_id() {
            self.out.push(format!("A:{}", id.original));
        }
        node.recurse_visit(self)
    }
    // an edge-detecting input (VAR_INPUT clk : BOOL R_EDGE) is a declared variable of its unit
    fn visit_edge_var_decl(&mut self, node: &ironplc_dsl::common::EdgeVarDecl) -> Result<(), ()> {
        self.out.push(format!("A:{}", node.identifier.original));
        node.recurse_visit(self)
    }
    fn visit_named_variable(&mut self, node: &ironplc_dsl::textual::NamedVariable) -> Result<(), ()> {
        self.out.push(format!("U:{}:{}", node.name.span.start, node.name.original));
        Ok(())
    }
}

/// parse every file, emit the scope events of the libraries (in the given order), and analyze them
fn op_events(case: &Value) -> Value {
    let (libs, errs) = parse_files(case);
    let mut per_file = vec![];
    for (name, lib) in libs.iter() {
        let mut v = Events { out: vec![] };
        let _ = v.walk(lib);
        per_file.push(json!([name, v.out.join(" ")]));
    }
    let refs: Vec<&Library> = libs.iter().map(|x| &x.1).collect();
    // what the rules see: the library after the declaration sort and the late-bound resolution
    let mut resolved_events = Value::Null;
    let mut rule_diags = Value::Null;
    let mut xform_diags: Vec<Value> = vec![];
    match ironplc_analyzer::verif_hooks::resolve_types(&refs) {
        Ok(lib) => {
            let mut v = Events { out: vec![] };
            let _ = v.walk(&lib);
            resolved_events = json!(v.out.join(" "));
            let rule = case.get("rule").and_then(|v| v.as_str()).unwrap_or("rule_use_declared_symbolic_var");
            if let Some(r) = ironplc_analyzer::verif_hooks::rule(rule, &lib) {
                rule_diags = match r {
                    Ok(_) => json!([]),
                    Err(ds) => Value::Array(ds.iter().map(diag_json).collect()),
                };
            }
        }
        Err(ds) => xform_diags = ds.iter().map(diag_json).collect(),
    }
    let res = analyze(&refs);
    let diags: Vec<Value> = match res {
        Ok(_) => vec![],
        Err(ds) => ds.iter().map(diag_json).collect(),
    };
    json!({"parse_errs": errs, "events": per_file, "resolved_events": resolved_events, "rule_diags": rule_diags,
           "xform_diags": xform_diags, "ok": diags.is_empty(), "diags": diags})
}

/// FileBackedProject: change_text_document in the given order, then semantic()
fn op_project(case: &Value) -> Value {
    let mut project = FileBackedProject::new();
    if let Some(files) = case.get("files").and_then(|v| v.as_array()) {
        for f in files {
            let name = f[0].as_str().unwrap_or("f.st").to_string();
            let text = String::from_utf8(hex_decode(f[1].as_str().unwrap_or(""))).unwrap();
            project.change_text_document(&FileId::from_string(&name), text);
        }
    }
    let n = project.sources().len();
    let res = project.semantic();
    let diags: Vec<Value> = match res {
        Ok(_) => vec![],
        Err(ds) => ds.iter().map(diag_json).collect(),
    };
    json!({"ok": diags.is_empty(), "diags": diags, "nsources": n})
}

/// The facts the remaining semantic rules look at, in the order of the library's own traversal (one string per fact,
/// fields separated by ','; names as hex of their spelling; positions are span starts):
///   EA,name,target,tpos   enumeration declared as an alias        EV,name,v1:v2:..   enumeration with values
///   EN,kind,name / EX     a function (F), function block (B) or program (P) is entered / left
///   VA,name|-,class,qualifier,initializer kind,type|-,has initial value,pos     a variable declaration
///   ED,name               an edge-detecting input                 CA,instance,pos,args   a function block invocation
///   EI,type,tpos,value|-,vpos    an enumerated initial value      FI,type,tpos   a function block instance type
///   RS,task:task..,prog:prog..   a resource: its task names and, per program, '-' or task@pos
struct Facts {
    out: Vec<String>,
}

fn hx(s: &str) -> String {
    hex_encode(s.as_bytes())
}

impl Visitor<()> for Facts {
    type Value = ();

    fn visit_enumeration_declaration(&mut self, node: &EnumerationDeclaration) -> Result<(), ()> {
        match &node.spec_init.spec {
            EnumeratedSpecificationKind::TypeName(n) => {
                self.out.push(format!("EA,{},{},{}", hx(&node.type_name.name.original), hx(&n.name.original), n.name.span.start))
            }
            EnumeratedSpecificationKind::Values(vs) => {
                let l: Vec<String> = vs.values.iter().map(|v| hx(&v.value.original)).collect();
                self.out.push(format!("EV,{},{}", hx(&node.type_name.name.original), l.join(":")))
            }
        }
        node.recurse_visit(self)
    }
    fn visit_function_declaration(&mut self, node: &FunctionDeclaration) -> Result<(), ()> {
        self.out.push(format!("EN,F,{}", hx(&node.name.original)));
        let r = node.recurse_visit(self);
        self.out.push("EX".to_string());
        r
    }
    fn visit_function_block_declaration(&mut self, node: &FunctionBlockDeclaration) -> Result<(), ()> {
        self.out.push(format!("EN,B,{}", hx(&node.name.original)));
        let r = node.recurse_visit(self);
        self.out.push("EX".to_string());
        r
    }
    fn visit_program_declaration(&mut self, node: &ProgramDeclaration) -> Result<(), ()> {
        self.out.push(format!("EN,P,{}", hx(&node.name.original)));
        let r = node.recurse_visit(self);
        self.out.push("EX".to_string());
        r
    }
    fn visit_var_decl(&mut self, node: &VarDecl) -> Result<(), ()> {
        use ironplc_dsl::core::Located;
        let name = match node.identifier.symbolic_id() {
            Some(id) => hx(&id.original),
            None => "-".to_string(),
        };
        let class = match node.var_type {
            VariableType::Var => "var",
            VariableType::VarTemp => "temp",
            VariableType::Input => "input",
            VariableType::Output => "output",
            VariableType::InOut => "inout",
            VariableType::External => "external",
            VariableType::Global => "global",
            VariableType::Access => "access",
        };
        let qual = match node.qualifier {
            DeclarationQualifier::Unspecified => "unspec",
            DeclarationQualifier::Constant => "const",
            DeclarationQualifier::Retain => "retain",
            DeclarationQualifier::NonRetain => "nonretain",
        };
        let (kind, ty, has) = match &node.initializer {
            InitialValueAssignmentKind::None(_) => ("none", "-".to_string(), false),
            InitialValueAssignmentKind::Simple(si) => ("simple", hx(&si.type_name.name.original), si.initial_value.is_some()),
            InitialValueAssignmentKind::String(st) => ("string", "-".to_string(), st.initial_value.is_some()),
            InitialValueAssignmentKind::EnumeratedValues(ev) => ("enumvalues", "-".to_string(), ev.initial_value.is_some()),
            InitialValueAssignmentKind::EnumeratedType(et) => ("enumtype", hx(&et.type_name.name.original), et.initial_value.is_some()),
            InitialValueAssignmentKind::FunctionBlock(fb) => ("fb", hx(&fb.type_name.name.original), false),
            InitialValueAssignmentKind::Subrange(_) => ("subrange", "-".to_string(), false),
            InitialValueAssignmentKind::Structure(_) => ("struct", "-".to_string(), false),
            InitialValueAssignmentKind::Array(_) => ("array", "-".to_string(), false),
            InitialValueAssignmentKind::LateResolvedType(t) => ("late", hx(&t.name.original), false),
        };
        self.out.push(format!("VA,{},{},{},{},{},{},{}", name, class, qual, kind, ty, if has { 1 } else { 0 }, node.span().start));
        node.recurse_visit(self)
    }
    fn visit_edge_var_decl(&mut self, node: &EdgeVarDecl) -> Result<(), ()> {
        self.out.push(format!("ED,{}", hx(&node.identifier.original)));
        node.recurse_visit(self)
    }
    fn visit_fb_call(&mut self, node: &ironplc_dsl::textual::FbCall) -> Result<(), ()> {
        use ironplc_dsl::core::Located;
        use ironplc_dsl::textual::ParamAssignmentKind;
        let args: Vec<String> = node
            .params
            .iter()
            .map(|p| match p {
                ParamAssignmentKind::NamedInput(n) => format!("N{}", hx(&n.name.original)),
                ParamAssignmentKind::PositionalInput(_) => "P".to_string(),
                ParamAssignmentKind::Output(o) => format!("O{}", hx(&o.src.original)),
            })
            .collect();
        self.out.push(format!("CA,{},{},{}", hx(&node.var_name.original), node.span().start, args.join(":")));
        Ok(())
    }
    fn visit_enumerated_initial_value_assignment(&mut self, node: &EnumeratedInitialValueAssignment) -> Result<(), ()> {
        use ironplc_dsl::core::Located;
        let (v, vpos) = match &node.initial_value {
            Some(v) => (hx(&v.value.original), v.span().start),
            None => ("-".to_string(), 0),
        };
        self.out.push(format!("EI,{},{},{},{}", hx(&node.type_name.name.original), node.type_name.name.span.start, v, vpos));
        node.recurse_visit(self)
    }
    fn visit_function_block_initial_value_assignment(&mut self, node: &FunctionBlockInitialValueAssignment) -> Result<(), ()> {
        self.out.push(format!("FI,{},{}", hx(&node.type_name.name.original), node.type_name.name.span.start));
        node.recurse_visit(self)
    }
    fn visit_resource_declaration(&mut self, node: &ironplc_dsl::configuration::ResourceDeclaration) -> Result<(), ()> {
        let tasks: Vec<String> = node.tasks.iter().map(|t| hx(&t.name.original)).collect();
        let progs: Vec<String> = node
            .programs
            .iter()
            .map(|p| match &p.task_name {
                Some(t) => format!("{}@{}", hx(&t.original), t.span.start),
                None => "-".to_string(),
            })
            .collect();
        self.out.push(format!("RS,{},{}", tasks.join(":"), progs.join(":")));
        node.recurse_visit(self)
    }
}

/// What xform_resolve_late_bound_type_initializer looks at, in the order of the library's own traversal:
///   TD,name,kind,pos   a data type declaration (enum subrange simple array struct structinit string latebound) or a function block (fb)
///   IK,kind,type|-,pos an initializer (kind as in the VA facts; for `late` the type name and where it is written)
struct TypeFacts {
    out: Vec<String>,
}

fn init_kind(node: &InitialValueAssignmentKind) -> (&'static str, String, usize) {
    match node {
        InitialValueAssignmentKind::None(_) => ("none", "-".to_string(), 0),
        InitialValueAssignmentKind::Simple(si) => ("simple", hx(&si.type_name.name.original), si.type_name.name.span.start),
        InitialValueAssignmentKind::String(_) => ("string", "-".to_string(), 0),
        InitialValueAssignmentKind::EnumeratedValues(_) => ("enumvalues", "-".to_string(), 0),
        InitialValueAssignmentKind::EnumeratedType(et) => ("enumtype", hx(&et.type_name.name.original), et.type_name.name.span.start),
        InitialValueAssignmentKind::FunctionBlock(fb) => ("fb", hx(&fb.type_name.name.original), fb.type_name.name.span.start),
        InitialValueAssignmentKind::Subrange(_) => ("subrange", "-".to_string(), 0),
        InitialValueAssignmentKind::Structure(st) => ("struct", hx(&st.type_name.name.original), st.type_name.name.span.start),
        InitialValueAssignmentKind::Array(_) => ("array", "-".to_string(), 0),
        InitialValueAssignmentKind::LateResolvedType(t) => ("late", hx(&t.name.original), t.name.span.start),
    }
}

impl Visitor<()> for TypeFacts {
    type Value = ();

    fn visit_data_type_declaration_kind(&mut self, node: &DataTypeDeclarationKind) -> Result<(), ()> {
        let (name, kind) = match node {
            DataTypeDeclarationKind::Enumeration(n) => (&n.type_name, "enum"),
            DataTypeDeclarationKind::Subrange(n) => (&n.type_name, "subrange"),
            DataTypeDeclarationKind::Simple(n) => (&n.type_name, "simple"),
            DataTypeDeclarationKind::Array(n) => (&n.type_name, "array"),
            DataTypeDeclarationKind::Structure(n) => (&n.type_name, "struct"),
            DataTypeDeclarationKind::StructureInitialization(n) => (&n.type_name, "structinit"),
            DataTypeDeclarationKind::String(n) => (&n.type_name, "string"),
            DataTypeDeclarationKind::LateBound(n) => (&n.data_type_name, "latebound"),
        };
        self.out.push(format!("TD,{},{},{}", hx(&name.name.original), kind, name.name.span.start));
        node.recurse_visit(self)
    }
    fn visit_function_block_declaration(&mut self, node: &FunctionBlockDeclaration) -> Result<(), ()> {
        self.out.push(format!("TD,{},fb,{}", hx(&node.name.original), node.name.span.start));
        node.recurse_visit(self)
    }
    fn visit_initial_value_assignment_kind(&mut self, node: &InitialValueAssignmentKind) -> Result<(), ()> {
        let (k, t, p) = init_kind(node);
        self.out.push(format!("IK,{},{},{}", k, t, p));
        node.recurse_visit(self)
    }
}

/// parse every file, join the libraries and apply the transformations before xform_resolve_late_bound_type_initializer;
/// emit the type facts, apply that transformation, and emit the type facts of its result (or its diagnostics)
fn op_latebound(case: &Value) -> Value {
    let (libs, errs) = parse_files(case);
    let mut library = Library::new();
    for (_, l) in libs.iter() {
        library = library.extend(l.clone());
    }
    for x in ["xform_toposort_declarations", "xform_resolve_late_bound_data_decl", "xform_resolve_late_bound_expr_kind"] {
        match ironplc_analyzer::verif_hooks::xform(x, library) {
            Some(Ok(l)) => library = l,
            Some(Err(ds)) => {
                let ds: Vec<Value> = ds.iter().map(diag_json).collect();
                return json!({"parse_errs": errs, "earlier_xform": x, "xform_diags": ds});
            }
            None => return json!({"harness_error": format!("unknown transformation {}", x)}),
        }
    }
    let mut before = TypeFacts { out: vec![] };
    let _ = before.walk(&library);
    match ironplc_analyzer::verif_hooks::xform("xform_resolve_late_bound_type_initializer", library) {
        Some(Ok(l)) => {
            let mut after = TypeFacts { out: vec![] };
            let _ = after.walk(&l);
            json!({"parse_errs": errs, "before": before.out, "after": after.out})
        }
        Some(Err(ds)) => {
            let ds: Vec<Value> = ds.iter().map(diag_json).collect();
            json!({"parse_errs": errs, "before": before.out, "diags": ds})
        }
        None => json!({"harness_error": "unknown transformation"}),
    }
}

/// The events xform_resolve_late_bound_expr_kind meets, collected with the library's own traversal (names are the case-folded
/// keys, hex): EN,name=kind;.. (a function, function block or program is entered: its variables and the kinds of their
/// initializers), EX, AS,D | AS,N,name | AS,A | AS,S (an assignment starts: direct / named / array / structured target),
/// AE, and one tag per expression node: LB,name (late bound), VN,name (a named variable), EV,name (an enumeration value
/// without type prefix), X (anything else).
struct ExprFacts {
    out: Vec<String>,
}

impl ExprFacts {
    fn enter(&mut self, vars: &[VarDecl]) {
        let mut items = vec![];
        for v in vars {
            let (k, _, _) = init_kind(&v.initializer);
            let name = match &v.identifier {
                VariableIdentifier::Symbol(id) => Some(id.lower_case().to_string()),
                VariableIdentifier::Direct(d) => d.name.as_ref().map(|n| n.lower_case().to_string()),
            };
            if let Some(n) = name {
                items.push(format!("{}={}", hx(&n), k));
            }
        }
        self.out.push(format!("EN,{}", items.join(";")));
    }
}

impl Visitor<()> for ExprFacts {
    type Value = ();

    fn visit_function_declaration(&mut self, node: &FunctionDeclaration) -> Result<(), ()> {
        self.enter(&node.variables);
        let r = node.recurse_visit(self);
        self.out.push("EX".to_string());
        r
    }
    fn visit_function_block_declaration(&mut self, node: &FunctionBlockDeclaration) -> Result<(), ()> {
        self.enter(&node.variables);
        let r = node.recurse_visit(self);
        self.out.push("EX".to_string());
        r
    }
    fn visit_program_declaration(&mut self, node: &ProgramDeclaration) -> Result<(), ()> {
        self.enter(&node.variables);
        let r = node.recurse_visit(self);
        self.out.push("EX".to_string());
        r
    }
    fn visit_assignment(&mut self, node: &ironplc_dsl::textual::Assignment) -> Result<(), ()> {
        use ironplc_dsl::textual::{SymbolicVariableKind, Variable};
        let t = match &node.target {
            Variable::Direct(_) => "AS,D".to_string(),
            Variable::Symbolic(SymbolicVariableKind::Named(n)) => format!("AS,N,{}", hx(&n.name.lower_case().to_string())),
            Variable::Symbolic(SymbolicVariableKind::Array(_)) => "AS,A".to_string(),
            Variable::Symbolic(SymbolicVariableKind::Structured(_)) => "AS,S".to_string(),
        };
        self.out.push(t);
        let r = node.recurse_visit(self);
        self.out.push("AE".to_string());
        r
    }
    fn visit_expr_kind(&mut self, node: &ironplc_dsl::textual::ExprKind) -> Result<(), ()> {
        use ironplc_dsl::textual::{ExprKind, SymbolicVariableKind, Variable};
        let tag = match node {
            ExprKind::LateBound(lb) => format!("LB,{}", hx(&lb.name.lower_case().to_string())),
            ExprKind::Variable(Variable::Symbolic(SymbolicVariableKind::Named(n))) => format!("VN,{}", hx(&n.name.lower_case().to_string())),
            ExprKind::EnumeratedValue(ev) if ev.type_name.is_none() => format!("EV,{}", hx(&ev.value.lower_case().to_string())),
            _ => "X".to_string(),
        };
        self.out.push(tag);
        node.recurse_visit(self)
    }
}

/// parse every file, join the libraries, apply the two earlier transformations, emit the events; apply
/// xform_resolve_late_bound_expr_kind and emit the events of its result (or its diagnostics)
fn op_exprkind(case: &Value) -> Value {
    let (libs, errs) = parse_files(case);
    let mut library = Library::new();
    for (_, l) in libs.iter() {
        library = library.extend(l.clone());
    }
    for x in ["xform_toposort_declarations", "xform_resolve_late_bound_data_decl"] {
        match ironplc_analyzer::verif_hooks::xform(x, library) {
            Some(Ok(l)) => library = l,
            Some(Err(ds)) => {
                let ds: Vec<Value> = ds.iter().map(diag_json).collect();
                return json!({"parse_errs": errs, "earlier_xform": x, "xform_diags": ds});
            }
            None => return json!({"harness_error": format!("unknown transformation {}", x)}),
        }
    }
    let mut before = ExprFacts { out: vec![] };
    let _ = before.walk(&library);
    match ironplc_analyzer::verif_hooks::xform("xform_resolve_late_bound_expr_kind", library) {
        Some(Ok(l)) => {
            let mut after = ExprFacts { out: vec![] };
            let _ = after.walk(&l);
            json!({"parse_errs": errs, "before": before.out, "after": after.out})
        }
        Some(Err(ds)) => {
            let ds: Vec<Value> = ds.iter().map(diag_json).collect();
            json!({"parse_errs": errs, "before": before.out, "diags": ds})
        }
        None => json!({"harness_error": "unknown transformation"}),
    }
}

/// The data type declarations xform_resolve_late_bound_data_decl looks at, in visiting order (names case-folded, hex):
/// DD,name,simple|enum|struct|none,pos  and  DA,alias,base
struct DataFacts {
    out: Vec<String>,
}

impl Visitor<()> for DataFacts {
    type Value = ();

    fn visit_data_type_declaration_kind(&mut self, node: &DataTypeDeclarationKind) -> Result<(), ()> {
        let f = match node {
            DataTypeDeclarationKind::Simple(n) => format!("DD,{},simple,{}", hx(&n.type_name.name.lower_case().to_string()), n.type_name.name.span.start),
            DataTypeDeclarationKind::Enumeration(n) => format!("DD,{},enum,{}", hx(&n.type_name.name.lower_case().to_string()), n.type_name.name.span.start),
            DataTypeDeclarationKind::Structure(n) => format!("DD,{},struct,{}", hx(&n.type_name.name.lower_case().to_string()), n.type_name.name.span.start),
            DataTypeDeclarationKind::Subrange(n) => format!("DD,{},none,{}", hx(&n.type_name.name.lower_case().to_string()), n.type_name.name.span.start),
            DataTypeDeclarationKind::Array(n) => format!("DD,{},none,{}", hx(&n.type_name.name.lower_case().to_string()), n.type_name.name.span.start),
            DataTypeDeclarationKind::StructureInitialization(n) => format!("DD,{},none,{}", hx(&n.type_name.name.lower_case().to_string()), n.type_name.name.span.start),
            DataTypeDeclarationKind::String(n) => format!("DD,{},none,{}", hx(&n.type_name.name.lower_case().to_string()), n.type_name.name.span.start),
            DataTypeDeclarationKind::LateBound(n) => format!("DA,{},{}", hx(&n.data_type_name.name.lower_case().to_string()), hx(&n.base_type_name.name.lower_case().to_string())),
        };
        self.out.push(f);
        Ok(())
    }
}

/// the kind of every data type declaration of a library, in order
fn decl_kinds(lib: &Library) -> Vec<String> {
    struct K {
        out: Vec<String>,
    }
    impl Visitor<()> for K {
        type Value = ();
        fn visit_data_type_declaration_kind(&mut self, node: &DataTypeDeclarationKind) -> Result<(), ()> {
            let (name, k) = match node {
                DataTypeDeclarationKind::Simple(n) => (&n.type_name, "simple"),
                DataTypeDeclarationKind::Enumeration(n) => (&n.type_name, "enum"),
                DataTypeDeclarationKind::Structure(n) => (&n.type_name, "struct"),
                DataTypeDeclarationKind::Subrange(n) => (&n.type_name, "subrange"),
                DataTypeDeclarationKind::Array(n) => (&n.type_name, "array"),
                DataTypeDeclarationKind::StructureInitialization(n) => (&n.type_name, "structinit"),
                DataTypeDeclarationKind::String(n) => (&n.type_name, "string"),
                DataTypeDeclarationKind::LateBound(n) => (&n.data_type_name, "latebound"),
            };
            self.out.push(format!("{},{}", hx(&name.name.lower_case().to_string()), k));
            Ok(())
        }
    }
    let mut k = K { out: vec![] };
    let _ = k.walk(lib);
    k.out
}

/// parse every file, join the libraries, apply xform_toposort_declarations when "sort" is set, emit the declarations,
/// apply xform_resolve_late_bound_data_decl and emit the kinds of the declarations of its result (or its diagnostics)
fn op_datadecl(case: &Value) -> Value {
    let (libs, errs) = parse_files(case);
    let mut library = Library::new();
    for (_, l) in libs.iter() {
        library = library.extend(l.clone());
    }
    if case.get("sort").and_then(|v| v.as_bool()).unwrap_or(true) {
        match ironplc_analyzer::verif_hooks::xform("xform_toposort_declarations", library) {
            Some(Ok(l)) => library = l,
            Some(Err(ds)) => {
                let ds: Vec<Value> = ds.iter().map(diag_json).collect();
                return json!({"parse_errs": errs, "earlier_xform": "xform_toposort_declarations", "xform_diags": ds});
            }
            None => return json!({"harness_error": "unknown transformation"}),
        }
    }
    let mut before = DataFacts { out: vec![] };
    let _ = before.walk(&library);
    match ironplc_analyzer::verif_hooks::xform("xform_resolve_late_bound_data_decl", library) {
        Some(Ok(l)) => json!({"parse_errs": errs, "before": before.out, "after": decl_kinds(&l)}),
        Some(Err(ds)) => {
            let ds: Vec<Value> = ds.iter().map(diag_json).collect();
            json!({"parse_errs": errs, "before": before.out, "diags": ds})
        }
        None => json!({"harness_error": "unknown transformation"}),
    }
}

/// The nodes the three rules on type declarations look at, with the spans their labels can be put on:
///   ST,s-e,name@s-e@s-e:..     a structure declaration: span of its name; per element: name, span of the identifier (twice)
///   EV,name@s-e@s-e:..         an enumeration declaration with values: per value its name, span of the identifier, span of the value
///   SR,neg,magnitude,s-e,neg,magnitude,s-e    a subrange: minimum and maximum
struct DeclFacts {
    out: Vec<String>,
}

fn sp(s: &SourceSpan) -> String {
    format!("{}-{}", s.start, s.end)
}

impl Visitor<()> for DeclFacts {
    type Value = ();

    fn visit_structure_declaration(&mut self, node: &StructureDeclaration) -> Result<(), ()> {
        let l: Vec<String> = node.elements.iter().map(|e| format!("{}@{}@{}", hx(&e.name.original), sp(&e.name.span()), sp(&e.name.span()))).collect();
        self.out.push(format!("ST,{},{}", sp(&node.type_name.span()), l.join(":")));
        node.recurse_visit(self)
    }
    fn visit_enumeration_declaration(&mut self, node: &EnumerationDeclaration) -> Result<(), ()> {
        if let EnumeratedSpecificationKind::Values(vs) = &node.spec_init.spec {
            let l: Vec<String> = vs.values.iter().map(|v| format!("{}@{}@{}", hx(&v.value.original), sp(&v.value.span()), sp(&v.span()))).collect();
            self.out.push(format!("EV,{}", l.join(":")));
        }
        node.recurse_visit(self)
    }
    fn visit_subrange(&mut self, node: &ironplc_dsl::common::Subrange) -> Result<(), ()> {
        self.out.push(format!("SR,{},{},{},{},{},{}", node.start.is_neg as u8, node.start.value.value, sp(&node.start.value.span()),
                              node.end.is_neg as u8, node.end.value.value, sp(&node.end.value.span())));
        node.recurse_visit(self)
    }
}

const DECL_RULES: [&str; 3] = ["rule_decl_struct_element_unique_names", "rule_enumeration_values_unique", "rule_decl_subrange_limits"];

/// parse every file, resolve, emit the declaration facts of the resolved library and run the three rules on it, each by itself
fn op_declfacts(case: &Value) -> Value {
    let (libs, errs) = parse_files(case);
    let refs: Vec<&Library> = libs.iter().map(|x| &x.1).collect();
    match ironplc_analyzer::verif_hooks::resolve_types(&refs) {
        Ok(lib) => {
            let mut v = DeclFacts { out: vec![] };
            let _ = v.walk(&lib);
            let mut rules = serde_json::Map::new();
            for r in DECL_RULES.iter() {
                if let Some(res) = ironplc_analyzer::verif_hooks::rule(r, &lib) {
                    let ds: Vec<Value> = match res {
                        Ok(_) => vec![],
                        Err(ds) => ds.iter().map(diag_json).collect(),
                    };
                    rules.insert(r.to_string(), Value::Array(ds));
                }
            }
            json!({"parse_errs": errs, "facts": v.out, "rules": rules})
        }
        Err(ds) => {
            let ds: Vec<Value> = ds.iter().map(diag_json).collect();
            json!({"parse_errs": errs, "xform_diags": ds})
        }
    }
}

const FACT_RULES: [&str; 8] = [
    "rule_var_decl_const_initialized",
    "rule_var_decl_const_not_fb",
    "rule_var_decl_global_const_requires_external_const",
    "rule_program_task_definition_exists",
    "rule_use_declared_enumerated_value",
    "rule_function_block_invocation",
    "rule_unsupported_stdlib_type",
    "rule_enumeration_values_unique",
];

/// parse every file, resolve, emit the facts of the resolved library and run each fact-shaped rule on it by itself
fn op_facts(case: &Value) -> Value {
    let (libs, errs) = parse_files(case);
    let refs: Vec<&Library> = libs.iter().map(|x| &x.1).collect();
    match ironplc_analyzer::verif_hooks::resolve_types(&refs) {
        Ok(lib) => {
            let mut v = Facts { out: vec![] };
            let _ = v.walk(&lib);
            let mut rules = serde_json::Map::new();
            for r in FACT_RULES.iter() {
                if let Some(res) = ironplc_analyzer::verif_hooks::rule(r, &lib) {
                    let ds: Vec<Value> = match res {
                        Ok(_) => vec![],
                        Err(ds) => ds.iter().map(diag_json).collect(),
                    };
                    rules.insert(r.to_string(), Value::Array(ds));
                }
            }
            json!({"parse_errs": errs, "facts": v.out, "rules": rules})
        }
        Err(ds) => {
            let ds: Vec<Value> = ds.iter().map(diag_json).collect();
            json!({"parse_errs": errs, "xform_diags": ds})
        }
    }
}

fn op_roundtrip(case: &Value) -> Value {
    let text = text_of(case, "text");
    let fid = FileId::from_string("f.st");
    let lib1 = match parse_program(&text, &fid, &ParseOptions::default()) {
        Ok(l) => l,
        Err(d) => return json!({"parse1": "err", "err": diag_json(&d)}),
    };
    let r1 = match write_to_string(&lib1) {
        Ok(s) => s,
        Err(ds) => {
            let ds: Vec<Value> = ds.iter().map(diag_json).collect();
            return json!({"parse1": "ok", "render1": "err", "diags": ds});
        }
    };
    let lib2 = match parse_program(&r1, &fid, &ParseOptions::default()) {
        Ok(l) => l,
        Err(d) => {
            return json!({"parse1": "ok", "render1": hex_encode(r1.as_bytes()), "parse2": "err", "err": diag_json(&d)})
        }
    };
    let equal = lib1 == lib2;
    let r2 = write_to_string(&lib2).ok();
    let fixed = r2.as_deref() == Some(r1.as_str());
    let mut v = json!({"parse1": "ok", "render1": hex_encode(r1.as_bytes()), "parse2": "ok",
           "equal": equal, "fixed_point": fixed});
    if !equal {
        v["tree1"] = json!(format!("{:?}", lib1));
        v["tree2"] = json!(format!("{:?}", lib2));
    }
    v
}

fn op_render(case: &Value) -> Value {
    let text = text_of(case, "text");
    let fid = FileId::from_string("f.st");
    let lib1 = match parse_program(&text, &fid, &ParseOptions::default()) {
        Ok(l) => l,
        Err(d) => return json!({"parse1": "err", "err": diag_json(&d)}),
    };
    match write_to_string(&lib1) {
        Ok(s) => json!({"parse1": "ok", "render": hex_encode(s.as_bytes())}),
        Err(ds) => {
            let ds: Vec<Value> = ds.iter().map(diag_json).collect();
            json!({"parse1": "ok", "render_err": ds})
        }
    }
}

fn codes_of(lib: &Library) -> Vec<String> {
    match analyze(&[lib]) {
        Ok(_) => vec![],
        Err(ds) => {
            let mut c: Vec<String> = ds.iter().map(|d| d.code.clone()).collect();
            c.sort();
            c.dedup();
            c
        }
    }
}

/// two spellings of one program: library equality by Rust's own ==, and analysis codes
fn op_respell(case: &Value) -> Value {
    let a = text_of(case, "a");
    let b = text_of(case, "b");
    let fid = FileId::from_string("f.st");
    let la = parse_program(&a, &fid, &ParseOptions::default());
    let lb = parse_program(&b, &fid, &ParseOptions::default());
    match (la, lb) {
        (Ok(la), Ok(lb)) => {
            let eq = la == lb;
            let analyze_too = case.get("analyze").and_then(|v| v.as_bool()).unwrap_or(true);
            let (ca, cb) = if analyze_too {
                (codes_of(&la), codes_of(&lb))
            } else {
                (vec![], vec![])
            };
            let mut v = json!({"a": "ok", "b": "ok", "equal": eq, "codes_a": ca, "codes_b": cb});
            if !eq {
                v["tree_a"] = json!(format!("{:?}", la));
                v["tree_b"] = json!(format!("{:?}", lb));
            }
            v
        }
        (Ok(_), Err(d)) => json!({"a": "ok", "b": "err", "err_b": diag_json(&d)}),
        (Err(d), Ok(_)) => json!({"a": "err", "b": "ok", "err_a": diag_json(&d)}),
        (Err(da), Err(db)) => {
            json!({"a": "err", "b": "err", "err_a": diag_json(&da), "err_b": diag_json(&db)})
        }
    }
}

/// everything: tokenize, parse, analyze, render (C04 totality)
fn op_pipeline(case: &Value) -> Value {
    let bytes = hex_decode(case.get("bytes").and_then(|v| v.as_str()).unwrap_or(""));
    let text = String::from_utf8_lossy(&bytes).to_string();
    let fid = FileId::from_string("f.st");
    let (toks, tdiags) = tokenize_program(&text, &fid, &ParseOptions::default());
    let mut stage = "tokenize";
    let mut codes: Vec<String> = tdiags.iter().map(|d| d.code.clone()).collect();
    let ntok = toks.len();
    if let Ok(lib) = parse_program(&text, &fid, &ParseOptions::default()) {
        stage = "parse";
        match analyze(&[&lib]) {
            Ok(_) => {}
            Err(ds) => codes.extend(ds.iter().map(|d| d.code.clone())),
        }
        stage = "analyze";
        if write_to_string(&lib).is_ok() {
            stage = "render";
        }
        let _ = stage;
        stage = "all";
    } else if let Err(d) = parse_program(&text, &fid, &ParseOptions::default()) {
        codes.push(d.code.clone());
    }
    json!({"stage": stage, "ntok": ntok, "codes": codes})
}

/// the bytes of a file as the project reads them: written to a scratch file, pushed into a
/// FileBackedProject (source.rs decoder cascade), then tokenized; optional check verdict
fn op_decode(case: &Value) -> Value {
    let bytes = hex_decode(case.get("bytes").and_then(|v| v.as_str()).unwrap_or(""));
    let dir = case.get("dir").and_then(|v| v.as_str()).unwrap_or("/tmp");
    let path = std::path::Path::new(dir).join(format!(
        "dec_{}_{}.st",
        std::process::id(),
        case.get("id").map(|v| v.to_string()).unwrap_or_default().replace('"', "")
    ));
    std::fs::write(&path, &bytes).expect("write scratch file");
    let fid = FileId::from_path(&path);
    let mut project = FileBackedProject::new();
    let res = project.push(fid.clone());
    let out = match res {
        Ok(_) => {
            let text = project.get(&fid).unwrap().as_string().to_string();
            let mut v = json!({"text": hex_encode(text.as_bytes())});
            if case.get("check").and_then(|v| v.as_bool()).unwrap_or(false) {
                let (toks, tdiags) = tokenize_program(&text, &fid, &ParseOptions::default());
                let toks: Vec<Value> = toks
                    .iter()
                    .map(|t| json!([format!("{:?}", t.token_type), t.line, t.col]))
                    .collect();
                let tdiags: Vec<Value> = tdiags.iter().map(diag_json).collect();
                let diags: Vec<Value> = match project.semantic() {
                    Ok(_) => vec![],
                    Err(ds) => ds.iter().map(diag_json).collect(),
                };
                v["tokens"] = json!(toks);
                v["tok_diags"] = json!(tdiags);
                v["diags"] = json!(diags);
            }
            v
        }
        Err(d) => json!({"err": d.code}),
    };
    let _ = std::fs::remove_file(&path);
    out
}

fn run_case(case: &Value) -> Value {
    let op = case.get("op").and_then(|v| v.as_str()).unwrap_or("");
    match op {
        "tok" => op_tok(case),
        "parse" => op_parse(case),
        "analyze" => op_analyze(case),
        "exprkind" => op_exprkind(case),
        "datadecl" => op_datadecl(case),
        "project" => op_project(case),
        "events" => op_events(case),
        "facts" => op_facts(case),
        "declfacts" => op_declfacts(case),
        "latebound" => op_latebound(case),
        "roundtrip" => op_roundtrip(case),
        "render" => op_render(case),
        "respell" => op_respell(case),
        "pipeline" => op_pipeline(case),
        "decode" => op_decode(case),
        _ => json!({"harness_error": format!("unknown op {}", op)}),
    }
}

fn main() {
    let args: Vec<String> = std::env::args().collect();
    if args.len() < 3 {
        eprintln!("usage: verif-harness <cases.jsonl> <out.jsonl> [start_index]");
        std::process::exit(2);
    }
    let start: usize = args.get(3).and_then(|s| s.parse().ok()).unwrap_or(0);
    let input = BufReader::new(std::fs::File::open(&args[1]).expect("open cases"));
    let out = std::fs::OpenOptions::new()
        .create(true)
        .append(true)
        .open(&args[2])
        .expect("open out");
    let mut out = BufWriter::new(out);
    // silence the default panic message: the payload is reported in the result line
    std::panic::set_hook(Box::new(|_| {}));
    for (i, line) in input.lines().enumerate() {
        if i < start {
            continue;
        }
        let line = line.expect("read line");
        if line.trim().is_empty() {
            continue;
        }
        let case: Value = serde_json::from_str(&line).expect("case json");
        let id = case.get("id").cloned().unwrap_or(json!(i));
        // announce the case before running it so that an abort can be attributed
        writeln!(out, "{}", json!({"begin": id, "index": i})).unwrap();
        out.flush().unwrap();
        let res = catch_unwind(AssertUnwindSafe(|| run_case(&case)));
        let mut v = match res {
            Ok(v) => v,
            Err(p) => {
                let msg = if let Some(s) = p.downcast_ref::<&str>() {
                    s.to_string()
                } else if let Some(s) = p.downcast_ref::<String>() {
                    s.clone()
                } else {
                    "panic".to_string()
                };
                json!({"panic": msg})
            }
        };
        v["id"] = id;
        v["index"] = json!(i);
        writeln!(out, "{}", v).unwrap();
        out.flush().unwrap();
    }
}
