#!/bin/sh
# Run once after a fresh restore, offline: builds the generated facts, the whole Coq development (full .vo
# build), the extracted OCaml driver, the Rust harness (linked against /repo/compiler by path) and ironplcc.
set -e
cd "$(dirname "$0")"
export CARGO_NET_OFFLINE=true
mkdir -p work evidence replays
python3 tools/translate.py || true
( cd coq && coq_makefile -f _CoqProject -o Makefile >/dev/null && timeout 3000 make -j16 -k >/dev/null 2>work_make.log || true )
sh ocaml/build.sh || true
( cd harness && cargo build --offline 2>&1 | tail -2 ) || true
( cd /repo/compiler && cargo build --offline -p ironplcc --bin ironplcc --target-dir /verif/harness/target-ironplcc 2>&1 | tail -2 ) || true
echo setup-done
